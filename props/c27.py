"""C27 -- non-aggregate ctypes are canonical over any history.

History + structural model: ctypes are requested through independent paths
(backend constructors, type strings on several in-line FFIs, the C parser of
_cffi_backend.FFI()), references are dropped, FFIs deleted, gc.collect() run.
The monitor keeps weakrefs to every ctype ever obtained and after each step
checks over the live ones: same structural key <=> same object.  At quiescent
points the backend's unique_cache (found through gc.get_objects()) must hold
no dead entry and exactly one entry per live non-aggregate ctype.

Audit extension: every obtained ctype is also compared with the structural key
expected from the REQUESTED spec (the "same object => same C type" direction: a
request must never be answered with the canonical object of another type);
'near' steps request two types differing in exactly one component (length, also
modulo 2**32, ellipsis, ABI, one argument, result, primitive, pointer depth) and
demand two objects.  More input classes: all primitives with alternative
spellings and qualifiers, non-default ABIs, zero-length items and lengths
beyond 2**31 / 2**32, arbitrary result types, struct types created and dropped
in mid-history, and more entry points: typedef names on in-line FFIs,
out-of-line (generated, dlopen-style) modules with typedef lookups and type
strings, derived ctypes (.item/.args/.result of a bigger type, the open array
type a pointer ctype caches for slices, ffi.addressof()).
"""
import sys, os, gc, weakref
from vlib import core

RULE = ("case = one history of 80 steps: request a random type spec (any primitive in several "
        "spellings, void, pointer, array with/without length incl. 0 and > 2**32, function pointer "
        "with args/result/ellipsis/ABI, over struct objects that are replaced in mid-history) "
        "through one of: backend constructors, type string or typedef name on one of 3 in-line "
        "FFIs, type string on a _cffi_backend.FFI(), typedef name or type string on one of 2 "
        "generated out-of-line modules, or derived from a bigger type (.item, .args, .result, "
        "slice of a pointer, ffi.addressof); every result is compared with the key expected "
        "from the spec; request a one-component neighbour of a type; drop a held reference; "
        "delete/recreate an FFI or module; gc.collect(); rebuild a spec whose ctype died; "
        "distinct = (step kind, spec, path); non-trivial = spec is not a bare primitive")
ASSUMPTIONS = ["the structural key is computed only from public ctype attributes (kind, cname, item, length, args, result, ellipsis, abi)",
               "unique_cache is identified as the only dict with bytes keys and weakref-to-CType values",
               "ctype.ellipsis is really 'no prepared cif' (ctypeget_ellipsis tests ct_extra), so it "
               "reads True for a non-variadic function with a complex number passed or returned "
               "by value; as the key is read from the public attributes, no signature here has a "
               "complex by value (pointers to, arrays of and typedefs of complex are used)",
               "qualifiers (const/volatile) are not part of a ctype: 'const T' must give the ctype of 'T'",
               "ABI numbers other than FFI_DEFAULT_ABI are probed at child start: those that "
               "new_function_type accepts are used (constructor path only)"]

PRIMS = ['int', 'char', 'short', 'unsigned long', 'double', 'float', 'signed char', 'long long',
         '_Bool', 'wchar_t', 'unsigned int', 'size_t', 'int32_t', 'long']
ALLPRIMS = ['_Bool', 'char', 'signed char', 'unsigned char', 'short', 'unsigned short', 'int',
            'unsigned int', 'long', 'unsigned long', 'long long', 'unsigned long long', 'float',
            'double', 'long double', 'wchar_t', 'int8_t', 'uint8_t', 'int16_t', 'uint16_t',
            'int32_t', 'uint32_t', 'int64_t', 'uint64_t', 'intptr_t', 'uintptr_t', 'ptrdiff_t',
            'size_t', 'ssize_t', 'int_least8_t', 'uint_least8_t', 'int_least16_t',
            'uint_least16_t', 'int_least32_t', 'uint_least32_t', 'int_least64_t',
            'uint_least64_t', 'int_fast8_t', 'uint_fast8_t', 'int_fast16_t', 'uint_fast16_t',
            'int_fast32_t', 'uint_fast32_t', 'int_fast64_t', 'uint_fast64_t', 'intmax_t',
            'uintmax_t', 'char16_t', 'char32_t', '_cffi_float_complex_t',
            '_cffi_double_complex_t']
# C spellings of a primitive for the two parsers (the first one is what render() prints)
SPELL = {'int': ['int', 'signed', 'signed int'], 'unsigned int': ['unsigned int', 'unsigned'],
         'long': ['long', 'long int', 'signed long', 'signed long int'],
         'unsigned long': ['unsigned long', 'unsigned long int', 'long unsigned',
                           'long unsigned int'],
         'short': ['short', 'short int', 'signed short'],
         'unsigned short': ['unsigned short', 'unsigned short int', 'short unsigned'],
         'long long': ['long long', 'long long int', 'signed long long'],
         'unsigned long long': ['unsigned long long', 'unsigned long long int',
                                'long long unsigned'],
         '_cffi_float_complex_t': ['float _Complex'],
         '_cffi_double_complex_t': ['double _Complex']}
BIGLEN = [2 ** 31 - 1, 2 ** 31, 2 ** 32, 2 ** 32 + 1, 2 ** 32 + 3, 2 ** 32 + 17, 2 ** 40 + 100]
ABI = {'default': None, 'noell': [], 'ell': []}      # filled in by child_setup()


def generate(ctx):
    rng = ctx.rng('gen')
    nh = ctx.scale(300, 3000)
    per = 40
    seeds = [rng.getrandbits(48) for _ in range(nh)]
    return None, [{'seeds': seeds[i:i + per], 'steps': 80} for i in range(0, nh, per)]


def child_setup(setup, wd):
    import _cffi_backend as B
    ABI['default'] = B.FFI_DEFAULT_ABI
    i = B.new_primitive_type('int')
    for ell, name in ((False, 'noell'), (True, 'ell')):
        ABI[name] = []
        for abi in range(0, 6):
            if abi == B.FFI_DEFAULT_ABI:
                continue
            try:
                B.new_function_type((i,), i, ell, abi)
                ABI[name].append(abi)
            except Exception:
                pass
    return {'B': B, 'wd': wd}


def rand_spec(rnd, depth=0, allow_struct=True, role='top'):
    r = rnd.random()
    if depth >= 3 or r < 0.3:
        if allow_struct and rnd.random() < 0.15 and role != 'arg0':
            return ('struct', rnd.randrange(2))
        return ('prim', rnd.choice(PRIMS if rnd.random() < 0.5 else ALLPRIMS))
    if r < 0.6:
        inner = rand_spec(rnd, depth + 1, allow_struct, 'pointee')
        if rnd.random() < 0.1:
            inner = ('void',)
        return ('ptr', inner)
    if r < 0.8 and role in ('top', 'pointee', 'item'):
        item = rand_spec(rnd, depth + 1, allow_struct, 'item')
        if item[0] == 'array' and item[2] is None:
            item = ('prim', 'int')
        if item[0] in ('void', 'func', 'struct'):   # the harness structs are opaque
            item = ('ptr', item)
        n = rnd.choice([None, 0, 1, 2, 3, 17, 100]) if role != 'item' else rnd.choice([0, 1, 2, 5])
        if role != 'item' and rnd.random() < 0.12:
            n = rnd.choice(BIGLEN)
        return ('array', item, n)
    # function pointer
    nargs = rnd.randrange(0, 3)
    args = []
    for _ in range(nargs):
        a = rand_spec(rnd, depth + 2, allow_struct, 'arg')
        if a[0] in ('array', 'struct'):
            a = ('ptr', a if a[0] == 'struct' else a[1])
        args.append(a)
    res = rnd.choice([('void',), ('prim', rnd.choice(PRIMS)), ('ptr', ('prim', 'char'))])
    if rnd.random() < 0.3:
        res = rand_spec(rnd, depth + 2, allow_struct, 'arg')
        if res[0] in ('array', 'struct'):
            res = ('ptr', res if res[0] == 'struct' else res[1])
    # see ASSUMPTIONS: no complex number by value in a signature
    args = [('ptr', a) if is_complex(a) else a for a in args]
    if is_complex(res):
        res = ('ptr', res)
    ell = bool(nargs) and rnd.random() < 0.2
    abi = None
    cand = ABI['ell' if ell else 'noell']
    if cand and allow_struct and rnd.random() < 0.15:      # (allow_struct: ctor-only specs allowed)
        abi = rnd.choice(cand)
    return ('ptr', ('func', tuple(args), res, ell, abi))


def has_struct(s):     # (kept for keys of the samples)
    if s[0] == 'struct':
        return True
    if s[0] in ('ptr', 'array'):
        return has_struct(s[1])
    if s[0] == 'func':
        return any(has_struct(a) for a in s[1]) or has_struct(s[2])
    return False


def ctor_only(s):
    """no C text for it: refers to a harness struct object or to a non-default ABI"""
    if s[0] == 'struct':
        return True
    if s[0] in ('ptr', 'array'):
        return ctor_only(s[1])
    if s[0] == 'func':
        return s[4] is not None or any(ctor_only(a) for a in s[1]) or ctor_only(s[2])
    return False


def render(s, inner='', rnd=None):
    """C text of a spec; with rnd: a random equivalent spelling (other primitive spelling,
    qualifiers, which are not part of a ctype)"""
    k = s[0]
    if k == 'prim':
        name = SPELL.get(s[1], [s[1]])[0]
        if rnd is not None:
            name = rnd.choice(SPELL.get(s[1], [s[1]]))
            q = rnd.random()
            if q < 0.08:
                name = 'const ' + name
            elif q < 0.12:
                name = name + ' const'
            elif q < 0.15:
                name = 'volatile ' + name
        return (name + ' ' + inner).rstrip()
    if k == 'void':
        return ('void ' + inner).rstrip()
    if k == 'ptr':
        if s[1][0] in ('array', 'func'):
            return render(s[1], '(*%s)' % inner, rnd)
        if rnd is not None and inner and not inner.startswith('(') and rnd.random() < 0.06:
            inner = 'const ' + inner if inner[0].isalpha() else 'const' + inner
        elif rnd is not None and not inner and rnd.random() < 0.06:
            inner = 'const'
        return render(s[1], '*' + inner, rnd)
    if k == 'array':
        return render(s[1], '%s[%s]' % (inner, '' if s[2] is None else s[2]), rnd)
    if k == 'func':
        args = [render(a, '', rnd) for a in s[1]]
        if s[3]:
            args.append('...')
        return render(s[2], '%s(%s)' % (inner, ', '.join(args) or 'void'), rnd)
    raise ValueError(s)


def is_complex(s):
    return s[0] == 'prim' and 'complex' in s[1]


def maxlen(s):
    """largest array length anywhere in a spec"""
    if s[0] == 'array':
        return max(s[2] or 0, maxlen(s[1]))
    if s[0] == 'ptr':
        return maxlen(s[1])
    if s[0] == 'func':
        return max([maxlen(a) for a in s[1]] + [maxlen(s[2])])
    return 0


def neighbour(rnd, s, allow_ctor_only):
    """a spec that differs from s in exactly one component (or None)"""
    k = s[0]
    if k == 'prim':
        return ('prim', rnd.choice([p for p in ALLPRIMS if p != s[1]]))
    if k == 'void':
        return ('prim', 'char')
    if k == 'struct':
        return ('struct', 1 - s[1])
    if k == 'ptr':
        r = rnd.random()
        if s[1][0] == 'func':
            f = neighbour(rnd, s[1], allow_ctor_only)
            return None if f is None else ('ptr', f)
        if r < 0.3:
            return ('ptr', s)                      # one more level
        if r < 0.4 and s[1][0] not in ('void',):
            return s[1]                            # one level less
        n = neighbour(rnd, s[1], allow_ctor_only)
        if n is None or n[0] == 'func':
            return None
        return ('ptr', n)
    if k == 'array':
        if rnd.random() < 0.7:
            n = s[2]
            base = 0 if n is None else n
            cand = [base + 1, base + 2 ** 32, base + 2 ** 40, base % (2 ** 32), base % (2 ** 31),
                    None, 0]
            cand = [c for c in cand if c != n and (c is None or c < 2 ** 44)]
            return ('array', s[1], rnd.choice(cand))
        it = neighbour(rnd, s[1], allow_ctor_only)
        if it is None or it[0] in ('void', 'struct', 'func') or (it[0] == 'array' and it[2] is None):
            return None
        return ('array', it, s[2])
    if k == 'func':
        args, res, ell, abi = s[1], s[2], s[3], s[4]
        what = rnd.choice(['ell', 'abi', 'droparg', 'addarg', 'arg', 'res'])
        if what == 'ell' and args:
            if abi is not None and abi not in ABI['noell' if ell else 'ell']:
                return None
            return ('func', args, res, not ell, abi)
        if what == 'abi' and allow_ctor_only:
            cand = [a for a in ABI['ell' if ell else 'noell'] + [None] if a != abi]
            if cand:
                return ('func', args, res, ell, rnd.choice(cand))
        if what == 'droparg' and len(args) > (1 if ell else 0):
            return ('func', args[:-1], res, ell, abi)
        if what == 'addarg':
            return ('func', args + (rnd.choice([('prim', 'int'), ('ptr', ('void',)), args[-1]
                                                if args else ('prim', 'long')]),), res, ell, abi)
        if what == 'arg' and args:
            i = rnd.randrange(len(args))
            a = neighbour(rnd, args[i], allow_ctor_only)
            if a is None or a[0] in ('void', 'struct', 'array', 'func') or is_complex(a):
                return None
            return ('func', args[:i] + (a,) + args[i + 1:], res, ell, abi)
        if what == 'res':
            r = neighbour(rnd, res, allow_ctor_only) if res[0] != 'void' else ('prim', 'int')
            if r is None or r[0] in ('struct', 'array', 'func') or is_complex(r):
                return None
            return ('func', args, r, ell, abi)
        return None
    return None


class H(object):
    def __init__(self, B, rnd, rep, seed):
        self.B, self.rnd, self.rep, self.seed = B, rnd, rep, seed
        self.structs = [B.new_struct_type('struct hs0'), B.new_struct_type('struct hs1')]
        self.ffis = [None, None, None]
        self.cffis = [None]
        self.mods = [None, None]      # generated out-of-line modules: (ffi, {text: typedef name})
        self.modsrc = [None, None]    # their last source (re-executed = the module loaded again)
        self.ntd = 0
        self.held = []          # strong refs: (spec, ctype)
        self.seen = []          # (weakref, spec)
        self.live = {}          # id -> (weakref, structural key)
        self.oplog = []

    def bad(self, mech, msg):
        self.rep.bad(mech, '%s | history seed %d, last steps %r' %
                     (msg, self.seed, self.oplog[-5:]), self.seed)

    def build(self, s):
        """path (a): backend constructors, fresh calls"""
        B = self.B
        k = s[0]
        if k == 'prim':
            return B.new_primitive_type(s[1])
        if k == 'void':
            return B.new_void_type()
        if k == 'struct':
            return self.structs[s[1]]
        if k == 'ptr':
            if s[1][0] == 'func':     # a cffi 'function' ctype is the pointer-to-function type
                return self.build(s[1])
            return B.new_pointer_type(self.build(s[1]))
        if k == 'array':
            return B.new_array_type(B.new_pointer_type(self.build(s[1])), s[2])
        if k == 'func':
            args = []
            for a in s[1]:
                if a[0] == 'ptr' and a[1][0] not in ('void', 'func', 'struct') and \
                        not (a[1][0] == 'array' and a[1][2] is None) and self.rnd.random() < 0.3:
                    # the same parameter written as an array: it decays to the pointer type,
                    # so the function type must be the very same object
                    self.rep.stat('ctor_function_with_array_parameter')
                    args.append(B.new_array_type(B.new_pointer_type(self.build(a[1])),
                                                 self.rnd.choice([None, 0, 3, 1002])))
                else:
                    args.append(self.build(a))
            if s[4] is not None:
                self.rep.stat('ctor_function_with_non_default_abi')
                return B.new_function_type(tuple(args), self.build(s[2]), s[3], s[4])
            return B.new_function_type(tuple(args), self.build(s[2]), s[3])
        raise ValueError(s)

    def want(self, s):
        """the structural key the ctype of spec s must have"""
        k = s[0]
        if k == 'prim':
            return ('prim', s[1])
        if k == 'void':
            return ('void',)
        if k == 'struct':
            return ('agg', id(self.structs[s[1]]))
        if k == 'ptr':
            if s[1][0] == 'func':
                return self.want(s[1])
            return ('ptr', self.want(s[1]))
        if k == 'array':
            return ('array', self.want(s[1]), s[2])
        if k == 'func':
            return ('func', tuple(self.want(a) for a in s[1]), self.want(s[2]), s[3],
                    ABI['default'] if s[4] is None else s[4])
        raise ValueError(s)

    def key(self, ct):
        """structural key from public attributes only"""
        k = ct.kind
        if k in ('primitive',):
            return ('prim', ct.cname)
        if k == 'void':
            return ('void',)
        if k in ('struct', 'union', 'enum'):
            return ('agg', id(ct))
        if k == 'pointer':
            return ('ptr', self.key(ct.item))
        if k == 'array':
            return ('array', self.key(ct.item), ct.length)
        if k == 'function':
            return ('func', tuple(self.key(a) for a in ct.args), self.key(ct.result),
                    ct.ellipsis, ct.abi)
        return ('other', k, ct.cname)

    def paths_for(self, s, base_only=False):
        """entry points through which spec s can be asked for"""
        if ctor_only(s):
            base = ['ctor']
        else:
            base = ['ctor', 'inline0', 'inline1', 'inline2', 'cparser', 'module0', 'module1']
        if base_only:
            return base
        paths = list(base)
        if not ctor_only(s):
            paths += ['typedef0', 'typedef1']
        k = s[0]
        paths.append('item_of_ptr')
        if k in ('prim', 'ptr') or (k == 'array' and s[2] is not None):
            paths.append('item_of_array')
        if k in ('prim', 'ptr') and not is_complex(s):
            paths += ['arg_of_func', 'result_of_func']
        if k == 'void':
            paths.append('result_of_func')
        if k == 'array' and s[2] is None:
            paths += ['slice_of_ptr', 'slice_of_ptr']
        if k == 'ptr' and s[1][0] == 'array' and not ctor_only(s) and maxlen(s) <= 100 and \
                s[1][1][0] != 'array':
            paths.append('addressof')
        return paths

    def request(self, s, path):
        ct = self.request1(s, path)
        self.rep.stat('got_via_' + path.rstrip('012'))
        w = self.want(s)
        if self.key(ct) != w:
            self.bad('ctype-does-not-describe-requested-type', 'asked through %s for %s (key %r) '
                     'and got %r with key %r' % (path, render(s) if not has_struct(s) else repr(s),
                                                 w, ct, self.key(ct)))
        return ct

    def make_module(self, i):
        """a generated out-of-line (dlopen-style) module, built by the real recompiler"""
        import io
        from cffi import FFI, recompiler
        rnd = self.rnd
        if self.modsrc[i] is not None and rnd.random() < 0.5:
            src, tds, specs = self.modsrc[i]
            self.rep.stat('module_loaded_again_from_same_source')
        else:
            # (the recompiler cannot emit array lengths >= 2**31 into a dlopen-style module)
            specs = [h[0] for h in self.held if not ctor_only(h[0]) and h[0][0] != 'void' and
                     maxlen(h[0]) < 2 ** 31]
            rnd.shuffle(specs)
            specs = specs[:3]
            while len(specs) < 6:
                t = rand_spec(rnd, 0, False)
                if t[0] != 'void' and maxlen(t) < 2 ** 31:
                    specs.append(t)
            tds = {}
            lines = []
            for j, t in enumerate(specs):
                if render(t) not in tds:
                    tds[render(t)] = 'mtd%d' % j
                    lines.append('typedef %s;' % render(t, 'mtd%d' % j))
            f = FFI()
            f.cdef('\n'.join(lines))
            f.set_source('c27_genmod', None)
            out = io.StringIO()
            recompiler.make_py_source(f, 'c27_genmod', out)
            src = out.getvalue()
            self.modsrc[i] = (src, tds, specs)
            self.rep.stat('modules_generated')
            self.rep.stat('module_typedefs', len(tds))
        ns = {}
        exec(compile(src, 'c27_genmod.py', 'exec'), ns)
        self.mods[i] = (ns['ffi'], tds, specs)

    def request1(self, s, path):
        from cffi import FFI
        B, rnd = self.B, self.rnd
        if path == 'ctor':
            return self.build(s)
        if path.startswith(('inline', 'typedef')):
            i = int(path[-1])
            if self.ffis[i] is None:
                self.ffis[i] = FFI()
            if path.startswith('typedef'):
                self.ntd += 1
                name = 'td%d' % self.ntd
                self.ffis[i].cdef('typedef %s;' % render(s, name, rnd))
                if rnd.random() < 0.3:
                    return self.ffis[i].typeof(name + '*').item
                return self.ffis[i].typeof(name)
            return self.ffis[i].typeof(render(s, '', rnd))
        if path == 'cparser':
            if self.cffis[0] is None:
                self.cffis[0] = B.FFI()
            return self.cffis[0].typeof(render(s, '', rnd))
        if path.startswith('module'):
            i = int(path[-1])
            if self.mods[i] is None:
                self.make_module(i)
            mffi, tds = self.mods[i][:2]
            if render(s) in tds and rnd.random() < 0.75:
                self.rep.stat('module_typedef_lookups')
                return mffi.typeof(tds[render(s)])
            self.rep.stat('module_typeof_strings')
            return mffi.typeof(render(s, '', rnd))
        # derived: ask for a bigger type through a base path and take the part
        bp = rnd.choice(self.paths_for(s, True))
        if path == 'item_of_ptr':
            return self.request(('ptr', s), bp).item
        if path == 'item_of_array':
            return self.request(('array', s, rnd.choice([None, 0, 4])), bp).item
        if path == 'arg_of_func':
            more = rnd.choice([(), (('prim', 'int'),)])
            return self.request(('ptr', ('func', more + (s,), ('void',), False, None)),
                                bp).args[len(more)]
        if path == 'result_of_func':
            return self.request(('ptr', ('func', (), s, False, None)), bp).result
        if path == 'slice_of_ptr':
            # the open array type that a pointer ctype caches for its slices
            p = self.request(('ptr', s[1]), bp)
            return B.typeof(B.cast(p, 4096)[0:1])
        if path == 'addressof':
            f = self.ffis[0]
            if f is None:
                f = self.ffis[0] = FFI()
            arr = s[1]
            text = render(arr, '', rnd)
            a = f.new(text, 1) if arr[2] is None else f.new(text)
            return f.typeof(f.addressof(a))
        raise ValueError(path)

    def note(self, ct, s):
        self.seen.append((weakref.ref(ct), s))
        i = id(ct)
        if i not in self.live:
            live = self.live
            self.live[i] = (weakref.ref(ct, lambda r, i=i: live.pop(i, None)), self.key(ct))

    def check_live(self, what):
        bykey = {}
        for i, (r, k) in list(self.live.items()):
            ct = r()
            if ct is None or k[0] == 'agg':
                continue
            if k in bykey and bykey[k] is not ct:
                self.bad('two-live-ctypes-for-one-type', 'after %s two distinct live ctype objects '
                         'describe %r: %r and %r' % (what, k, bykey[k], ct))
            bykey[k] = ct
        self.rep.stat('live_checked', len(bykey))
        return len(bykey)

    def step(self):
        rnd = self.rnd
        op = rnd.choice(['request', 'request', 'request', 'pair', 'drop', 'drop', 'collect',
                         'delffi', 'rebuild', 'revive', 'near', 'near', 'newstruct'])
        if op == 'newstruct' and rnd.random() < 0.5:
            op = 'request'
        if op == 'revive' and rnd.random() < 0.5:
            op = 'request'
        if op == 'revive':
            # a user weakref callback that asks for the same type again while the old ctype
            # is being deallocated; the revived object must stay the canonical one
            inner = rand_spec(rnd, 2, False, 'item')
            if inner[0] in ('void', 'func') or (inner[0] == 'array' and inner[2] is None):
                inner = ('prim', 'int')
            s = rnd.choice([('array', inner, rnd.randrange(1000, 100000)),
                            ('ptr', ('array', inner, rnd.randrange(1000, 100000))),
                            ('ptr', ('func', (('ptr', ('array', inner,
                                                        rnd.randrange(1000, 100000))),),
                                     ('prim', 'int'), False, None))])
            paths = ['ctor', 'inline0', 'cparser']
            p0, p1, p2 = rnd.choice(paths), rnd.choice(paths), rnd.choice(paths)
            revived = []
            old = self.request(s, p0)
            wr = weakref.ref(old, lambda r: revived.append(self.request(s, p1)))
            del old
            if p0.startswith('inline'):       # the in-line FFI caches its parsed types
                self.ffis[int(p0[-1])] = None
            elif p0 == 'cparser':
                self.cffis[0] = None
            if wr() is not None:
                gc.collect()
                self.rep.stat('revive_needed_gc')
            self.rep.stat('revive_attempts')
            if not revived:
                self.rep.stat('revive_old_type_still_alive')
                return (op, 'not-dead'), s
            self.rep.stat('revived_in_weakref_callback')
            again = self.request(s, p2)
            self.note(revived[0], s)
            self.note(again, s)
            if again is not revived[0]:
                self.bad('revived-type-not-canonical', '%r re-created (through %s) inside a weakref '
                         'callback of its dying ctype, then requested again through %s: two live '
                         'objects %r / %r' % (render(s), p1, p2, revived[0], again))
            self.held.append((s, again))
            del wr
            return (op, p0, p1, p2), s
        if op == 'newstruct':
            # the struct object of a slot is replaced: the old one dies with its last derived
            # type, and its address (part of the keys in unique_cache) can be reused
            i = rnd.randrange(2)
            self.structs[i] = self.B.new_struct_type(rnd.choice(['struct hs0', 'struct hs1',
                                                                 'struct hs%d' % rnd.randrange(9)]))
            return (op, i), None
        if op == 'near':
            # two types that differ in exactly one component must be two objects
            pool = [h[0] for h in self.held if h[0][0] != 'prim']
            s = rnd.choice(pool) if pool and rnd.random() < 0.5 else rand_spec(rnd)
            t = neighbour(rnd, s, True)
            if t is None or t == s or self.want(t) == self.want(s):
                return ('near-skip',), None
            p1, p2 = rnd.choice(self.paths_for(s)), rnd.choice(self.paths_for(t))
            if rnd.random() < 0.5:
                p2 = p1 if p1 in self.paths_for(t) else p2
            try:
                c1 = self.request(s, p1)
                c2 = self.request(t, p2)
            except OverflowError:
                self.rep.stat('near_total_size_overflow')
                return ('near-skip', 'overflow'), None
            self.note(c1, s)
            self.note(c2, t)
            self.rep.stat('near_pairs_compared')
            if s[0] == 'array' and t[0] == 'array' and s[1] == t[1] and None not in (s[2], t[2]) \
                    and (s[2] - t[2]) % 2 ** 31 == 0:
                self.rep.stat('near_lengths_equal_mod_2_31')
            if s[0] == 'ptr' and s[1][0] == 'func' and t[0] == 'ptr' and t[1][0] == 'func':
                if s[1][4] != t[1][4]:
                    self.rep.stat('near_functions_differ_in_abi')
                elif s[1][3] != t[1][3]:
                    self.rep.stat('near_functions_differ_in_ellipsis')
            if c1 is c2:
                self.bad('different-types-same-object', '%s through %s and %s through %s are the '
                         'same object %r' % (render(s) if not has_struct(s) else repr(s), p1,
                                             render(t) if not has_struct(t) else repr(t), p2, c1))
            if rnd.random() < 0.5:
                self.held.append((s, c1))
            if rnd.random() < 0.5:
                self.held.append((t, c2))
            return (op, render(s) if not has_struct(s) else repr(s),
                    render(t) if not has_struct(t) else repr(t), p1, p2), t
        if op in ('request', 'pair'):
            s = rand_spec(rnd)
            paths = self.paths_for(s)
            p1 = rnd.choice(paths)
            livemods = [i for i in (0, 1) if self.mods[i] is not None]
            if livemods and rnd.random() < 0.15:
                # a type the generated module has a typedef for (realized once per module
                # object and then kept in the module's type table)
                i = rnd.choice(livemods)
                s = rnd.choice(self.mods[i][2])
                paths = self.paths_for(s)
                p1 = 'module%d' % i
            c1 = self.request(s, p1)
            self.note(c1, s)
            key = (op, render(s) if not has_struct(s) else repr(s), p1)
            if op == 'pair':
                p2 = rnd.choice(paths)
                c2 = self.request(s, p2)
                key += (p2,)
                if c1 is not c2 and not has_struct(s):
                    self.bad('same-type-different-objects', '%r requested through %s and %s gave '
                             'two objects %r / %r' % (render(s), p1, p2, c1, c2))
                elif c1 is not c2:
                    self.bad('same-type-different-objects', '%r requested twice through '
                             'constructors gave two objects' % (s,))
                self.rep.stat('pairs_compared')
            if rnd.random() < 0.6:
                self.held.append((s, c1))
            return key, s
        if op == 'drop':
            if self.held:
                i = rnd.randrange(len(self.held))
                s = self.held.pop(i)[0]
                return (op,), s
            return ('drop-skip',), None
        if op == 'collect':
            gc.collect()
            self.check_cache('gc.collect()')
            return (op,), None
        if op == 'delffi':
            i = rnd.randrange(6)
            if i < 3:
                self.ffis[i] = None
            elif i == 3:
                self.cffis[0] = None
            else:
                self.mods[i - 4] = None
            return (op, i), None
        if op == 'rebuild':
            # find a spec whose ctype died, rebuild it through two paths
            dead = [s for r, s in self.seen if r() is None and not ctor_only(s) and s[0] != 'prim']
            if not dead:
                return ('rebuild-skip',), None
            s = rnd.choice(dead)
            p1 = rnd.choice(['ctor', 'inline0', 'cparser', 'module0'])
            p2 = rnd.choice([p for p in self.paths_for(s) if p not in ('inline0', 'typedef0')])
            c1 = self.request(s, p1)
            c2 = self.request(s, p2)
            self.note(c1, s)
            self.rep.stat('rebuilt_after_death')
            if c1 is not c2:
                self.bad('rebuilt-type-not-unique', '%r rebuilt after its ctype was freed: %s and '
                         '%s give different objects' % (render(s), p1, p2))
            self.held.append((s, c1))
            return (op, render(s), p1, p2), s
        return (op,), None

    def find_cache(self):
        best = None
        for o in gc.get_objects():
            if type(o) is dict and len(o) >= 1:
                ok = True
                n = 0
                for k, v in o.items():
                    if type(k) is not bytes or type(v) is not weakref.ReferenceType:
                        ok = False
                        break
                    n += 1
                    if n > 5:
                        break
                if ok:
                    # values must refer to ctypes
                    for v in o.values():
                        t = v()
                        if t is not None and type(t).__name__ not in ('CTypeDescr', 'CType'):
                            ok = False
                        break
                if ok and (best is None or len(o) > len(best)):
                    best = o
        return best

    def check_cache(self, what):
        cache = self.find_cache()
        if cache is None:
            self.rep.stat('unique_cache_not_found')
            return
        self.rep.stat('unique_cache_inspections')
        dead = [k for k, v in cache.items() if v() is None]
        if dead:
            self.bad('dead-entry-in-unique-cache', 'after %s unique_cache holds %d entries whose '
                     'ctype is dead, e.g. %r' % (what, len(dead), dead[0][:40]))
        refs = {}
        for k, v in cache.items():
            t = v()
            if t is not None:
                refs[id(t)] = refs.get(id(t), 0) + 1
        multi = [i for i, n in refs.items() if n > 1]
        if multi:
            self.bad('ctype-in-unique-cache-twice', 'a live ctype is the referent of %d entries' %
                     refs[multi[0]])
        for r, s in self.seen:
            ct = r()
            if ct is not None and ct.kind not in ('struct', 'union', 'enum') and \
                    id(ct) not in refs:
                self.bad('live-ctype-missing-from-unique-cache', 'live ctype %r has no '
                         'unique_cache entry' % (ct,))
                break


def child_case(st, case):
    import random
    rep = core.ChildRep()
    for seed in case['seeds']:
        rnd = random.Random(seed)
        h = H(st['B'], rnd, rep, seed)
        h.wd = st.get('wd')
        rep.stat('histories')
        try:
            for _ in range(case['steps']):
                key, s = h.step()
                h.oplog.append(key)
                h.check_live(repr(key))
                rep.case(key, nontrivial=s is not None and s[0] != 'prim',
                         sample={'step': repr(key)[:200]})
                rep.stat('op_' + key[0].split('-')[0])
            h.held = []
            h.ffis = []
            h.cffis = []
            h.mods = []
            gc.collect()
            h.check_cache('end of history')
        except Exception:
            import traceback
            h.bad('harness-exception', traceback.format_exc()[-900:])
    return rep.result()


def judge(ctx, setup, case, obs):
    core.absorb(ctx, case, obs, lambda seed: {'seeds': [seed], 'steps': case['steps']})
    if ctx.counters.get('unique_cache_not_found') and not ctx.counters.get('unique_cache_inspections'):
        ctx.inconclusive('unique_cache was never found through gc.get_objects()')
