"""C27 -- non-aggregate ctypes are canonical over any history.

History + structural model: ctypes are requested through independent paths
(backend constructors, type strings on several in-line FFIs, the C parser of
_cffi_backend.FFI()), references are dropped, FFIs deleted, gc.collect() run.
The monitor keeps weakrefs to every ctype ever obtained and after each step
checks over the live ones: same structural key <=> same object.  At quiescent
points the backend's unique_cache (found through gc.get_objects()) must hold
no dead entry and exactly one entry per live non-aggregate ctype.
"""
import sys, os, gc, weakref
from vlib import core

RULE = ("case = one history of 80 steps: request a random type spec (primitive, void, pointer, "
        "array with/without length, function pointer with args/result/ellipsis, over shared "
        "struct objects) through one of: backend constructors, type string on one of 3 in-line "
        "FFIs, type string on a _cffi_backend.FFI(); drop a held reference; delete/recreate an "
        "FFI; gc.collect(); rebuild a spec whose ctype died; distinct = (step kind, spec, path); "
        "non-trivial = spec is not a bare primitive")
ASSUMPTIONS = ["the structural key is computed only from public ctype attributes (kind, cname, item, length, args, result, ellipsis, abi)",
               "unique_cache is identified as the only dict with bytes keys and weakref-to-CType values"]

PRIMS = ['int', 'char', 'short', 'unsigned long', 'double', 'float', 'signed char', 'long long',
         '_Bool', 'wchar_t', 'unsigned int', 'size_t', 'int32_t', 'long']


def generate(ctx):
    rng = ctx.rng('gen')
    nh = ctx.scale(300, 5000)
    per = 40
    seeds = [rng.getrandbits(48) for _ in range(nh)]
    return None, [{'seeds': seeds[i:i + per], 'steps': 80} for i in range(0, nh, per)]


def child_setup(setup, wd):
    import _cffi_backend as B
    return {'B': B}


def rand_spec(rnd, depth=0, allow_struct=True, role='top'):
    r = rnd.random()
    if depth >= 3 or r < 0.3:
        if allow_struct and rnd.random() < 0.15 and role != 'arg0':
            return ('struct', rnd.randrange(2))
        return ('prim', rnd.choice(PRIMS))
    if r < 0.6:
        inner = rand_spec(rnd, depth + 1, allow_struct, 'pointee')
        if rnd.random() < 0.1:
            inner = ('void',)
        return ('ptr', inner)
    if r < 0.8 and role in ('top', 'pointee', 'item'):
        item = rand_spec(rnd, depth + 1, allow_struct, 'item')
        if item[0] == 'array' and item[2] is None:
            item = ('prim', 'int')
        if item[0] in ('void', 'func', 'struct'):   # the harness structs are opaque
            item = ('ptr', item)
        n = rnd.choice([None, 0, 1, 2, 3, 17, 100]) if role != 'item' else rnd.choice([1, 2, 5])
        return ('array', item, n)
    # function pointer
    nargs = rnd.randrange(0, 3)
    args = []
    for _ in range(nargs):
        a = rand_spec(rnd, depth + 2, allow_struct, 'arg')
        if a[0] in ('array', 'struct'):
            a = ('ptr', a if a[0] == 'struct' else a[1])
        args.append(a)
    res = rnd.choice([('void',), ('prim', rnd.choice(PRIMS)), ('ptr', ('prim', 'char'))])
    ell = bool(nargs) and rnd.random() < 0.2
    return ('ptr', ('func', tuple(args), res, ell))


def has_struct(s):
    if s[0] == 'struct':
        return True
    if s[0] in ('ptr', 'array'):
        return has_struct(s[1])
    if s[0] == 'func':
        return any(has_struct(a) for a in s[1]) or has_struct(s[2])
    return False


def render(s, inner=''):
    k = s[0]
    if k == 'prim':
        return (s[1] + ' ' + inner).rstrip()
    if k == 'void':
        return ('void ' + inner).rstrip()
    if k == 'ptr':
        if s[1][0] in ('array', 'func'):
            return render(s[1], '(*%s)' % inner)
        return render(s[1], '*' + inner)
    if k == 'array':
        return render(s[1], '%s[%s]' % (inner, '' if s[2] is None else s[2]))
    if k == 'func':
        args = [render(a) for a in s[1]]
        if s[3]:
            args.append('...')
        return render(s[2], '%s(%s)' % (inner, ', '.join(args) or 'void'))
    raise ValueError(s)


class H(object):
    def __init__(self, B, rnd, rep, seed):
        self.B, self.rnd, self.rep, self.seed = B, rnd, rep, seed
        self.structs = [B.new_struct_type('struct hs0'), B.new_struct_type('struct hs1')]
        self.ffis = [None, None, None]
        self.cffis = [None]
        self.held = []          # strong refs: (spec, ctype)
        self.seen = []          # (weakref, spec)
        self.live = {}          # id -> (weakref, structural key)
        self.oplog = []

    def bad(self, mech, msg):
        self.rep.bad(mech, '%s | history seed %d, last steps %r' %
                     (msg, self.seed, self.oplog[-5:]), self.seed)

    def build(self, s):
        """path (a): backend constructors, fresh calls"""
        B = self.B
        k = s[0]
        if k == 'prim':
            return B.new_primitive_type(s[1])
        if k == 'void':
            return B.new_void_type()
        if k == 'struct':
            return self.structs[s[1]]
        if k == 'ptr':
            if s[1][0] == 'func':     # a cffi 'function' ctype is the pointer-to-function type
                return self.build(s[1])
            return B.new_pointer_type(self.build(s[1]))
        if k == 'array':
            return B.new_array_type(B.new_pointer_type(self.build(s[1])), s[2])
        if k == 'func':
            args = []
            for a in s[1]:
                if a[0] == 'ptr' and a[1][0] not in ('void', 'func', 'struct') and \
                        not (a[1][0] == 'array' and a[1][2] is None) and self.rnd.random() < 0.3:
                    # the same parameter written as an array: it decays to the pointer type,
                    # so the function type must be the very same object
                    self.rep.stat('ctor_function_with_array_parameter')
                    args.append(B.new_array_type(B.new_pointer_type(self.build(a[1])),
                                                 self.rnd.choice([None, 0, 3, 1002])))
                else:
                    args.append(self.build(a))
            return B.new_function_type(tuple(args), self.build(s[2]), s[3])
        raise ValueError(s)

    def key(self, ct):
        """structural key from public attributes only"""
        k = ct.kind
        if k in ('primitive',):
            return ('prim', ct.cname)
        if k == 'void':
            return ('void',)
        if k in ('struct', 'union', 'enum'):
            return ('agg', id(ct))
        if k == 'pointer':
            return ('ptr', self.key(ct.item))
        if k == 'array':
            return ('array', self.key(ct.item), ct.length)
        if k == 'function':
            return ('func', tuple(self.key(a) for a in ct.args), self.key(ct.result),
                    ct.ellipsis, ct.abi)
        return ('other', k, ct.cname)

    def request(self, s, path):
        from cffi import FFI
        if path == 'ctor':
            return self.build(s)
        text = render(s)
        if path.startswith('inline'):
            i = int(path[-1])
            if self.ffis[i] is None:
                self.ffis[i] = FFI()
            return self.ffis[i].typeof(text)
        if self.cffis[0] is None:
            self.cffis[0] = self.B.FFI()
        return self.cffis[0].typeof(text)

    def note(self, ct, s):
        self.seen.append((weakref.ref(ct), s))
        i = id(ct)
        if i not in self.live:
            live = self.live
            self.live[i] = (weakref.ref(ct, lambda r, i=i: live.pop(i, None)), self.key(ct))

    def check_live(self, what):
        bykey = {}
        for i, (r, k) in list(self.live.items()):
            ct = r()
            if ct is None or k[0] == 'agg':
                continue
            if k in bykey and bykey[k] is not ct:
                self.bad('two-live-ctypes-for-one-type', 'after %s two distinct live ctype objects '
                         'describe %r: %r and %r' % (what, k, bykey[k], ct))
            bykey[k] = ct
        self.rep.stat('live_checked', len(bykey))
        return len(bykey)

    def step(self):
        rnd = self.rnd
        op = rnd.choice(['request', 'request', 'request', 'pair', 'drop', 'drop', 'collect',
                         'delffi', 'rebuild', 'revive'])
        if op == 'revive' and rnd.random() < 0.5:
            op = 'request'
        if op == 'revive':
            # a user weakref callback that asks for the same type again while the old ctype
            # is being deallocated; the revived object must stay the canonical one
            inner = rand_spec(rnd, 2, False, 'item')
            if inner[0] in ('void', 'func') or (inner[0] == 'array' and inner[2] is None):
                inner = ('prim', 'int')
            s = rnd.choice([('array', inner, rnd.randrange(1000, 100000)),
                            ('ptr', ('array', inner, rnd.randrange(1000, 100000))),
                            ('ptr', ('func', [('ptr', ('array', inner,
                                                        rnd.randrange(1000, 100000)))],
                                     ('prim', 'int'), False))])
            paths = ['ctor', 'inline0', 'cparser']
            p0, p1, p2 = rnd.choice(paths), rnd.choice(paths), rnd.choice(paths)
            revived = []
            old = self.request(s, p0)
            wr = weakref.ref(old, lambda r: revived.append(self.request(s, p1)))
            del old
            if p0.startswith('inline'):       # the in-line FFI caches its parsed types
                self.ffis[int(p0[-1])] = None
            elif p0 == 'cparser':
                self.cffis[0] = None
            if wr() is not None:
                gc.collect()
                self.rep.stat('revive_needed_gc')
            self.rep.stat('revive_attempts')
            if not revived:
                self.rep.stat('revive_old_type_still_alive')
                return (op, 'not-dead'), s
            self.rep.stat('revived_in_weakref_callback')
            again = self.request(s, p2)
            self.note(revived[0], s)
            self.note(again, s)
            if again is not revived[0]:
                self.bad('revived-type-not-canonical', '%r re-created (through %s) inside a weakref '
                         'callback of its dying ctype, then requested again through %s: two live '
                         'objects %r / %r' % (render(s), p1, p2, revived[0], again))
            self.held.append((s, again))
            del wr
            return (op, p0, p1, p2), s
        if op in ('request', 'pair'):
            s = rand_spec(rnd)
            paths = ['ctor', 'inline0', 'inline1', 'inline2', 'cparser']
            if has_struct(s):
                paths = ['ctor']
            p1 = rnd.choice(paths)
            c1 = self.request(s, p1)
            self.note(c1, s)
            key = (op, render(s) if not has_struct(s) else repr(s), p1)
            if op == 'pair':
                p2 = rnd.choice(paths)
                c2 = self.request(s, p2)
                key += (p2,)
                if c1 is not c2 and not has_struct(s):
                    self.bad('same-type-different-objects', '%r requested through %s and %s gave '
                             'two objects %r / %r' % (render(s), p1, p2, c1, c2))
                elif c1 is not c2:
                    self.bad('same-type-different-objects', '%r requested twice through '
                             'constructors gave two objects' % (s,))
                self.rep.stat('pairs_compared')
            if rnd.random() < 0.6:
                self.held.append((s, c1))
            return key, s
        if op == 'drop':
            if self.held:
                i = rnd.randrange(len(self.held))
                s = self.held.pop(i)[0]
                return (op,), s
            return ('drop-skip',), None
        if op == 'collect':
            gc.collect()
            self.check_cache('gc.collect()')
            return (op,), None
        if op == 'delffi':
            i = rnd.randrange(4)
            if i < 3:
                self.ffis[i] = None
            else:
                self.cffis[0] = None
            return (op, i), None
        if op == 'rebuild':
            # find a spec whose ctype died, rebuild it through two paths
            dead = [s for r, s in self.seen if r() is None and not has_struct(s) and s[0] != 'prim']
            if not dead:
                return ('rebuild-skip',), None
            s = rnd.choice(dead)
            p1, p2 = rnd.choice(['ctor', 'inline0', 'cparser']), rnd.choice(['ctor', 'inline1',
                                                                              'cparser'])
            c1 = self.request(s, p1)
            c2 = self.request(s, p2)
            self.note(c1, s)
            self.rep.stat('rebuilt_after_death')
            if c1 is not c2:
                self.bad('rebuilt-type-not-unique', '%r rebuilt after its ctype was freed: %s and '
                         '%s give different objects' % (render(s), p1, p2))
            self.held.append((s, c1))
            return (op, render(s), p1, p2), s
        return (op,), None

    def find_cache(self):
        best = None
        for o in gc.get_objects():
            if type(o) is dict and len(o) >= 1:
                ok = True
                n = 0
                for k, v in o.items():
                    if type(k) is not bytes or type(v) is not weakref.ReferenceType:
                        ok = False
                        break
                    n += 1
                    if n > 5:
                        break
                if ok:
                    # values must refer to ctypes
                    for v in o.values():
                        t = v()
                        if t is not None and type(t).__name__ not in ('CTypeDescr', 'CType'):
                            ok = False
                        break
                if ok and (best is None or len(o) > len(best)):
                    best = o
        return best

    def check_cache(self, what):
        cache = self.find_cache()
        if cache is None:
            self.rep.stat('unique_cache_not_found')
            return
        self.rep.stat('unique_cache_inspections')
        dead = [k for k, v in cache.items() if v() is None]
        if dead:
            self.bad('dead-entry-in-unique-cache', 'after %s unique_cache holds %d entries whose '
                     'ctype is dead, e.g. %r' % (what, len(dead), dead[0][:40]))
        refs = {}
        for k, v in cache.items():
            t = v()
            if t is not None:
                refs[id(t)] = refs.get(id(t), 0) + 1
        multi = [i for i, n in refs.items() if n > 1]
        if multi:
            self.bad('ctype-in-unique-cache-twice', 'a live ctype is the referent of %d entries' %
                     refs[multi[0]])
        for r, s in self.seen:
            ct = r()
            if ct is not None and ct.kind not in ('struct', 'union', 'enum') and \
                    id(ct) not in refs:
                self.bad('live-ctype-missing-from-unique-cache', 'live ctype %r has no '
                         'unique_cache entry' % (ct,))
                break


def child_case(st, case):
    import random
    rep = core.ChildRep()
    for seed in case['seeds']:
        rnd = random.Random(seed)
        h = H(st['B'], rnd, rep, seed)
        rep.stat('histories')
        try:
            for _ in range(case['steps']):
                key, s = h.step()
                h.oplog.append(key)
                h.check_live(repr(key))
                rep.case(key, nontrivial=s is not None and s[0] != 'prim',
                         sample={'step': repr(key)[:200]})
                rep.stat('op_' + key[0].split('-')[0])
            h.held = []
            h.ffis = []
            h.cffis = []
            gc.collect()
            h.check_cache('end of history')
        except Exception:
            import traceback
            h.bad('harness-exception', traceback.format_exc()[-900:])
    return rep.result()


def judge(ctx, setup, case, obs):
    core.absorb(ctx, case, obs, lambda seed: {'seeds': [seed], 'steps': case['steps']})
    if ctx.counters.get('unique_cache_not_found') and not ctx.counters.get('unique_cache_inspections'):
        ctx.inconclusive('unique_cache was never found through gc.get_objects()')
