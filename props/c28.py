"""C28 -- embedded-library start-up initializes once and never deadlocks.

Stub harness (harness/embed_stub): the repository's real src/cffi/_embedding.h
is compiled twice (two translation units = two embedded libraries with private
static state) against a stubbed CPython API (GIL as a real recursive mutex,
Py_InitializeEx counter, PyCapsule_Type shared by both units, scripted init
code that may fail or call back into its own / the other library).  Wrapper
macros defined before the include log and delay every CAS and mutex operation
of the header.  One process per scenario; an event log is checked offline:
Py_InitializeEx <= 1, init code per library <= 1, no extern-Python function of
a library runs on another thread before that library's init finished, every
call returns the right value (0 after a failed init), and a logical deadlock
detector (all unfinished threads recorded as waiting + no progress).
The same harness is also built with TSan (observation only: the header's
unsynchronised fast-path reads are intentional).
Real-process part: three libraries built with ffi.embedding_api() against the
real libpython (slow init code; one failing), first calls raced by 2-10 threads
of a C program; monitors: results, init-code count from a log file, stderr.
"""
import os, sys, subprocess, re
import concurrent.futures as cf
from vlib import core, build

RULE = ("case = one scenario: 1-3 threads x 1-2 libraries x per-library init behaviour {ok, fails, "
        "calls its own extern function, calls the other library} x 1-3 first calls per thread, "
        "with PRNG-driven sched_yield/usleep between every CAS / mutex operation of the real "
        "header (normal and heavy-delay mode); distinct = distinct interleaving signature (hash "
        "of the (thread, library, event) sequence); non-trivial = at least 2 threads")
ASSUMPTIONS = ["the CPython API is stubbed: the GIL is a recursive mutex, Py_InitializeEx takes it, PyEval_SaveThread releases it, a call made by init code into a library releases the GIL around the call (as cffi does)",
               "init-code cycles (A's init calls B whose init calls A) and calls made from inside *failing* init code are not generated",
               "all schedules cannot be enumerated by runtime monitoring; the PyPy and Windows sections of the header are not compiled"]


def build_harness(ctx, san=None):
    conf = build.pyconf()
    src = os.path.join(build.VERIF, 'harness', 'embed_stub')
    inc = ['-I' + conf['inc'], '-I' + os.path.join(build.REPO, 'src', 'cffi'), '-I' + src]
    cc = ['gcc', '-O1', '-g'] if not san else ['clang', '-O1', '-g', '-fsanitize=' + san]
    out = os.path.join(ctx.tmp, 'embed_stub' + ('_' + san if san else ''))
    objs = []
    for tag, args in (('lib0', ['-DLIBID=0', os.path.join(src, 'lib.c')]),
                      ('lib1', ['-DLIBID=1', os.path.join(src, 'lib.c')]),
                      ('stubs', [os.path.join(src, 'stubs.c')])):
        o = os.path.join(ctx.tmp, '%s%s.o' % (tag, san or ''))
        r = subprocess.run(cc + ['-c'] + inc + args + ['-o', o], stdout=subprocess.PIPE,
                           stderr=subprocess.STDOUT)
        if r.returncode:
            raise core.Inconclusive('harness does not compile: ' + r.stdout.decode()[-1500:])
        objs.append(o)
    r = subprocess.run(cc + objs + ['-o', out, '-lpthread'], stdout=subprocess.PIPE,
                       stderr=subprocess.STDOUT)
    if r.returncode:
        raise core.Inconclusive('harness does not link: ' + r.stdout.decode()[-1500:])
    return out


def run_driver(exe, first, count, heavy, env=None):
    try:
        p = subprocess.run([exe, str(first), str(count), str(heavy)], stdout=subprocess.PIPE,
                           stderr=subprocess.PIPE, timeout=1800, env=env)
    except subprocess.TimeoutExpired:
        return None, ''
    return p.stdout.decode(errors='replace').splitlines(), p.stderr.decode(errors='replace')


def run(ctx):
    exe = build_harness(ctx)
    n = ctx.scale(240, 40000)
    base = 1 + (ctx.seed * 1000003) % (2 ** 30)
    chunks = []
    per = max(50, n // 16)
    for i in range(0, n, per):
        chunks.append((base + i, min(per, n - i), 1 if (i // per) % 4 == 3 else 0))
    sigs = set()
    with cf.ThreadPoolExecutor(8) as ex:
        results = list(ex.map(lambda c: (c, run_driver(exe, *c)), chunks))
    for (first, count, heavy), (lines, err) in results:
        if lines is None:
            ctx.inconclusive('driver timed out')
            continue
        seen = 0
        for line in lines:
            m = re.match(r'S (\d+) (\S+)(.*)', line)
            if not m:
                continue
            seen += 1
            seed, verdict, rest = int(m.group(1)), m.group(2), m.group(3)
            kv = dict(re.findall(r'(\w+)=(\S+)', rest))
            nthreads = int(kv.get('nthreads', 1))
            sig = kv.get('sig', str(seed))
            sigs.add(sig)
            ctx.case((kv.get('nthreads'), kv.get('nlibs'), kv.get('beh'), sig),
                     nontrivial=nthreads >= 2,
                     sample={'seed': seed, 'threads': nthreads, 'libs': kv.get('nlibs'),
                             'behaviours': kv.get('beh'), 'events': kv.get('events'),
                             'verdict': verdict})
            ctx.count('scenarios')
            ctx.count('scenarios_heavy_delay' if heavy else 'scenarios_normal_delay')
            ctx.count('beh_' + kv.get('beh', '?'))
            if verdict == 'OK':
                continue
            if verdict == 'WATCHDOG':
                ctx.inconclusive('scenario %d: wall-clock watchdog (inconclusive)' % seed)
                continue
            ctx.violation(verdict.replace('VIOLATION:', ''), 'scenario %d (heavy=%d): %s' %
                          (seed, heavy, rest.strip()), {'seed': seed, 'heavy': heavy})
        if seen != count:
            ctx.inconclusive('driver reported %d of %d scenarios' % (seen, count))
    ctx.extra['distinct_interleaving_signatures'] = len(sigs)
    real_process_part(ctx)
    # TSan build: observations only
    try:
        texe = build_harness(ctx, 'thread')
        env = dict(os.environ, TSAN_OPTIONS='halt_on_error=0:exitcode=0', EMBED_STUB_STDERR='1')
        lines, err = run_driver(texe, base, ctx.scale(20, 400), 0, env)
        kinds = {}
        for kind, frame, block in core.split_reports(err):
            key = '%s@%s' % (kind, frame)
            kinds[key] = kinds.get(key, 0) + 1
        ctx.extra['tsan_observations'] = kinds
        ctx.count('tsan_scenarios', len([l for l in (lines or []) if l.startswith('S ')]))
        for line in lines or []:
            if ' VIOLATION:' in line:
                m = re.match(r'S (\d+) (\S+)(.*)', line)
                ctx.violation(m.group(2).replace('VIOLATION:', ''), 'TSan build, scenario %s: %s' %
                              (m.group(1), m.group(3).strip()), {'seed': int(m.group(1)), 'heavy': 0})
    except core.Inconclusive as e:
        ctx.note('TSan build of the harness unavailable: %s' % str(e)[:200])


def real_process_part(ctx):
    """The real thing: three libraries built with ffi.embedding_api() against the
    real libpython (two with slow init code, one whose init code raises), first
    calls raced by 2-10 threads of a C program that dlopen()s them."""
    import glob, shutil
    d = os.path.join(ctx.tmp, 'real')
    os.makedirs(d, exist_ok=True)
    log = os.path.join(d, 'init.log')
    src = os.path.join(build.VERIF, 'harness', 'embed_real')
    shutil.copy(os.path.join(src, 'build.py'), d)
    shutil.copy(os.path.join(src, 'drv.c'), d)
    env = build.child_env('plain')
    r = subprocess.run([build.PY, 'build.py', log], cwd=d, env=env, stdout=subprocess.PIPE,
                       stderr=subprocess.STDOUT, timeout=900)
    r2 = subprocess.run(['gcc', 'drv.c', '-o', 'drv', '-ldl', '-lpthread'], cwd=d,
                        stdout=subprocess.PIPE, stderr=subprocess.STDOUT)
    libs = [glob.glob(os.path.join(d, n + '*.so')) for n in ('_c28A', '_c28B', '_c28F')]
    if r.returncode or r2.returncode or not all(libs):
        ctx.note('real-process part not run: build failed: ' + (r.stdout + r2.stdout).decode()[-300:])
        ctx.count('real_process_build_failed')
        return
    env['PYTHONPATH'] = env['PYTHONPATH'] + os.pathsep + d
    rng = ctx.rng('real')
    for i in range(ctx.scale(6, 150)):
        if os.path.exists(log):
            os.unlink(log)
        nth, nc, seed = rng.choice([2, 3, 5, 10]), rng.choice([1, 2, 4]), rng.getrandbits(20)
        try:
            p = subprocess.run(['./drv', libs[0][0], libs[1][0], libs[2][0], str(seed), str(nth),
                                str(nc)], cwd=d, env=env, stdout=subprocess.PIPE,
                               stderr=subprocess.PIPE, timeout=300)
        except subprocess.TimeoutExpired:
            ctx.inconclusive('real-process scenario: wall-clock watchdog (inconclusive)')
            continue
        case = {'real': True, 'seed': seed, 'threads': nth, 'calls': nc}
        out = p.stdout.decode(errors='replace')
        rows = [list(map(int, l.split()[1:])) for l in out.splitlines() if l.startswith('R ')]
        ctx.case(('real', seed, nth, nc), nontrivial=True,
                 sample={'real_process': True, 'threads': nth, 'calls_per_thread': nc,
                         'results': rows[:6]})
        ctx.count('real_process_scenarios')
        if p.returncode != 0 or len(rows) != nth * nc:
            ctx.violation('real-process:crash-or-missing-calls', 'rc=%s, %d of %d results; stderr '
                          '%s' % (p.returncode, len(rows), nth * nc,
                                  p.stderr.decode(errors='replace')[-400:]), case)
            continue
        for t, k, w, res in rows:
            exp = 0 if w == 2 else t * 10 + k + 1000
            if res != exp:
                mech = 'real-process:extern-python-before-init-finished' if res == -1 else (
                    'real-process:nonzero-result-after-failed-init' if w == 2 else
                    'real-process:wrong-result')
                ctx.violation(mech, 'thread %d call %d of lib %s returned %d, expected %d' %
                              (t, k, 'ABF'[w], res, exp), case)
        used = set(w for t, k, w, res in rows)
        lines = open(log).read().split('\n') if os.path.exists(log) else []
        for w, name in enumerate(('_c28A', '_c28B', '_c28F')):
            n = lines.count('init-start ' + name)
            if n > 1 or (w in used and n != 1):
                ctx.violation('real-process:init-code-ran-%s' % ('twice' if n > 1 else 'never'),
                              'init code of %s ran %d times' % (name, n), case)
        if 2 in used and b'initialization code failed' not in p.stderr:
            ctx.violation('real-process:failed-init-not-reported', 'no "initialization code '
                          'failed" message for calls into the failing library', case)


def replay(ctx, data):
    if data['case'].get('real'):
        print('real-process scenarios are schedule-dependent: re-running the real-process part')
        real_process_part(ctx)
        return
    exe = build_harness(ctx)
    case = data['case']
    for i in range(20):
        lines, err = run_driver(exe, case['seed'], 1, case.get('heavy', 0),
                                dict(os.environ, EMBED_STUB_STDERR='1'))
        print((lines or ['?'])[0])
        if lines and ' VIOLATION:' in lines[0]:
            m = re.match(r'S (\d+) (\S+)(.*)', lines[0])
            ctx.violation(m.group(2).replace('VIOLATION:', ''), lines[0], case)
            return
    print('not reproduced in 20 runs of the same scenario (schedule-dependent)')
