"""C28 -- embedded-library start-up initializes once and never deadlocks.

Stub harness (harness/embed_stub): the repository's real src/cffi/_embedding.h
is compiled twice (two translation units = two embedded libraries with private
static state) against a stubbed CPython API (GIL as a real recursive mutex,
Py_InitializeEx counter, PyCapsule_Type shared by both units, scripted init
code that may call back into its own / the other library -- an extern-Python
function or cffi_start_python() -- and may fail afterwards; Python possibly
initialized by the host already).  Wrapper macros defined before the include
log and delay every CAS and mutex operation (and the lazy mutex creation) of
the header.  Each library exports extern-Python functions with results of
4 / 1 / 8 / 24 bytes (arguments and results without zero bytes) and a wrapper
of cffi_start_python().  One process per scenario; an event log is checked
offline: Py_InitializeEx <= 1 (0 in an initialized host), init code per library
<= 1, no extern-Python function of a library runs on another thread -- and
cffi_start_python() does not return 0 to another thread -- before that
library's init finished, every call returns the right bytes (all zero after a
failed init, cffi_start_python() -1), no GIL misuse of the stubbed API, and a
logical deadlock / livelock detector (all unfinished threads recorded as
waiting or spinning for > 1 s of CPU time without an event + no progress).
Schedules: random delays (normal / heavy), all threads released by a barrier,
stall points (one thread pauses at its n-th delay point until the others have
logged k events), and directed scenarios (thread 0 goes first and is held in
Py_InitializeEx / at the start of the init code / inside or after the call the
init code makes, while the other threads make their first call).
The same harness is also built with TSan (libraries instrumented only;
observation only: the header's unsynchronised fast-path reads are intentional).
Real-process part: four libraries built with ffi.embedding_api() against the
real libpython (slow init code; one failing; one whose init code calls its own
exported function), first calls raced by 2-10 threads of a C program, all at
once or arriving late / exactly after the init code's own call; monitors:
results, init-code count from a log file, stderr.
"""
import os, sys, subprocess, re, time
import concurrent.futures as cf
from vlib import core, build

RULE = ("case = one scenario: 1-3 threads x 1-2 libraries x per-library init behaviour {no call out, "
        "calls its own library, calls the other library} x {ok, fails afterwards} x {Python not yet "
        "initialized, already initialized by the host} x 1-3 operations per thread, operation = an "
        "extern-Python function with a 4/1/8/24-byte result (arguments without zero bytes) or "
        "cffi_start_python(), also as the call made by the init code; PRNG-driven sched_yield/"
        "usleep between every CAS / mutex operation of the real header (normal and heavy-delay "
        "mode); directed scenarios: thread 0 goes first and is held inside Py_InitializeEx / at "
        "the start of the init code / inside or after the call made by the init code until the "
        "other threads have entered their first operation; distinct = distinct interleaving "
        "signature (hash of the (thread, library, event) sequence); non-trivial = at least 2 threads")
ASSUMPTIONS = ["the CPython API is stubbed: the GIL is a recursive mutex, Py_InitializeEx takes it, PyEval_SaveThread releases it, a call made by init code into a library releases the GIL around the call (as cffi does)",
               "init-code cycles (A's init calls B whose init calls A) are not generated; the result of a call made from inside init code is not judged (only that it terminates)",
               "cffi_start_python() is judged by its documented result (0 / -1) and must not return 0 to another thread before the init code finished",
               "a PyEval_SaveThread by a thread that does not hold the GIL and a PyGILState_Ensure before Py_InitializeEx count as non-terminating calls (fatal errors in CPython)",
               "all schedules cannot be enumerated by runtime monitoring; the PyPy and Windows sections of the header are not compiled"]


def build_harness(ctx, san=None):
    conf = build.pyconf()
    src = os.path.join(build.VERIF, 'harness', 'embed_stub')
    inc = ['-I' + conf['inc'], '-I' + os.path.join(build.REPO, 'src', 'cffi'), '-I' + src]
    cc = ['gcc', '-O1', '-g'] if not san else ['clang', '-O1', '-g', '-fsanitize=' + san]
    out = os.path.join(ctx.tmp, 'embed_stub' + ('_' + san if san else ''))
    objs = []
    for tag, args in (('lib0', ['-DLIBID=0', os.path.join(src, 'lib.c')]),
                      ('lib1', ['-DLIBID=1', os.path.join(src, 'lib.c')]),
                      ('stubs', [os.path.join(src, 'stubs.c')])):
        o = os.path.join(ctx.tmp, '%s%s.o' % (tag, san or ''))
        # sanitizer builds instrument the two libraries (the code under observation) only:
        # the harness's own volatile bookkeeping would flood the report stream
        ccx = [a for a in cc if not a.startswith('-fsanitize=')] if tag == 'stubs' else cc
        r = subprocess.run(ccx + ['-c'] + inc + args + ['-o', o], stdout=subprocess.PIPE,
                           stderr=subprocess.STDOUT)
        if r.returncode:
            raise core.Inconclusive('harness does not compile: ' + r.stdout.decode()[-1500:])
        objs.append(o)
    r = subprocess.run(cc + objs + ['-o', out, '-lpthread'], stdout=subprocess.PIPE,
                       stderr=subprocess.STDOUT)
    if r.returncode:
        raise core.Inconclusive('harness does not link: ' + r.stdout.decode()[-1500:])
    return out


def run_driver(exe, first, count, heavy, env=None):
    try:
        p = subprocess.run([exe, str(first), str(count), str(heavy)], stdout=subprocess.PIPE,
                           stderr=subprocess.PIPE, timeout=1800, env=env)
    except subprocess.TimeoutExpired:
        return None, ''
    return p.stdout.decode(errors='replace').splitlines(), p.stderr.decode(errors='replace')


KIND_NAMES = ('call_result_4_bytes', 'call_result_1_byte', 'call_result_8_bytes',
              'call_result_24_bytes', 'cffi_start_python')
GATE_NAMES = {1: 'in_Py_InitializeEx', 2: 'at_init_code_start', 3: 'inside_init_codes_own_call',
              4: 'after_init_codes_own_call'}


def run(ctx):
    t0 = time.time()
    exe = build_harness(ctx)
    n = ctx.scale(336, 40000)
    base = 1 + (ctx.seed * 1000003) % (2 ** 30)
    chunks = []
    per = max(14, n // 48)
    # mode bit 0: heavy delays, bit 1: directed (late first calls while the init is held)
    modes = [0, 2, 0, 3, 2, 1, 0, 2, 2, 1, 0, 3]
    for j, i in enumerate(range(0, n, per)):
        chunks.append((base + i, min(per, n - i), modes[j % len(modes)]))
    sigs = set()
    with cf.ThreadPoolExecutor(8) as ex:
        results = list(ex.map(lambda c: (c, run_driver(exe, *c)), chunks))
    for (first, count, mode), (lines, err) in results:
        if lines is None:
            ctx.inconclusive('driver timed out')
            continue
        seen = 0
        for line in lines:
            m = re.match(r'S (\d+) (\S+)(.*)', line)
            if not m:
                continue
            seen += 1
            seed, verdict, rest = int(m.group(1)), m.group(2), m.group(3)
            if verdict == 'SKIPPED':
                ctx.count('scenarios_skipped_after_two_hangs')
                continue
            if verdict == 'WATCHDOG':
                ctx.inconclusive('scenario %d: wall-clock watchdog (inconclusive)' % seed)
                continue
            kv = dict(re.findall(r'(\w+)=(\S+)', rest))
            nthreads = int(kv.get('nthreads', 1))
            sig = kv.get('sig', str(seed))
            sigs.add(sig)
            ctx.case((kv.get('nthreads'), kv.get('nlibs'), kv.get('beh'), kv.get('pre'),
                      kv.get('gate'), sig),
                     nontrivial=nthreads >= 2,
                     sample={'seed': seed, 'mode': mode, 'threads': nthreads, 'libs': kv.get('nlibs'),
                             'behaviours': kv.get('beh'), 'python_preinitialized': kv.get('pre'),
                             'gate': kv.get('gate'), 'events': kv.get('events'),
                             'verdict': verdict})
            ctx.count('scenarios')
            ctx.count('scenarios_heavy_delay' if mode & 1 else 'scenarios_normal_delay')
            ctx.count('beh_' + kv.get('beh', '?'))
            behs = kv.get('beh', '').split(',')[:int(kv.get('nlibs', 1))]
            inner = kv.get('inner', '-1,-1').split(',')
            for b, ik in zip(behs, inner):
                if b in ('SF', 'OF'):
                    ctx.count('lib_init_calls_out_then_fails')
                if b[:1] in 'SO' and ik == '4':
                    ctx.count('lib_init_calls_cffi_start_python')
                if b[:1] in 'SO' and ik in ('1', '2', '3'):
                    ctx.count('lib_init_calls_non_int_function')
            if 'O' in behs[0][:1] + behs[-1][:1] and any('F' in b for b in behs):
                ctx.count('scenarios_init_calls_other_lib_and_some_init_fails')
            if kv.get('bar') == '1':
                ctx.count('scenarios_all_threads_start_at_barrier')
            st = kv.get('stalls', '0/0').split('/')
            if int(st[1]):
                ctx.count('scenarios_with_stall_points')
                ctx.count('stalls_taken', int(st[0]))
            if kv.get('pre') == '1':
                ctx.count('scenarios_python_preinitialized_by_host')
            if mode & 2:
                ctx.count('scenarios_directed')
                g = int(kv.get('gate', 0))
                if int(kv.get('hit', 0)):
                    ctx.count('directed_held_' + GATE_NAMES.get(g, '?'))
                    ctx.count('directed_hold_ended_%s' % {1: 'all_others_blocked', 2: 'grace_period',
                                                          3: 'bound'}.get(int(kv.get('hold', 0)), 'early'))
                else:
                    ctx.count('directed_gate_not_reached')
            late = int(kv.get('late', 0))
            ctx.count('first_calls_entered_while_init_in_progress', late)
            if late:
                ctx.count('scenarios_with_call_entered_while_init_in_progress')
                if kv.get('beh', '')[:1] in 'SO' or kv.get('beh', '').split(',')[-1][:1] in 'SO':
                    ctx.count('scenarios_with_call_entered_while_calling_out_init_in_progress')
            for name, c in zip(KIND_NAMES, kv.get('kinds', '').split(',')):
                ctx.count('op_' + name, int(c or 0))
            if verdict == 'OK':
                continue
            ctx.violation(verdict.replace('VIOLATION:', ''), 'scenario %d (mode=%d): %s' %
                          (seed, mode, rest.strip()), {'seed': seed, 'heavy': mode})
        if seen != count:
            ctx.inconclusive('driver reported %d of %d scenarios' % (seen, count))
    ctx.extra['distinct_interleaving_signatures'] = len(sigs)
    t1 = time.time()
    real_process_part(ctx)
    t2 = time.time()
    ctx.extra['phase_wall_s'] = {'stub_scenarios': round(t1 - t0, 1), 'real_process': round(t2 - t1, 1)}
    ctx.note('the TSan build instruments the two libraries only (observation only)')
    # TSan build: observations only
    try:
        texe = build_harness(ctx, 'thread')
        env = dict(os.environ, TSAN_OPTIONS='halt_on_error=0:exitcode=0:symbolize=0', EMBED_STUB_STDERR='1')
        lines, err = run_driver(texe, base, ctx.scale(4, 200), 0, env)
        l2, e2 = run_driver(texe, base + 5000, ctx.scale(4, 200), 2, env)
        lines, err = (lines or []) + (l2 or []), err + e2
        kinds = {}
        for kind, frame, block in core.split_reports(err):
            key = '%s@%s' % (kind, frame)
            kinds[key] = kinds.get(key, 0) + 1
        ctx.extra['tsan_observations'] = kinds
        ctx.count('tsan_scenarios', len([l for l in (lines or []) if l.startswith('S ')]))
        for line in lines or []:
            if ' VIOLATION:' in line:
                m = re.match(r'S (\d+) (\S+)(.*)', line)
                ctx.violation(m.group(2).replace('VIOLATION:', ''), 'TSan build, scenario %s: %s' %
                              (m.group(1), m.group(3).strip()),
                              {'seed': int(m.group(1)), 'heavy': 2 if int(m.group(1)) >= base + 5000 else 0})
    except core.Inconclusive as e:
        ctx.note('TSan build of the harness unavailable: %s' % str(e)[:200])


def real_process_part(ctx):
    """The real thing: four libraries built with ffi.embedding_api() against the
    real libpython (two with slow init code, one whose init code raises, one whose
    init code calls its own exported function through C), first calls raced by
    2-10 threads of a C program that dlopen()s them (all at once, or the threads
    other than thread 0 arriving 0-175 ms late)."""
    import glob, shutil
    d = os.path.join(ctx.tmp, 'real')
    os.makedirs(d, exist_ok=True)
    log = os.path.join(d, 'init.log')
    src = os.path.join(build.VERIF, 'harness', 'embed_real')
    shutil.copy(os.path.join(src, 'build.py'), d)
    shutil.copy(os.path.join(src, 'drv.c'), d)
    env = build.child_env('plain')
    r = subprocess.run([build.PY, 'build.py', log], cwd=d, env=env, stdout=subprocess.PIPE,
                       stderr=subprocess.STDOUT, timeout=900)
    r2 = subprocess.run(['gcc', 'drv.c', '-o', 'drv', '-ldl', '-lpthread'], cwd=d,
                        stdout=subprocess.PIPE, stderr=subprocess.STDOUT)
    libs = [glob.glob(os.path.join(d, n + '*.so')) for n in ('_c28A', '_c28B', '_c28F', '_c28R')]
    if r.returncode or r2.returncode or not all(libs):
        ctx.note('real-process part not run: build failed: ' + (r.stdout + r2.stdout).decode()[-300:])
        ctx.count('real_process_build_failed')
        return
    env['PYTHONPATH'] = env['PYTHONPATH'] + os.pathsep + d
    rng = ctx.rng('real')
    hangs = 0
    for i in range(ctx.scale(8, 150)):
        if os.path.exists(log):
            os.unlink(log)
        nth, nc, seed = rng.choice([2, 3, 5, 10]), rng.choice([1, 2, 4]), rng.getrandbits(20)
        late = (0, 2, 1, 2)[i % 4]
        try:
            p = subprocess.run(['./drv', libs[0][0], libs[1][0], libs[2][0], libs[3][0], str(seed),
                                str(nth), str(nc), str(late), log], cwd=d, env=env, stdout=subprocess.PIPE,
                               stderr=subprocess.PIPE, timeout=ctx.scale(90, 300))
        except subprocess.TimeoutExpired:
            ctx.inconclusive('real-process scenario: wall-clock watchdog (inconclusive)')
            hangs += 1
            if hangs >= 2:
                ctx.note('real-process part stopped after two wall-clock watchdogs')
                break
            continue
        case = {'real': True, 'seed': seed, 'threads': nth, 'calls': nc, 'late': late}
        out = p.stdout.decode(errors='replace')
        rows = [list(map(int, l.split()[1:])) for l in out.splitlines() if l.startswith('R ')]
        ctx.case(('real', seed, nth, nc, late), nontrivial=True,
                 sample={'real_process': True, 'threads': nth, 'calls_per_thread': nc,
                         'late_arrivals': late,
                         'results': rows[:6]})
        ctx.count('real_process_scenarios')
        ctx.count('real_process_scenarios_%s' % ('all_threads_at_once', 'late_arrivals',
                                                 'late_arrivals_into_lib_whose_init_calls_itself')[late])
        if p.returncode != 0 or len(rows) != nth * nc:
            ctx.violation('real-process:crash-or-missing-calls', 'rc=%s, %d of %d results; stderr '
                          '%s' % (p.returncode, len(rows), nth * nc,
                                  p.stderr.decode(errors='replace')[-400:]), case)
            continue
        for t, k, w, res in rows:
            exp = 0 if w == 2 else t * 10 + k + 1000
            if res != exp:
                mech = 'real-process:extern-python-before-init-finished' if res == -1 else (
                    'real-process:nonzero-result-after-failed-init' if w == 2 else
                    'real-process:wrong-result')
                ctx.violation(mech, 'thread %d call %d of lib %s returned %d, expected %d' %
                              (t, k, 'ABFR'[w], res, exp), case)
        used = set(w for t, k, w, res in rows)
        lines = open(log).read().split('\n') if os.path.exists(log) else []
        for w, name in enumerate(('_c28A', '_c28B', '_c28F', '_c28R')):
            n = lines.count('init-start ' + name)
            if n > 1 or (w in used and n != 1):
                ctx.violation('real-process:init-code-ran-%s' % ('twice' if n > 1 else 'never'),
                              'init code of %s ran %d times' % (name, n), case)
        if 3 in used:
            ctx.count('real_process_init_code_called_own_function')
        if 2 in used and b'initialization code failed' not in p.stderr:
            ctx.violation('real-process:failed-init-not-reported', 'no "initialization code '
                          'failed" message for calls into the failing library', case)


def replay(ctx, data):
    if data['case'].get('real'):
        print('real-process scenarios are schedule-dependent: re-running the real-process part')
        real_process_part(ctx)
        return
    exe = build_harness(ctx)
    case = data['case']
    for i in range(20):
        lines, err = run_driver(exe, case['seed'], 1, case.get('heavy', 0),
                                dict(os.environ, EMBED_STUB_STDERR='1'))
        print((lines or ['?'])[0])
        if lines and ' VIOLATION:' in lines[0]:
            m = re.match(r'S (\d+) (\S+)(.*)', lines[0])
            ctx.violation(m.group(2).replace('VIOLATION:', ''), lines[0], case)
            return
    print('not reproduced in 20 runs of the same scenario (schedule-dependent)')
