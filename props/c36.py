"""C36 -- callbacks from non-Python threads get a valid, persistent thread state.

A pthread driver (compiled through cffi API mode, vlib/thrmod.py) starts waves
of 1-12 threads that Python did not create; each calls a cffi callback
(ffi.callback or extern "Python") k times with random sleeps and exits after a
scripted delay, while Python threads run GC, create callbacks and call into C.
Every callback invocation is logged (wave, thread, call index, Python thread
ident, a threading.local counter).  Checker: within one foreign thread the
local counter goes 0,1,2,... (state persists), a new thread never sees an
earlier thread's local data, every scripted call produced exactly one event,
and the process survives (ASan/UBSan deciding; TSan build as observation).
"""
import os, sys, time, threading, random, subprocess, json
from vlib import core, modbuild, thrmod, build

RULE = ("case = one scenario: 2-5 waves of 1-12 foreign threads x 0-50 callback calls, random "
        "usleep between calls and before thread exit, callback kind ffi.callback or extern "
        "\"Python\", 0-2 Python threads doing gc.collect()/callback creation/C calls meanwhile, "
        "optionally nested cffi callbacks made from inside the callback (through a C call = GIL "
        "released, or through a ctypes PYFUNCTYPE pointer = GIL held), optionally os.fork() "
        "while exited foreign threads are still pending in the zombie list followed by new "
        "foreign threads in the child and in the parent; distinct = "
        "(wave sizes, calls per thread, callback kind, nesting mode, fork); non-trivial = >= 2 foreign "
        "threads with >= 2 calls each")
ASSUMPTIONS = ["TSan reports are observations only (the unlocked fast-path read of cffi_zombie_head.zombie_next is a known C11 race that does not affect the property)",
               "the thread-state checks are behavioural: threading.get_ident() stable per foreign thread, threading.local data persisting across calls of one thread and fresh for a new thread"]
SAN_DECIDES = True


def build_mod(ctx):
    d = os.path.join(ctx.tmp, 'mod')
    res = modbuild.build_modules(ctx, [thrmod.spec(d)])['_thrmod']
    if not res['ok']:
        raise core.Inconclusive('helper module build failed: ' + res['error'] + res.get('log', ''))
    return {'dir': d}


def run(ctx):
    setup = build_mod(ctx)
    rng = ctx.rng('gen')
    n = ctx.scale(60, 1200)
    cases = [{'seeds': [rng.getrandbits(40) for _ in range(6)]} for _ in range(max(1, n // 6))]
    obs = core.run_cases(ctx, 'c36', setup, cases, variant='asan', nproc=2, timeout=3600)
    for c, o in zip(cases, obs):
        if core.std_obs_check(ctx, c, o, True, True):
            judge(ctx, setup, c, o)
    # TSan: observations
    tcases = [{'seeds': [rng.getrandbits(40) for _ in range(3)]} for _ in range(ctx.scale(3, 40))]
    tobs = core.run_cases(ctx, 'c36', setup, tcases, variant='tsan', nproc=2, timeout=3600)
    for c, o in zip(tcases, tobs):
        if core.std_obs_check(ctx, c, o, True, False):
            judge(ctx, setup, c, o)
            ctx.count('tsan_scenarios', len(c['seeds']))
    # Interpreter shutdown while detached foreign threads are still *calling back*
    # was tried and dropped: a callback entered after Py_Finalize is outside what
    # CPython supports (observed: SIGSEGV in 1 of 6 runs on the unchanged tree) and
    # outside the statement, which speaks about thread exits.  The scenario code is
    # kept for manual use (VERIF_C36_SHUTDOWN=1), as an observation only.
    if os.environ.get('VERIF_C36_SHUTDOWN'):
        for i in range(ctx.scale(6, 100)):
            shutdown_scenario(ctx, setup, rng.getrandbits(30), 'asan' if i % 2 == 0 else 'plain')


SHUTDOWN_SCRIPT = r'''
import sys, time, threading
sys.path.insert(0, %(dir)r)
import _thrmod
ffi, lib = _thrmod.ffi, _thrmod.lib
count = [0]
@ffi.callback('int(int, int, int)')
def cb(wave, tid, idx):
    count[0] += 1
    return 0
lib.start_detached(1, %(n)d, 100000, %(sl)d, cb)
time.sleep(%(wait)f)
print('calls-before-exit', count[0])
sys.stdout.flush()
%(exit)s
'''


def shutdown_scenario(ctx, setup, seed, variant):
    rnd = random.Random(seed)
    n = rnd.choice([1, 2, 4, 8])
    script = SHUTDOWN_SCRIPT % {'dir': setup['dir'], 'n': n, 'sl': rnd.choice([0, 50, 500]),
                                'wait': rnd.choice([0.02, 0.1, 0.3]),
                                'exit': rnd.choice(['', 'sys.exit(0)', 'import os; os._exit(0)'])}
    logbase = os.path.join(ctx.tmp, 'shut_%d.san' % seed)
    env = build.child_env(variant, logbase=logbase)
    try:
        p = subprocess.run(build.python_cmd(variant) + ['-c', script], env=env, cwd=ctx.tmp,
                           stdout=subprocess.PIPE, stderr=subprocess.PIPE, timeout=120)
    except subprocess.TimeoutExpired:
        ctx.inconclusive('shutdown scenario timed out (watchdog)')
        return
    out = p.stdout.decode(errors='replace')
    case = {'shutdown': True, 'seed': seed, 'variant': variant}
    ctx.case(('shutdown', n, script[-60:]), nontrivial=True,
             sample={'shutdown_threads': n, 'variant': variant, 'rc': p.returncode,
                     'stdout': out.strip()[:60]})
    ctx.count('shutdown_scenarios')
    san = ''
    for fn in os.listdir(ctx.tmp):
        if fn.startswith('shut_%d.san' % seed):
            with open(os.path.join(ctx.tmp, fn), errors='replace') as f:
                san += f.read()
    if san:
        ctx.sanitizer(san, case, deciding=True)
    if p.returncode != 0:
        ctx.violation('crash-at-interpreter-shutdown:rc=%s' % ('signal' if p.returncode < 0 else
                                                               'nonzero'),
                      'interpreter exit with %d detached foreign threads still calling back: '
                      'rc=%s stderr=%s' % (n, p.returncode, p.stderr.decode(errors='replace')[-800:]),
                      case)
    elif 'calls-before-exit' not in out:
        ctx.inconclusive('shutdown scenario printed nothing')


def child_setup(setup, wd):
    sys.path.insert(0, setup['dir'])
    import _thrmod
    return {'ffi': _thrmod.ffi, 'lib': _thrmod.lib}


def _san_log_of(pid):
    txt = ''
    for var in ('ASAN_OPTIONS', 'UBSAN_OPTIONS', 'TSAN_OPTIONS'):
        for part in os.environ.get(var, '').split(':'):
            if part.startswith('log_path='):
                try:
                    with open(part[len('log_path='):] + '.%d' % pid, errors='replace') as f:
                        txt += f.read(20000)
                except OSError:
                    pass
    return txt


def scenario(st, seed, rep):
    import gc
    ffi, lib = st['ffi'], st['lib']
    rnd = random.Random(seed)
    nwaves = rnd.choice([2, 3, 4, 5])
    use_ep = rnd.random() < 0.4
    npy = rnd.choice([0, 1, 2])
    # nested callbacks made from inside the callback of a foreign thread:
    # 'c' = through a cffi C call (GIL released and re-acquired), 'held' = through
    # a ctypes PYFUNCTYPE pointer (GIL held, thread state already current)
    nest = rnd.choice(['', '', 'c', 'held', 'both'])
    # (no fork in the TSan build: TSan does not support new threads after a multi-threaded fork)
    do_fork = rnd.random() < 0.3 and not os.environ.get('VERIF_C36_NOFORK') and \
        'TSAN_OPTIONS' not in os.environ
    log = []
    lock = threading.Lock()
    tls = threading.local()
    inner_seen = []

    def inner_fn(x):
        inner_seen.append(x)
        tls.last_inner = (threading.get_ident(), getattr(tls, 'n', None), x)
        return x + 7
    inner = ffi.callback('int(int)', inner_fn)
    inner_held = None
    if nest in ('held', 'both'):
        import ctypes
        inner_held = ctypes.PYFUNCTYPE(ctypes.c_int, ctypes.c_int)(
            int(ffi.cast('intptr_t', inner)))
    nest_bad = []

    def record(wave, tid, idx):
        ident = threading.get_ident()
        n = getattr(tls, 'n', None)
        owner = getattr(tls, 'owner', None)
        if n is None:
            tls.n = 0
            tls.owner = (wave, tid)
            n = 0
        else:
            tls.n = n + 1
            n = n + 1
        if nest and (idx + tid) % 3 != 1:
            if nest in ('c', 'both'):
                tls.last_inner = None
                lib.call_cb_then_errno(inner, idx)
                if tls.last_inner != (ident, n, idx):
                    nest_bad.append('nested callback (through C) ran with another thread '
                                    'state: it left %r, outer expects %r' %
                                    (tls.last_inner, (ident, n, idx)))
            if inner_held is not None:
                tls.last_inner = None
                if inner_held(idx + 1) != idx + 8:
                    nest_bad.append('GIL-held nested callback returned a wrong value')
                if tls.last_inner != (ident, n, idx + 1):
                    nest_bad.append('nested callback (GIL held) ran with another thread '
                                    'state: it left %r, outer expects %r' %
                                    (tls.last_inner, (ident, n, idx + 1)))
        with lock:
            log.append((wave, tid, idx, ident, n, owner))
        return 0
    cb = ffi.callback('int(int, int, int)', record)
    if use_ep:
        ffi.def_extern(name='ep_thread')(record)
    stop = [False]

    def pywork(k):
        r = random.Random(seed + k)
        keep = []
        while not stop[0]:
            a = r.random()
            if a < 0.2:
                gc.collect()
            elif a < 0.6:
                keep.append(ffi.callback('int(int)', lambda x: x))
                if len(keep) > 50:
                    del keep[:25]
            else:
                lib.add_touch(3)
            time.sleep(0)
    pys = [threading.Thread(target=pywork, args=(k,)) for k in range(npy)]
    for p in pys:
        p.start()
    plan = []
    rc_total = 0

    def wave(w):
        n = rnd.choice([1, 2, 3, 6, 12])
        calls = [rnd.choice([0, 1, 2, 5, 20, 50]) for _ in range(n)]
        sleeps = [rnd.choice([0, 0, 20, 200]) for _ in range(n)]
        delays = [rnd.choice([0, 0, 100, 1000]) for _ in range(n)]
        plan.append((n, calls))
        return lib.run_wave(w, n, ffi.new('int[]', calls), ffi.new('int[]', sleeps),
                            ffi.new('int[]', delays), cb, 1 if use_ep else 0)
    for w in range(nwaves):
        rc_total += wave(w)
        if rnd.random() < 0.5:
            gc.collect()
    stop[0] = True
    for p in pys:
        p.join(60)
    fork_info = None
    if do_fork and not any(p.is_alive() for p in pys):
        # exited foreign threads are now pending in cffi's zombie list; fork() makes
        # CPython clear every other thread state in the child, then *new* foreign
        # threads call back in the child (and afterwards in the parent)
        nchild = rnd.choice([1, 2, 3])
        sys.stdout.flush()
        sys.stderr.flush()
        rfd, wfd = os.pipe()
        pid = os.fork()
        if pid == 0:
            try:
                import signal
                signal.signal(signal.SIGALRM, signal.SIG_DFL)
                signal.alarm(240)          # a hung child must not outlive the scenario
                os.close(rfd)
                del log[:]
                base = len(plan)
                crc = 0
                for w in range(base, base + nchild):
                    crc += wave(w)
                bad = check(plan[base:], [(w_ - base, t_, i_, id_, n_, o_ and (o_[0] - base, o_[1]))
                                          for (w_, t_, i_, id_, n_, o_) in log])
                os.write(wfd, json.dumps({'rc': crc, 'bad': bad[:4], 'events': len(log),
                                          'nest_bad': nest_bad[:2]}).encode())
            finally:
                os._exit(0)
        os.close(wfd)
        import select, signal
        data = b''
        deadline = time.time() + 300
        while True:
            left = deadline - time.time()
            if left <= 0 or not select.select([rfd], [], [], left)[0]:
                try:
                    os.kill(pid, signal.SIGKILL)     # watchdog; reported as 'killed by signal'
                except OSError:
                    pass
                break
            chunk = os.read(rfd, 65536)
            if not chunk:
                break
            data += chunk
        os.close(rfd)
        _, status = os.waitpid(pid, 0)
        fork_info = {'status': status, 'data': data.decode(errors='replace'),
                     'san': _san_log_of(pid), 'zombies_pending': plan[-1][0], 'waves': nchild}
        # the parent goes on too
        w = len(plan)
        rc_total += wave(w)
    return plan, log, use_ep, npy, rc_total, nest, nest_bad, fork_info, len(inner_seen)


def check(plan, log):
    bad = []
    per = {}
    for wave, tid, idx, ident, n, owner in log:
        per.setdefault((wave, tid), []).append((idx, ident, n, owner))
    for w, (n, calls) in enumerate(plan):
        for t in range(n):
            evs = per.get((w, t), [])
            if len(evs) != calls[t]:
                bad.append(('callback-count', 'wave %d thread %d: %d scripted calls, %d events' %
                            (w, t, calls[t], len(evs))))
                continue
            idents = set(e[1] for e in evs)
            if len(idents) > 1:
                bad.append(('thread-ident-changed', 'wave %d thread %d saw %d different '
                            'threading.get_ident() values' % (w, t, len(idents))))
            for k, (idx, ident, cnt, owner) in enumerate(evs):
                if idx != k:
                    bad.append(('callback-order', 'wave %d thread %d: event %d has index %d' %
                                (w, t, k, idx)))
                    break
                if cnt != k:
                    if owner is not None and owner != (w, t):
                        bad.append(('thread-local-of-another-thread-visible', 'wave %d thread %d '
                                    'call %d sees the thread-local data of thread %r (counter %d)'
                                    % (w, t, k, owner, cnt)))
                    else:
                        bad.append(('thread-local-not-persistent', 'wave %d thread %d call %d: '
                                    'thread-local counter is %d' % (w, t, k, cnt)))
                    break
                if owner is not None and owner != (w, t):
                    bad.append(('thread-local-of-another-thread-visible', 'wave %d thread %d sees '
                                'owner %r' % (w, t, owner)))
                    break
    return bad


def child_case(st, case):
    rep = core.ChildRep()
    for seed in case['seeds']:
        plan, log, use_ep, npy, rc, nest, nest_bad, fork_info, ninner = scenario(st, seed, rep)
        key = (tuple((n, tuple(c)) for n, c in plan), use_ep, npy, nest, bool(fork_info))
        nthreads = sum(n for n, c in plan)
        nontriv = sum(1 for n, c in plan for x in c if x >= 2) >= 2
        rep.case(key, nontrivial=nontriv,
                 sample={'waves': [[n, c] for n, c in plan], 'extern_python': use_ep,
                         'python_threads': npy, 'events': len(log), 'nested': nest,
                         'forked': bool(fork_info)})
        rep.stat('scenarios')
        rep.stat('foreign_threads', nthreads)
        rep.stat('callback_events', len(log))
        rep.stat('scenarios_extern_python' if use_ep else 'scenarios_ffi_callback')
        rep.stat('nested_callback_events', ninner)
        if nest:
            rep.stat('scenarios_nested_' + nest)
        if rc >= 1000:
            rep.bad('harness-pthread-create', 'pthread_create failed', seed)
        for mech, msg in check(plan, log)[:6]:
            rep.bad(mech, msg + ' | nested=%r | seed %d' % (nest, seed), seed)
        for msg in nest_bad[:2]:
            rep.bad('nested-callback-thread-state', msg + ' | nested=%r | seed %d' % (nest, seed),
                    seed)
        if fork_info:
            rep.stat('scenarios_with_fork')
            st_ = fork_info['status']
            where = ('child forked with %d exited foreign threads pending, then %d new waves'
                     % (fork_info['zombies_pending'], fork_info['waves']))
            if os.WIFSIGNALED(st_) and os.WTERMSIG(st_) in (14, 9) and not fork_info['san']:
                rep.stat('forked_child_watchdog_fired')     # wall-clock watchdog: no verdict
            elif os.WIFSIGNALED(st_):
                rep.bad('crash-in-forked-child', '%s: killed by signal %d | %s | seed %d' % (
                    where, os.WTERMSIG(st_), fork_info['san'][:600].replace('\n', ' / '), seed),
                    seed)
            else:
                try:
                    d = json.loads(fork_info['data'])
                except ValueError:
                    d = None
                if d is None:
                    rep.bad('crash-in-forked-child', '%s: exit status %d without a report | %s | '
                            'seed %d' % (where, os.WEXITSTATUS(st_),
                                         fork_info['san'][:600].replace('\n', ' / '), seed), seed)
                else:
                    rep.stat('callback_events_in_forked_children', d['events'])
                    for mech, msg in d['bad']:
                        rep.bad(mech + ':in-forked-child', msg + ' | seed %d' % seed, seed)
                    for msg in d['nest_bad']:
                        rep.bad('nested-callback-thread-state:in-forked-child', msg, seed)
                    if 'ERROR: AddressSanitizer' in fork_info['san']:
                        rep.bad('sanitizer-report-in-forked-child', where + ': ' +
                                fork_info['san'][:800].replace('\n', ' / ') + ' | seed %d' % seed,
                                seed)
    return rep.result()


def judge(ctx, setup, case, obs):
    core.absorb(ctx, case, obs, lambda seed: {'seeds': [seed]})


def replay(ctx, data):
    setup = build_mod(ctx)
    case = data['case']
    if case.get('shutdown'):
        shutdown_scenario(ctx, setup, case['seed'], case['variant'])
        return
    obs = core.run_cases(ctx, 'c36', setup, [case], variant='asan', nproc=1)
    print('observation:', str(obs[0])[:2000])
    if core.std_obs_check(ctx, case, obs[0], True, True):
        judge(ctx, setup, case, obs[0])
