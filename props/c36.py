"""C36 -- callbacks from non-Python threads get a valid, persistent thread state.

A pthread driver (compiled through cffi API mode, vlib/thrmod.py) starts waves
of 1-12 threads that Python did not create; each calls a cffi callback
(ffi.callback or extern "Python") k times with random sleeps and exits after a
scripted delay, while Python threads run GC, create callbacks and call into C.
Every callback invocation is logged (wave, thread, call index, Python thread
ident, a threading.local counter).  Checker: within one foreign thread the
local counter goes 0,1,2,... (state persists), a new thread never sees an
earlier thread's local data, every scripted call produced exactly one event,
and the process survives (ASan/UBSan deciding; TSan build as observation).

Audit extension: the waves are driven by a second helper module (_c36mod, defined
below) so that waves can overlap (a group of threads stays alive while later
waves start, call back and exit), threads can end with pthread_exit(), and a
thread can bracket some of its callbacks with its own PyGILState_Ensure()
(GIL held, or released again with PyEval_SaveThread()) -- i.e. the thread state
is provided by CPython, not by cffi, for part of the thread's life.  Callbacks
can raise (onerror handler), Python threads invoke callbacks through C as well.
New oracles: PyGILState_Check() is true inside every callback and the frame of
the callback is the one sys._current_frames() lists for this thread; an object
stored in the threading.local of a foreign thread is released, and the number of
PyThreadStates of the interpreter is back within bounds, once a thread started
after that thread's exit has called back (thread states of exited threads do
not leak to later threads); and foreign threads that are idle when the
interpreter finalizes and exit afterwards (plus exited threads still pending in
the zombie list at that moment) leave a clean process exit (separate
subprocesses, ASan).
"""
import os, sys, time, threading, random, subprocess, json
from vlib import core, modbuild, thrmod, build

RULE = ("case = one scenario: 2-5 waves of 1-12 foreign threads x 0-50 callback calls, random "
        "usleep between calls and before thread exit, callback kind ffi.callback or extern "
        "\"Python\", 0-2 Python threads doing gc.collect()/callback creation/C calls meanwhile, "
        "optionally nested cffi callbacks made from inside the callback (through a C call = GIL "
        "released, or through a ctypes PYFUNCTYPE pointer = GIL held), optionally os.fork() "
        "while exited foreign threads are still pending in the zombie list followed by new "
        "foreign threads in the child and in the parent; waves optionally overlap (join deferred "
        "until after the next wave), threads end by return or pthread_exit(), optionally bracket "
        "calls [a,b) with their own PyGILState_Ensure (GIL held or released by PyEval_SaveThread), "
        "optionally make one more callback from a pthread key destructor while exiting, "
        "callbacks optionally raise into an onerror handler, Python threads optionally invoke "
        "callbacks through C; plus late-exit subprocesses: foreign threads idle at Py_Finalize "
        "that exit afterwards, with exited threads pending as zombies; distinct = "
        "(wave sizes, calls per thread, thread modes, overlap, callback kind, nesting mode, fork, "
        "raising); non-trivial = >= 2 foreign threads with >= 2 calls each")
ASSUMPTIONS = ["TSan reports are observations only (the unlocked fast-path read of cffi_zombie_head.zombie_next is a known C11 race that does not affect the property)",
               "the thread-state checks are behavioural: threading.get_ident() stable per foreign thread, threading.local data persisting across calls of one thread and fresh for a new thread, PyGILState_Check() true, sys._current_frames()[get_ident()] is the callback's frame",
               "a thread that obtained its thread state from its own PyGILState_Ensure() before its first cffi callback loses it (CPython deletes it) at its own PyGILState_Release(): the thread-local counter may restart exactly there",
               "leak oracle: cffi reaps exited threads lazily, when a thread without a thread state makes its first callback; demanded only after such a callback by a thread that was started after the exited thread had been joined",
               "a callback made from a pthread key destructor (thread mode 4) may legitimately run on a fresh thread state: glibc clears the slot of CPython's gilstate key before it calls later destructors; persistence is not demanded for that one call",
               "late-exit scenario: the foreign threads make no callback after their last scripted one; they only exit (TLS destructor) after Py_Finalize, released by a libc atexit handler"]
SAN_DECIDES = True


C36_CDEF = r"""
typedef int (*thr36_cb_t)(int wave, int tid, int idx);
extern "Python" int ep36(int wave, int tid, int idx);
int grp_start(int wave, int n, int *ncalls, int *sleep_us, int *exit_delay_us, int *mode,
              int *a, int *b, thr36_cb_t cb, int use_extern_python);
int grp_join(int handle);
int late_start(int n, int *ncalls, int *exit_delay_us, thr36_cb_t cb, int use_extern_python);
int late_ready_count(void);
int call_cb3(thr36_cb_t cb, int wave, int tid, int idx);
"""

# thread modes: 0 return from the start routine, 1 pthread_exit(), 2 own
# PyGILState_Ensure() around calls [a,b) with the GIL held, 3 the same but the GIL
# released again by PyEval_SaveThread() (thread state exists, is not current), 4 one more
# callback (idx == ncalls) from a pthread key destructor while the thread exits; the key is
# younger than cffi's, so this runs after cffi_thread_shutdown (and, with glibc, after the
# slot of CPython's own gilstate key has been cleared: the thread gets a second thread state)
C36_SOURCE = r"""
#include <pthread.h>
#include <unistd.h>
#include <stdlib.h>
#include <string.h>

typedef int (*thr36_cb_t)(int wave, int tid, int idx);
static int ep36(int wave, int tid, int idx);

struct thr36 {
    pthread_t th; int wave, tid, ncalls, sleep_us, exit_delay_us, mode, a, b, created;
    thr36_cb_t cb;
};
struct grp36 { int n; struct thr36 *ts; };
#define MAXGRP 256
static struct grp36 grps[MAXGRP];

int call_cb3(thr36_cb_t cb, int wave, int tid, int idx) { return cb(wave, tid, idx); }

static pthread_key_t key36;
static int key36_made;
static void key36_dtor(void *p)
{
    struct thr36 *t = (struct thr36 *)p;
    t->cb(t->wave, t->tid, t->ncalls);
}

static void run_calls(struct thr36 *t)
{
    int i, in_bracket = 0;
    PyGILState_STATE gs = PyGILState_UNLOCKED;
    PyThreadState *saved = NULL;
    for (i = 0; i < t->ncalls; i++) {
        if ((t->mode == 2 || t->mode == 3) && i == t->a && t->a < t->b) {
            gs = PyGILState_Ensure();
            in_bracket = 1;
            if (t->mode == 3)
                saved = PyEval_SaveThread();
        }
        t->cb(t->wave, t->tid, i);
        if (in_bracket && i == t->b - 1) {
            if (t->mode == 3)
                PyEval_RestoreThread(saved);
            PyGILState_Release(gs);
            in_bracket = 0;
        }
        if (t->sleep_us && !(in_bracket && t->mode == 2))
            usleep(t->sleep_us);
    }
    if (in_bracket) {
        if (t->mode == 3)
            PyEval_RestoreThread(saved);
        PyGILState_Release(gs);
    }
}

static void *thr36_main(void *arg)
{
    struct thr36 *t = (struct thr36 *)arg;
    if (t->mode == 4)
        pthread_setspecific(key36, t);
    run_calls(t);
    if (t->exit_delay_us)
        usleep(t->exit_delay_us);
    if (t->mode == 1)
        pthread_exit(NULL);
    return NULL;
}

int grp_start(int wave, int n, int *ncalls, int *sleep_us, int *exit_delay_us, int *mode,
              int *a, int *b, thr36_cb_t cb, int use_extern_python)
{
    int h, i;
    for (h = 0; h < MAXGRP; h++)
        if (grps[h].ts == NULL)
            break;
    if (h == MAXGRP)
        return -1;
    if (!key36_made) {
        if (pthread_key_create(&key36, key36_dtor) != 0)
            return -1;
        key36_made = 1;
    }
    grps[h].n = n;
    grps[h].ts = calloc(n ? n : 1, sizeof(struct thr36));
    for (i = 0; i < n; i++) {
        struct thr36 *t = &grps[h].ts[i];
        t->wave = wave; t->tid = i; t->ncalls = ncalls[i]; t->sleep_us = sleep_us[i];
        t->exit_delay_us = exit_delay_us[i]; t->mode = mode[i]; t->a = a[i]; t->b = b[i];
        t->cb = use_extern_python ? ep36 : cb;
        t->created = (pthread_create(&t->th, NULL, thr36_main, t) == 0);
    }
    return h;
}

int grp_join(int h)
{
    int i, bad = 0;
    if (h < 0 || h >= MAXGRP || grps[h].ts == NULL)
        return 1000000;
    for (i = 0; i < grps[h].n; i++) {
        if (grps[h].ts[i].created)
            pthread_join(grps[h].ts[i].th, NULL);
        else
            bad += 1000;
    }
    free(grps[h].ts);
    grps[h].ts = NULL;
    return bad;
}

/* threads that finish their calls, then stay idle until the process runs its
   libc atexit handlers (after Py_Finalize), and only then exit */
#define MAXLATE 16
static struct thr36 late_ts[MAXLATE];
static int late_n;
static volatile int late_go, late_ready;

static void *late_main(void *arg)
{
    struct thr36 *t = (struct thr36 *)arg;
    run_calls(t);
    __sync_fetch_and_add(&late_ready, 1);
    while (!late_go)
        usleep(200);
    if (t->exit_delay_us)
        usleep(t->exit_delay_us);
    return NULL;
}

static void late_atexit(void)
{
    int i;
    static const char msg[] = "c36-late-exit-done\n";
    late_go = 1;
    for (i = 0; i < late_n; i++)
        if (late_ts[i].created)
            pthread_join(late_ts[i].th, NULL);
    if (write(1, msg, sizeof(msg) - 1) < 0) { }
}

int late_start(int n, int *ncalls, int *exit_delay_us, thr36_cb_t cb, int use_extern_python)
{
    int i, bad = 0;
    if (late_n != 0 || n > MAXLATE)
        return -1;
    if (atexit(late_atexit) != 0)
        return -1;
    late_n = n;
    for (i = 0; i < n; i++) {
        struct thr36 *t = &late_ts[i];
        t->wave = 99; t->tid = i; t->ncalls = ncalls[i]; t->exit_delay_us = exit_delay_us[i];
        t->cb = use_extern_python ? ep36 : cb;
        t->created = (pthread_create(&t->th, NULL, late_main, t) == 0);
        if (!t->created)
            bad++;
    }
    return bad;
}
int late_ready_count(void) { return late_ready; }
"""


def build_mod(ctx):
    d = os.path.join(ctx.tmp, 'mod')
    spec36 = {'name': '_c36mod', 'kind': 'api', 'cdef': C36_CDEF, 'source': C36_SOURCE, 'dir': d,
              'kwds': {'libraries': ['pthread']}}
    allres = modbuild.build_modules(ctx, [thrmod.spec(d), spec36])
    for name in ('_thrmod', '_c36mod'):
        res = allres[name]
        if not res['ok']:
            raise core.Inconclusive('helper module %s build failed: %s%s' %
                                    (name, res['error'], res.get('log', '')))
    return {'dir': d}


def run(ctx):
    setup = build_mod(ctx)
    rng = ctx.rng('gen')
    n = ctx.scale(60, 1200)
    cases = [{'seeds': [rng.getrandbits(40) for _ in range(6)]} for _ in range(max(1, n // 6))]
    obs = core.run_cases(ctx, 'c36', setup, cases, variant='asan', nproc=2, timeout=3600)
    for c, o in zip(cases, obs):
        if core.std_obs_check(ctx, c, o, True, True):
            judge(ctx, setup, c, o)
    # TSan: observations
    tcases = [{'seeds': [rng.getrandbits(40) for _ in range(3)]} for _ in range(ctx.scale(3, 40))]
    tobs = core.run_cases(ctx, 'c36', setup, tcases, variant='tsan', nproc=2, timeout=3600)
    for c, o in zip(tcases, tobs):
        if core.std_obs_check(ctx, c, o, True, False):
            judge(ctx, setup, c, o)
            ctx.count('tsan_scenarios', len(c['seeds']))
    # foreign threads that are idle at Py_Finalize and exit afterwards
    import concurrent.futures as cf
    lseeds = [rng.getrandbits(30) for _ in range(ctx.scale(4, 60))]
    with cf.ThreadPoolExecutor(max_workers=2) as ex:
        lres = list(ex.map(lambda sd: late_exit_run(ctx, setup, sd), lseeds))
    for sd, res in zip(lseeds, lres):
        late_exit_judge(ctx, setup, sd, res)
    # Interpreter shutdown while detached foreign threads are still *calling back*
    # was tried and dropped: a callback entered after Py_Finalize is outside what
    # CPython supports (observed: SIGSEGV in 1 of 6 runs on the unchanged tree) and
    # outside the statement, which speaks about thread exits.  The scenario code is
    # kept for manual use (VERIF_C36_SHUTDOWN=1), as an observation only.
    if os.environ.get('VERIF_C36_SHUTDOWN'):
        for i in range(ctx.scale(6, 100)):
            shutdown_scenario(ctx, setup, rng.getrandbits(30), 'asan' if i % 2 == 0 else 'plain')


SHUTDOWN_SCRIPT = r'''
import sys, time, threading
sys.path.insert(0, %(dir)r)
import _thrmod
ffi, lib = _thrmod.ffi, _thrmod.lib
count = [0]
@ffi.callback('int(int, int, int)')
def cb(wave, tid, idx):
    count[0] += 1
    return 0
lib.start_detached(1, %(n)d, 100000, %(sl)d, cb)
time.sleep(%(wait)f)
print('calls-before-exit', count[0])
sys.stdout.flush()
%(exit)s
'''


def shutdown_scenario(ctx, setup, seed, variant):
    rnd = random.Random(seed)
    n = rnd.choice([1, 2, 4, 8])
    script = SHUTDOWN_SCRIPT % {'dir': setup['dir'], 'n': n, 'sl': rnd.choice([0, 50, 500]),
                                'wait': rnd.choice([0.02, 0.1, 0.3]),
                                'exit': rnd.choice(['', 'sys.exit(0)', 'import os; os._exit(0)'])}
    logbase = os.path.join(ctx.tmp, 'shut_%d.san' % seed)
    env = build.child_env(variant, logbase=logbase)
    try:
        p = subprocess.run(build.python_cmd(variant) + ['-c', script], env=env, cwd=ctx.tmp,
                           stdout=subprocess.PIPE, stderr=subprocess.PIPE, timeout=120)
    except subprocess.TimeoutExpired:
        ctx.inconclusive('shutdown scenario timed out (watchdog)')
        return
    out = p.stdout.decode(errors='replace')
    case = {'shutdown': True, 'seed': seed, 'variant': variant}
    ctx.case(('shutdown', n, script[-60:]), nontrivial=True,
             sample={'shutdown_threads': n, 'variant': variant, 'rc': p.returncode,
                     'stdout': out.strip()[:60]})
    ctx.count('shutdown_scenarios')
    san = ''
    for fn in os.listdir(ctx.tmp):
        if fn.startswith('shut_%d.san' % seed):
            with open(os.path.join(ctx.tmp, fn), errors='replace') as f:
                san += f.read()
    if san:
        ctx.sanitizer(san, case, deciding=True)
    if p.returncode != 0:
        ctx.violation('crash-at-interpreter-shutdown:rc=%s' % ('signal' if p.returncode < 0 else
                                                               'nonzero'),
                      'interpreter exit with %d detached foreign threads still calling back: '
                      'rc=%s stderr=%s' % (n, p.returncode, p.stderr.decode(errors='replace')[-800:]),
                      case)
    elif 'calls-before-exit' not in out:
        ctx.inconclusive('shutdown scenario printed nothing')


LATE_SCRIPT = r"""
import sys, time, threading, gc
sys.path.insert(0, %(dir)r)
import _c36mod
ffi, lib = _c36mod.ffi, _c36mod.lib
tls = threading.local()
count = [0]
bad = []
def record(wave, tid, idx):
    n = getattr(tls, 'n', -1) + 1
    tls.n = n
    if n != idx:
        bad.append((wave, tid, idx, n))
    count[0] += 1
    return 0
cb = ffi.callback('int(int, int, int)', record)
ffi.def_extern(name='ep36')(record)
def wave(w, calls):
    n = len(calls)
    z = ffi.new('int[]', n)
    h = lib.grp_start(w, n, ffi.new('int[]', calls), z, z, z, z, z, cb, %(ep)d)
    return lib.grp_join(h)
rc = 0
early, late, late_delays, early2 = %(early)r, %(late)r, %(late_delays)r, %(early2)r
if early:
    rc += wave(0, early)          # exited threads: pending zombies
rc += lib.late_start(len(late), ffi.new('int[]', late), ffi.new('int[]', late_delays), cb, %(ep)d)
deadline = time.time() + 100
while lib.late_ready_count() < len(late) and time.time() < deadline:
    time.sleep(0.002)
if early2:
    rc += wave(1, early2)         # reaps the first zombies, leaves new ones
if %(gc)d:
    gc.collect()
print('c36-ready', count[0], lib.late_ready_count(), rc, len(bad))
sys.stdout.flush()
%(exit)s
"""


def late_exit_run(ctx, setup, seed):
    """Foreign threads call back, then stay idle; the interpreter finalizes (clearing
    their thread states under cffi's feet); a libc atexit handler then lets them exit
    (cffi_thread_shutdown after Py_Finalize).  Exited threads are pending in the
    zombie list at Py_Finalize as well.  The process must exit cleanly."""
    rnd = random.Random(seed)
    early = [rnd.choice([0, 1, 2, 5]) for _ in range(rnd.choice([0, 1, 2, 5]))]
    late = [rnd.choice([0, 1, 1, 3, 10]) for _ in range(rnd.choice([1, 2, 4, 8]))]
    early2 = [rnd.choice([1, 2]) for _ in range(rnd.choice([0, 0, 1, 3]))]
    params = {'dir': setup['dir'], 'ep': rnd.choice([0, 0, 1]), 'early': early, 'late': late,
              'late_delays': [rnd.choice([0, 0, 200, 3000]) for _ in late], 'early2': early2,
              'gc': rnd.choice([0, 1]),
              'exit': rnd.choice(['', 'sys.exit(0)', 'raise SystemExit(0)'])}
    script = LATE_SCRIPT % params
    logbase = os.path.join(ctx.tmp, 'late_%d.san' % seed)
    env = build.child_env('asan', logbase=logbase)
    try:
        p = subprocess.run(build.python_cmd('asan') + ['-c', script], env=env, cwd=ctx.tmp,
                           stdout=subprocess.PIPE, stderr=subprocess.PIPE, timeout=300)
    except subprocess.TimeoutExpired:
        return None
    san = ''
    for fn in os.listdir(ctx.tmp):
        if fn.startswith('late_%d.san' % seed):
            with open(os.path.join(ctx.tmp, fn), errors='replace') as f:
                san += f.read()
    return {'rc': p.returncode, 'out': p.stdout.decode(errors='replace'),
            'err': p.stderr.decode(errors='replace'), 'san': san, 'early': early, 'late': late,
            'early2': early2, 'ep': params['ep'], 'exit': params['exit']}


def late_exit_scenario(ctx, setup, seed):
    late_exit_judge(ctx, setup, seed, late_exit_run(ctx, setup, seed))


def late_exit_judge(ctx, setup, seed, res):
    if res is None:
        ctx.inconclusive('late-exit scenario timed out (watchdog)')
        return
    out, err, san = res['out'], res['err'], res['san']
    early, late, early2 = res['early'], res['late'], res['early2']
    rc = res['rc']
    case = {'late_exit': True, 'seed': seed}
    ncalls = sum(early) + sum(late) + sum(early2)
    ctx.case(('late-exit', tuple(early), tuple(late), tuple(early2), res['ep'], res['exit']),
             nontrivial=sum(1 for x in late if x >= 1) >= 1,
             sample={'late_exit': True, 'zombies_at_finalize': early2 or early, 'idle_threads': late,
                     'rc': rc, 'stdout': out.strip()[:80]})
    ctx.count('late_exit_scenarios')
    ctx.count('late_exit_idle_threads', len(late))
    ctx.count('late_exit_zombies_at_finalize', sum(1 for x in (early2 or early) if x >= 1))
    ready = [l for l in out.splitlines() if l.startswith('c36-ready')]
    if not ready:
        if rc != 0 or san:
            if san:
                ctx.sanitizer(san, case, deciding=True)
            ctx.violation('crash-before-interpreter-exit:late-exit-scenario',
                          'late-exit script died before finalization: rc=%s stderr=%s' %
                          (rc, err[-800:]), case)
        else:
            ctx.inconclusive('late-exit scenario printed nothing')
        return
    f = ready[0].split()
    if int(f[3]) != 0 or int(f[2]) != len(late):
        ctx.inconclusive('late-exit scenario: harness could not start/observe its threads: ' +
                         ready[0])
        return
    if int(f[1]) != ncalls:
        ctx.violation('callback-count:late-exit-scenario', '%d scripted calls, %s events' %
                      (ncalls, f[1]), case)
    if int(f[4]) != 0:
        ctx.violation('thread-local-not-persistent:late-exit-scenario',
                      '%s callbacks saw a wrong thread-local counter' % f[4], case)
    if san:
        ctx.sanitizer(san, case, deciding=True)
    if rc != 0:
        ctx.violation('crash-at-thread-exit-after-finalize:rc=%s' %
                      ('signal' if rc < 0 else 'nonzero'),
                      'early=%r idle=%r early2=%r: %d idle foreign threads exited after Py_Finalize '
                      'with %d exited threads pending: rc=%s stderr=%s' %
                      (early, late, early2, len(late), len(early2 or early), rc,
                       err[-800:]), case)
    elif 'c36-late-exit-done' not in out:
        ctx.violation('crash-at-thread-exit-after-finalize:no-exit-marker',
                      'process ended with rc 0 but the atexit handler that joins the idle foreign '
                      'threads did not finish: stdout=%r stderr=%s' % (out[-200:], err[-600:]), case)


def child_setup(setup, wd):
    sys.path.insert(0, setup['dir'])
    import _thrmod, _c36mod
    return {'ffi': _thrmod.ffi, 'lib': _thrmod.lib, 'ffi36': _c36mod.ffi, 'lib36': _c36mod.lib}


def _san_log_of(pid):
    txt = ''
    for var in ('ASAN_OPTIONS', 'UBSAN_OPTIONS', 'TSAN_OPTIONS'):
        for part in os.environ.get(var, '').split(':'):
            if part.startswith('log_path='):
                try:
                    with open(part[len('log_path='):] + '.%d' % pid, errors='replace') as f:
                        txt += f.read(20000)
                except OSError:
                    pass
    return txt


class Token(object):
    """lives in the threading.local of one foreign thread"""
    __slots__ = ('__weakref__',)


_TS_API = []


def _tstate_api():
    if not _TS_API:
        import ctypes
        api = ctypes.pythonapi
        api.PyGILState_Check.restype = ctypes.c_int
        api.PyGILState_Check.argtypes = []
        api.PyInterpreterState_Get.restype = ctypes.c_void_p
        api.PyInterpreterState_Get.argtypes = []
        api.PyInterpreterState_ThreadHead.restype = ctypes.c_void_p
        api.PyInterpreterState_ThreadHead.argtypes = [ctypes.c_void_p]
        api.PyThreadState_Next.restype = ctypes.c_void_p
        api.PyThreadState_Next.argtypes = [ctypes.c_void_p]

        def count_tstates():
            # (ctypes.pythonapi keeps the GIL: no thread state is unlinked meanwhile)
            ts = api.PyInterpreterState_ThreadHead(api.PyInterpreterState_Get())
            k = 0
            while ts:
                k += 1
                ts = api.PyThreadState_Next(ts)
            return k
        _TS_API.append((api.PyGILState_Check, count_tstates))
    return _TS_API[0]


def _registers(calls, mode, a, b):
    """does this thread make a callback at a moment where it has no thread state
    (cffi then creates one, and reaps exited threads first)?"""
    if mode == 4:
        return True         # the destructor callback
    if calls < 1:
        return False
    if mode in (2, 3) and a == 0 and a < b and b >= calls:
        return False        # all its callbacks run inside its own PyGILState_Ensure()
    return True


def _reset_at(calls, mode, a, b):
    """call index at which CPython (not cffi) drops the thread state of this thread"""
    if mode in (2, 3) and a == 0 and a < b and b < calls:
        return b
    return None


def scenario(st, seed, rep):
    import gc, weakref
    ffi, lib = st['ffi'], st['lib']
    ffi36, lib36 = st['ffi36'], st['lib36']
    gil_check, count_tstates = _tstate_api()
    rnd = random.Random(seed)
    nwaves = rnd.choice([2, 3, 4, 5])
    use_ep = rnd.random() < 0.4
    npy = rnd.choice([0, 1, 2])
    # nested callbacks made from inside the callback of a foreign thread:
    # 'c' = through a cffi C call (GIL released and re-acquired), 'held' = through
    # a ctypes PYFUNCTYPE pointer (GIL held, thread state already current)
    nest = rnd.choice(['', '', 'c', 'held', 'both'])
    # (no fork in the TSan build: TSan does not support new threads after a multi-threaded fork)
    do_fork = rnd.random() < 0.3 and not os.environ.get('VERIF_C36_NOFORK') and \
        'TSAN_OPTIONS' not in os.environ
    raising = rnd.random() < 0.3          # some callbacks raise (into an onerror handler)
    overlap = rnd.random() < 0.45         # waves overlap: join deferred
    modes_on = rnd.random() < 0.5         # pthread_exit / own PyGILState_Ensure brackets
    pycalls = rnd.random() < 0.5          # Python threads invoke callbacks through C too
    log = []
    lock = threading.Lock()
    tls = threading.local()
    inner_seen = []
    tokens = {}
    state_bad = []
    nchecks = {'gil': 0, 'frame': 0, 'raised': 0, 'pycb': 0, 'leak': 0, 'leak_threads': 0,
               'count': 0}

    def inner_fn(x):
        inner_seen.append(x)
        tls.last_inner = (threading.get_ident(), getattr(tls, 'n', None), x)
        return x + 7
    inner = ffi.callback('int(int)', inner_fn)
    inner_held = None
    if nest in ('held', 'both'):
        import ctypes
        inner_held = ctypes.PYFUNCTYPE(ctypes.c_int, ctypes.c_int)(
            int(ffi.cast('intptr_t', inner)))
    nest_bad = []

    def record(wave, tid, idx):
        ident = threading.get_ident()
        n = getattr(tls, 'n', None)
        owner = getattr(tls, 'owner', None)
        if n is None:
            tls.n = 0
            tls.owner = (wave, tid)
            tls.token = Token()
            n = 0
            with lock:
                tokens.setdefault((wave, tid), []).append(weakref.ref(tls.token))
        else:
            tls.n = n + 1
            n = n + 1
        # the thread state in use is the one bound to this OS thread
        nchecks['gil'] += 1
        if gil_check() != 1:
            state_bad.append(('callback-without-valid-gilstate', 'wave %d thread %d call %d: '
                              'PyGILState_Check() is false inside the callback' %
                              (wave, tid, idx)))
        if idx == 0 or idx % 7 == 3:
            nchecks['frame'] += 1
            frames = sys._current_frames()
            mine = frames.get(ident)
            del frames
            if mine is not sys._getframe():
                state_bad.append(('callback-on-thread-state-of-another-thread', 'wave %d thread '
                                  '%d call %d: sys._current_frames()[get_ident()] is not the '
                                  'callback frame' % (wave, tid, idx)))
            del mine
        if nest and (idx + tid) % 3 != 1:
            if nest in ('c', 'both'):
                tls.last_inner = None
                lib.call_cb_then_errno(inner, idx)
                if tls.last_inner != (ident, n, idx):
                    nest_bad.append('nested callback (through C) ran with another thread '
                                    'state: it left %r, outer expects %r' %
                                    (tls.last_inner, (ident, n, idx)))
            if inner_held is not None:
                tls.last_inner = None
                if inner_held(idx + 1) != idx + 8:
                    nest_bad.append('GIL-held nested callback returned a wrong value')
                if tls.last_inner != (ident, n, idx + 1):
                    nest_bad.append('nested callback (GIL held) ran with another thread '
                                    'state: it left %r, outer expects %r' %
                                    (tls.last_inner, (ident, n, idx + 1)))
        with lock:
            log.append((wave, tid, idx, ident, n, owner))
        if raising and idx % 4 == 2:
            tls.raised_at = (ident, n)
            raise ValueError('scripted')
        return 0

    def onerr(exc, val, tb):
        nchecks['raised'] += 1
        got = getattr(tls, 'raised_at', None)
        if got != (threading.get_ident(), getattr(tls, 'n', None)):
            state_bad.append(('onerror-handler-on-another-thread-state', 'the onerror handler of a '
                              'raising callback sees %r, the callback left %r' %
                              ((threading.get_ident(), getattr(tls, 'n', None)), got)))
        return None
    cb = ffi36.callback('thr36_cb_t', record, onerror=onerr)
    if use_ep:
        ffi36.def_extern(name='ep36', onerror=onerr)(record)
    stop = [False]

    def pyrecord(wave, tid, idx):
        nchecks['pycb'] += 1
        return idx + 1
    pycb = ffi36.callback('thr36_cb_t', pyrecord)

    def pywork(k):
        r = random.Random(seed + k)
        keep = []
        while not stop[0]:
            a = r.random()
            if a < 0.2:
                gc.collect()
            elif a < 0.6:
                keep.append(ffi.callback('int(int)', lambda x: x))
                if len(keep) > 50:
                    del keep[:25]
            elif a < 0.8 and pycalls:
                lib36.call_cb3(pycb, -1, k, 5)
            else:
                lib.add_touch(3)
            time.sleep(0)
    pys = [threading.Thread(target=pywork, args=(k,)) for k in range(npy)]
    for p in pys:
        p.start()
    plan = []
    pre = {}
    finished = []
    open_groups = []

    def arr(v):
        return ffi36.new('int[]', v)

    def start(w, longlived=False):
        n = rnd.choice([1, 2, 3, 6, 12])
        calls = [rnd.choice([0, 1, 2, 5, 20, 50]) for _ in range(n)]
        sleeps = [rnd.choice([0, 0, 20, 200]) for _ in range(n)]
        delays = [rnd.choice([0, 0, 100, 1000]) for _ in range(n)]
        if longlived:
            for t in range(0, n, 2):
                calls[t] = rnd.choice([5, 20, 50])
                sleeps[t] = rnd.choice([200, 1000])
        modes, a, b = [0] * n, [0] * n, [0] * n
        if modes_on:
            for t in range(n):
                modes[t] = rnd.choice([0, 0, 1, 2, 3, 4])
                if modes[t] in (2, 3):
                    a[t] = rnd.choice([0, 0, 1, 2])
                    b[t] = a[t] + rnd.choice([1, 2, 5, 100])
        assert w == len(plan)
        plan.append((n, calls, modes, a, b))
        pre[w] = list(finished)
        return lib36.grp_start(w, n, arr(calls), arr(sleeps), arr(delays), arr(modes), arr(a),
                               arr(b), cb, 1 if use_ep else 0)

    def join(w, h):
        rc = lib36.grp_join(h) if h >= 0 else 1000
        finished.append(w)
        n, calls, modes, a, b = plan[w]
        if rc == 0 and any(_registers(calls[t], modes[t], a[t], b[t]) for t in range(n)):
            # a thread started after the waves in pre[w] were joined has obtained a new
            # thread state: the thread states of those exited threads must be gone
            nchecks['leak'] += 1
            for v in pre[w]:
                for t in range(plan[v][0]):
                    for ref in tokens.get((v, t), []):
                        nchecks['leak_threads'] += 1
                        if ref() is not None:
                            state_bad.append((
                                'thread-local-data-of-exited-thread-not-released',
                                'thread %d of wave %d exited (joined) before wave %d started; '
                                'wave %d made first callbacks from new threads and is over, but '
                                'the object stored in the exited thread\'s threading.local is '
                                'still alive' % (t, v, w, w)))
            if len(finished) == len(plan):     # no group is running now
                nchecks['count'] += 1
                bound = 1 + npy + sum((2 if plan[v][2][t] == 4 else 1 if plan[v][1][t] >= 1 else 0)
                                      for v in range(len(plan)) if v not in pre[w]
                                      for t in range(plan[v][0]))
                cnt = count_tstates()
                if cnt > bound:
                    state_bad.append((
                        'thread-states-of-exited-threads-accumulate',
                        'after wave %d: the interpreter has %d thread states; at most %d can '
                        'belong to live threads or to threads that exited after wave %d started '
                        '(waves %r were joined before that)' % (w, cnt, bound, w, pre[w])))
        return rc

    def wave(w):
        return join(w, start(w))
    rc_total = 0
    for w in range(nwaves):
        if overlap and len(open_groups) < 2 and rnd.random() < 0.6:
            open_groups.append((w, start(w, longlived=True)))
        else:
            rc_total += wave(w)
            if open_groups and rnd.random() < 0.6:
                rc_total += join(*open_groups.pop(0))
        if rnd.random() < 0.5:
            gc.collect()
    while open_groups:
        rc_total += join(*open_groups.pop(rnd.randrange(len(open_groups))))
    stop[0] = True
    for p in pys:
        p.join(60)
    fork_info = None
    if do_fork and not any(p.is_alive() for p in pys):
        # exited foreign threads are now pending in cffi's zombie list; fork() makes
        # CPython clear every other thread state in the child, then *new* foreign
        # threads call back in the child (and afterwards in the parent)
        nchild = rnd.choice([1, 2, 3])
        sys.stdout.flush()
        sys.stderr.flush()
        rfd, wfd = os.pipe()
        time.sleep(0.05)       # let joined threads finish their OS-level teardown (a thread
        #                        that still holds an allocator lock at fork() hangs the child)
        pid = os.fork()
        if pid == 0:
            try:
                import signal
                signal.signal(signal.SIGALRM, signal.SIG_DFL)
                signal.alarm(240)          # a hung child must not outlive the scenario
                os.close(rfd)
                del log[:]
                del state_bad[:]
                del nest_bad[:]
                base = len(plan)
                crc = 0
                for w in range(base, base + nchild):
                    crc += wave(w)
                bad = check(plan, log, base)
                os.write(wfd, json.dumps({'rc': crc, 'bad': bad[:4], 'events': len(log),
                                          'nest_bad': nest_bad[:2],
                                          'state_bad': state_bad[:4]}).encode())
            finally:
                os._exit(0)
        os.close(wfd)
        import select, signal
        data = b''
        deadline = time.time() + 300
        while True:
            left = deadline - time.time()
            if left <= 0 or not select.select([rfd], [], [], left)[0]:
                try:
                    os.kill(pid, signal.SIGKILL)     # watchdog; reported as 'killed by signal'
                except OSError:
                    pass
                break
            chunk = os.read(rfd, 65536)
            if not chunk:
                break
            data += chunk
        os.close(rfd)
        _, status = os.waitpid(pid, 0)
        fork_info = {'status': status, 'data': data.decode(errors='replace'),
                     'san': _san_log_of(pid), 'zombies_pending': plan[-1][0], 'waves': nchild}
        # the parent goes on too
        w = len(plan)
        rc_total += wave(w)
    return {'plan': plan, 'log': log, 'use_ep': use_ep, 'npy': npy, 'rc': rc_total, 'nest': nest,
            'nest_bad': nest_bad, 'fork_info': fork_info, 'ninner': len(inner_seen),
            'state_bad': state_bad, 'nchecks': nchecks, 'raising': raising, 'overlap': overlap,
            'modes_on': modes_on, 'pycalls': pycalls and npy > 0}


def check(plan, log, first=0):
    bad = []
    per = {}
    for wave, tid, idx, ident, n, owner in log:
        per.setdefault((wave, tid), []).append((idx, ident, n, owner))
    for w, (n, calls, modes, a, b) in enumerate(plan):
        if w < first:
            continue
        for t in range(n):
            evs = per.get((w, t), [])
            nexp = calls[t] + (1 if modes[t] == 4 else 0)
            if len(evs) != nexp:
                bad.append(('callback-count', 'wave %d thread %d (mode %d): %d scripted calls, %d '
                            'events' % (w, t, modes[t], nexp, len(evs))))
                continue
            idents = set(e[1] for e in evs)
            if len(idents) > 1:
                bad.append(('thread-ident-changed', 'wave %d thread %d saw %d different '
                            'threading.get_ident() values' % (w, t, len(idents))))
            # a thread state made by the thread's own PyGILState_Ensure() before its first
            # cffi callback is deleted by CPython at the matching PyGILState_Release()
            reset = _reset_at(calls[t], modes[t], a[t], b[t])
            for k, (idx, ident, cnt, owner) in enumerate(evs):
                if idx != k:
                    bad.append(('callback-order', 'wave %d thread %d: event %d has index %d' %
                                (w, t, k, idx)))
                    break
                want = k if reset is None or k < reset else k - reset
                if modes[t] == 4 and k == calls[t] and cnt == 0 and owner is None:
                    # callback from a key destructor: the C library has already cleared the
                    # slot in which CPython remembers this thread's state; a fresh thread
                    # state is all that can be had at this point
                    continue
                if cnt != want:
                    if owner is not None and owner != (w, t):
                        bad.append(('thread-local-of-another-thread-visible', 'wave %d thread %d '
                                    'call %d sees the thread-local data of thread %r (counter %d)'
                                    % (w, t, k, owner, cnt)))
                    else:
                        bad.append(('thread-local-not-persistent', 'wave %d thread %d (mode %d, '
                                    'own PyGILState bracket [%d,%d)) call %d: thread-local '
                                    'counter is %d, expected %d' %
                                    (w, t, modes[t], a[t], b[t], k, cnt, want)))
                    break
                if owner is not None and owner != (w, t):
                    bad.append(('thread-local-of-another-thread-visible', 'wave %d thread %d sees '
                                'owner %r' % (w, t, owner)))
                    break
    return bad


def child_case(st, case):
    rep = core.ChildRep()
    for seed in case['seeds']:
        r = scenario(st, seed, rep)
        plan, log, use_ep, npy, rc, nest = (r['plan'], r['log'], r['use_ep'], r['npy'], r['rc'],
                                            r['nest'])
        nest_bad, fork_info, ninner = r['nest_bad'], r['fork_info'], r['ninner']
        key = (tuple((p[0], tuple(p[1]), tuple(p[2])) for p in plan), use_ep, npy, nest,
               bool(fork_info), r['raising'], r['overlap'])
        nthreads = sum(p[0] for p in plan)
        nontriv = sum(1 for p in plan for x in p[1] if x >= 2) >= 2
        rep.case(key, nontrivial=nontriv,
                 sample={'waves': [[p[0], p[1], p[2]] for p in plan], 'extern_python': use_ep,
                         'python_threads': npy, 'events': len(log), 'nested': nest,
                         'forked': bool(fork_info), 'raising': r['raising'],
                         'overlapping': r['overlap']})
        rep.stat('scenarios')
        rep.stat('foreign_threads', nthreads)
        rep.stat('callback_events', len(log))
        rep.stat('scenarios_extern_python' if use_ep else 'scenarios_ffi_callback')
        rep.stat('nested_callback_events', ninner)
        if nest:
            rep.stat('scenarios_nested_' + nest)
        if r['overlap']:
            rep.stat('scenarios_overlapping_waves')
        if r['raising']:
            rep.stat('scenarios_raising_callbacks')
        if r['pycalls']:
            rep.stat('scenarios_python_threads_calling_back')
        for p in plan:
            for t in range(p[0]):
                if p[2][t]:
                    rep.stat('threads_mode_%s' % {1: 'pthread_exit', 2: 'own_gilstate_held',
                                                  3: 'own_gilstate_saved',
                                                  4: 'callback_from_key_destructor'}[p[2][t]])
                if _reset_at(p[1][t], p[2][t], p[3][t], p[4][t]) is not None:
                    rep.stat('threads_with_cpython_owned_state_dropped_midway')
        nc = r['nchecks']
        rep.stat('gilstate_checks', nc['gil'])
        rep.stat('frame_checks', nc['frame'])
        rep.stat('callback_exceptions_handled', nc['raised'])
        rep.stat('python_thread_callback_events', nc['pycb'])
        rep.stat('leak_checks', nc['leak'])
        rep.stat('leak_checked_exited_thread_states', nc['leak_threads'])
        rep.stat('tstate_count_checks', nc['count'])
        if rc >= 1000:
            rep.bad('harness-pthread-create', 'pthread_create failed', seed)
        descr = ' | nested=%r raising=%r overlap=%r | seed %d' % (nest, r['raising'],
                                                                   r['overlap'], seed)
        for mech, msg in check(plan, log)[:6]:
            rep.bad(mech, msg + descr, seed)
        for msg in nest_bad[:2]:
            rep.bad('nested-callback-thread-state', msg + descr, seed)
        seen = set()
        for mech, msg in r['state_bad']:
            if mech not in seen:
                seen.add(mech)
                rep.bad(mech, msg + descr, seed)
        if fork_info:
            rep.stat('scenarios_with_fork')
            st_ = fork_info['status']
            where = ('child forked with %d exited foreign threads pending, then %d new waves'
                     % (fork_info['zombies_pending'], fork_info['waves']))
            if os.WIFSIGNALED(st_) and os.WTERMSIG(st_) in (14, 9) and not fork_info['san']:
                rep.stat('forked_child_watchdog_fired')     # wall-clock watchdog: no verdict
            elif os.WIFSIGNALED(st_):
                rep.bad('crash-in-forked-child', '%s: killed by signal %d | %s | seed %d' % (
                    where, os.WTERMSIG(st_), fork_info['san'][:600].replace('\n', ' / '), seed),
                    seed)
            else:
                try:
                    d = json.loads(fork_info['data'])
                except ValueError:
                    d = None
                if d is None:
                    rep.bad('crash-in-forked-child', '%s: exit status %d without a report | %s | '
                            'seed %d' % (where, os.WEXITSTATUS(st_),
                                         fork_info['san'][:600].replace('\n', ' / '), seed), seed)
                else:
                    rep.stat('callback_events_in_forked_children', d['events'])
                    for mech, msg in d['bad']:
                        rep.bad(mech + ':in-forked-child', msg + ' | seed %d' % seed, seed)
                    for msg in d['nest_bad']:
                        rep.bad('nested-callback-thread-state:in-forked-child', msg, seed)
                    for mech, msg in d.get('state_bad', []):
                        rep.bad(mech + ':in-forked-child', msg + ' | seed %d' % seed, seed)
                    if 'ERROR: AddressSanitizer' in fork_info['san']:
                        rep.bad('sanitizer-report-in-forked-child', where + ': ' +
                                fork_info['san'][:800].replace('\n', ' / ') + ' | seed %d' % seed,
                                seed)
    return rep.result()


def judge(ctx, setup, case, obs):
    core.absorb(ctx, case, obs, lambda seed: {'seeds': [seed]})


def replay(ctx, data):
    setup = build_mod(ctx)
    case = data['case']
    if case.get('shutdown'):
        shutdown_scenario(ctx, setup, case['seed'], case['variant'])
        return
    if case.get('late_exit'):
        late_exit_scenario(ctx, setup, case['seed'])
        return
    obs = core.run_cases(ctx, 'c36', setup, [case], variant='asan', nproc=1)
    print('observation:', str(obs[0])[:2000])
    if core.std_obs_check(ctx, case, obs[0], True, True):
        judge(ctx, setup, case, obs[0])
