"""C30 -- declaration and type-string errors are reported as cffi errors.

Fuzzing with the exception class as the monitor.  Python side (plain build):
FFI().cdef(text) / FFI().typeof(text); anything but CDefError / FFIError /
NotImplementedError / VerificationError / VerificationMissing that escapes is a
violation keyed by (exception type, innermost raising function inside cffi).
Besides single calls on a fresh FFI: cdef() options, and histories of calls on
one FFI object (state left by failed calls, types completed by the backend and
re-completed by a later cdef, cached type strings), every call judged.
C side (ASan/UBSan build): typeof(text) on _cffi_backend.FFI() and on imported
emit_python_code() modules with populated contexts (one with functions and
variables); sanitizer reports and crashes decide, attributed to the single
input that produced them; the error location shown in ffi.error messages must
lie inside the string.  Optional
third part: a libFuzzer target around src/c/parse_c_type.c.
"""
import os, sys, re, json, random, struct, subprocess, functools
from vlib import core, build, gen_cdef as GC

RULE = ("input = (api, text): grammar-generated declarations / type strings (typedefs, aggregates "
        "with bitfields and '...', enums, constants with arithmetic incl. /0 %0 <<neg, #define, "
        "extern \"Python\", __stdcall, [...], line directives), their token-level mutants "
        "(delete/duplicate/swap/replace/insert from a dictionary of cffi trivia and internal "
        "markers), byte-level mutants (NUL, controls, non-ASCII, long tokens, bounded nesting, "
        "truncation), re-declarations of names already declared (verbatim, other definition, other "
        "kind), forward declarations, type strings that leave the 'void __dummy(...)' wrapper "
        "('T); D ('), names of functions/variables where a constant is expected ; Python side: "
        "fresh FFI per input, with or without a prelude cdef, cdef() with override/packed/pack "
        "and embedding_api(); histories of 2..10 cdef()/typeof() calls on ONE FFI (after none / "
        "a prelude cdef / ffi.include() of the prelude: failed calls in between, type strings "
        "using the names declared so far so that the backend completes them, the same string "
        "again, opaque type used and then completed, aggregate with runs of bit fields defined under a layout option and then built, options per call), each call judged; C side: "
        "typeof on an empty _cffi_backend.FFI() and on out-of-line modules built from generated "
        "contexts, one of them with functions and global variables (type strings use the "
        "context's typedef/struct/enum/constant/function/variable names; the same string again "
        "on the same object; inputs reaching the 1200-opcode limit and the realize recursion "
        "limit, lone surrogates), the '^' of every parser error message must lie inside the "
        "string; "
        "libFuzzer target on parse_c_type.c with empty/populated contexts and output arrays of "
        "1..1200 entries (counted in evaluations as executed units); distinct = (api/target kind, "
        "text); non-trivial = non-empty text")
ASSUMPTIONS = ["MemoryError (address space limited to 1 GB), RecursionError and the 20 s watchdog kill are "
               "resource blow-ups: counted (resource_*), neither success nor violation",
               "nesting depth of generated inputs is bounded (<= 60 levels on the Python side) so that "
               "RecursionError is not the common outcome",
               "C side: OverflowError is not in the allowed set of the statement (ffi.error, TypeError, "
               "ValueError, NotImplementedError, RuntimeError 'recursion too deep') and is reported",
               "UBSan's null-member-access report in search_sorted with an empty table is filtered by "
               "core (DESIGN 2.2)"]

CFFI_DIR = os.path.join(build.REPO, 'src', 'cffi') + os.sep
PY_ALLOWED = ('CDefError', 'FFIError', 'NotImplementedError', 'VerificationError',
              'VerificationMissing')
PRELUDE = ("typedef struct foo_s { int a; char b[8]; struct foo_s *next; } foo_t;\n"
           "typedef union { int i; float f; } u_t;\nenum e1 { A1, B1 = 5, C1 };\n#define K1 4\n"
           "static const int K2 = 7;\ntypedef int (*fn_t)(int, char *);\nstruct opaque_s;\n"
           "typedef struct { int x; ...; } partial_t;\ntypedef int... anyint_t;\n"
           "typedef ... opaque_t;\nint pf1(int, char *);\nextern long pv1;\n")

# ---------------------------------------------------------------------------
# generators (pure Python; used by parent and children)

PRIMS = ['int', 'char', 'short', 'long', 'long long', 'unsigned', 'unsigned int', 'unsigned char',
         'signed char', 'unsigned short', 'unsigned long', 'unsigned long long', 'float', 'double',
         'long double', '_Bool', 'void', 'wchar_t', 'char16_t', 'char32_t', 'size_t', 'ssize_t',
         'int8_t', 'uint8_t', 'int16_t', 'uint16_t', 'int32_t', 'uint32_t', 'int64_t', 'uint64_t',
         'intptr_t', 'uintptr_t', 'ptrdiff_t', 'intmax_t', 'uintmax_t', 'uint_fast16_t',
         'int_least64_t', 'uint_least8_t', 'int_fast8_t', 'float _Complex', 'double _Complex',
         '_cffi_float_complex_t', '_cffi_double_complex_t', 'FILE', 'struct _IO_FILE', 'bool',
         'DWORD', 'LPCWSTR', 'HANDLE', 'PUNICODE_STRING', 'UNICODE_STRING', 'va_list', 'long int',
         'short int', 'long unsigned int', 'signed', 'long long unsigned', 'long double _Complex',
         'unsigned float', 'short long', 'long long long', 'signed unsigned', 'short char',
         'long double long', 'unsigned _Bool', 'long void', 'off_t', 'BOOL', 'WPARAM', 'PVOID']
QUALS = ['', '', '', 'const ', 'volatile ', 'restrict ', 'const volatile ']
CALLCONV = ['', '', '', '__stdcall ', 'WINAPI ', '__cdecl ']
QUALS_C = ['', '', '', 'const ', 'volatile ', 'const volatile ', 'const ', 'restrict ']
CALLCONV_C = ['', '', '', '', '__stdcall ', '__cdecl ', '__stdcall ', 'WINAPI ']
TRIVIA = ['...', '[...]', '#define', '#define X', '#define X 1\n', 'extern "Python"',
          'extern "Python+C"', 'extern "C+Python" {', '__stdcall', 'WINAPI', '__cdecl', '[', ']',
          '(', ')', '{', '}', ';', ',', '*', '=', ':', '"', "'", '/*', '*/', '/**/', '//', '\\\n',
          '\n', '#', '# 1 "f.h"\n', '#line 3\n', '#line', '# 7', '#pragma pack(1)\n', 'typedef',
          'struct', 'union', 'enum', 'const', 'volatile', 'restrict', 'static', 'extern', 'inline',
          'int', 'char', 'long', 'short', 'unsigned', 'signed', 'float', 'double', '_Bool',
          '_Complex', 'void', '__dotdotdot__', '__dotdotdotarray__', '__dotdotdotint__',
          '__dotdotdotfloat__', '__dotdotdot0__', '__cffi_extern_python_start',
          '__cffi_extern_python_stop', '__cffi_extern_python_plus_c_start', '#line@0', '#line@9',
          '$', '$1', '$foo', 'sizeof', '0x', '08', '1<<-1', '5/0', '5%0', '-', '+', '<<', '>>',
          '__attribute__((packed))', '__declspec(dllexport)', '_cffi_array_len', 'FILE',
          '_IO_FILE', 'va_list', 'bool', 'NULL', 'int...', 'float...', '= ...', '...;', '..',
          '....', '1.5', "'a'", "'\\n'", '0b101', '1e5', '99999999999999999999999', '-1', '0',
          '__int128', '_Atomic', '_Alignas(8)', '__asm__("x")', '_Noreturn', '_Thread_local',
          'register', 'auto', 'goto', 'offsetof(a, b)', '__builtin_va_list', '__extension__',
          'u8"s"', "L'x'", '.x = 1', '->', '?', '==', '&&', '!', '~', '%', '/', '^', '|', '&',
          'foo_t', 'struct foo_s', 'enum e1', 'K1', 'A1', 'partial_t', 'opaque_t', 'anyint_t']
ODD_CHARS = ['\x00', '\x01', '\x0b', '\x0c', '\r', '\x1b', '\x7f', '\x80', '\xa0', '\xe9', '\xff',
             '\u0100', '\u2028', '\ufeff', '\uffff', '\U0001f600', '\t', '\\', '@', '`', '?', '#',
             '$', '"', "'", '~', '!', '%', '^', '&', '|', '<', '>', '.']
_TOK = re.compile(r'\.\.\.|[A-Za-z_$][A-Za-z_0-9$]*|0[xX][0-9a-fA-F]*|\d+|\s+|.', re.S)


GEN_STATS = {}      # what the generators produced (reported by the Python-side children)


def gstat(name):
    GEN_STATS[name] = GEN_STATS.get(name, 0) + 1


class Env(object):
    """names a type string / declaration may refer to"""
    def __init__(self, typedefs=(), structs=(), unions=(), enums=(), consts=(), globs=()):
        self.typedefs, self.structs, self.unions = list(typedefs), list(structs), list(unions)
        self.enums, self.consts = list(enums), list(consts)
        self.globs = list(globs)        # functions and variables: globals that are NOT constants
        self.texts = []                 # declarations made so far (for verbatim re-declaration)
        self.n = 0

    def copy(self):
        e = Env(self.typedefs, self.structs, self.unions, self.enums, self.consts, self.globs)
        e.n, e.texts = self.n, list(self.texts)
        return e

    def fresh(self, stem):
        self.n += 1
        return '%s%d' % (stem, self.n)


PY_ENV = Env(['foo_t', 'u_t', 'fn_t', 'partial_t', 'anyint_t', 'opaque_t'], ['foo_s', 'opaque_s'],
             [], ['e1'], ['K1', 'K2', 'A1', 'B1', 'C1'], ['pf1', 'pv1'])


def g_lit(r):
    v = r.choice([0, 1, 2, 3, 5, 7, 8, 9, 10, 31, 32, 63, 64, 100, 255, 256, 1200, 4096, 65535,
                  2 ** 31 - 1, 2 ** 31, 2 ** 32, 2 ** 63 - 1, 2 ** 63, 2 ** 64 - 1, 2 ** 64,
                  10 ** 30, r.randrange(1000)])
    f = r.random()
    if f < 0.5:
        return '%d' % v
    if f < 0.9:
        return r.choice(['0x%x', '0X%X', '0%o', '%dU', '%dL', '%dull', '%dLL', '%duL']) % v
    return r.choice(["'a'", "'\\n'", "'\\0'", "'ab'", "''", '08', '09', '0b101', '0B2', '1.5', '1e3',
                     '0x', '1f', '0x1p3', '00', '-0', '1_000', 'L\'a\'', '"s"'])


def g_expr(r, env, depth=0, cparser=False):
    """integer constant expression (cparser=True: only what parse_c_type.c knows)"""
    f = r.random()
    if cparser:
        if f < 0.55:
            return g_lit(r) if r.random() < 0.8 else '%d' % r.choice([0, 1, 2, 3, 4, 8, 16])
        if f < 0.85 and (env.consts or env.globs):
            return r.choice(env.globs if env.globs and (not env.consts or r.random() < 0.25)
                            else env.consts)
        return r.choice(['-1', '-0', 'nosuch', '1+1', '...', '', '9223372036854775807',
                         '9223372036854775808', '18446744073709551616', '0x7fffffffffffffff',
                         '0xffffffffffffffff', '1 2', 'int', '*'])
    if depth > 3 or f < 0.4:
        return g_lit(r)
    if f < 0.5:
        if env.globs and r.random() < 0.12:
            return r.choice(env.globs)
        return r.choice(env.consts) if env.consts and r.random() < 0.8 else 'nosuchconst'
    if f < 0.58:
        return r.choice('+-') + g_expr(r, env, depth + 1)
    if f < 0.9:
        op = r.choice(['+', '-', '*', '/', '%', '<<', '>>', '&', '|', '^'])
        right = g_expr(r, env, depth + 1)
        if op in ('<<', '>>'):      # bounded counts: 1 << 4294967296 is a resource blow-up
            right = r.choice(['0', '1', '3', '8', '31', '32', '63', '64', '200', '-1', '-0',
                              '(1-1)', '-5', 'K1', '5000', '20000', '99999999999999999999999999'])
            return '(%s %s %s)' % (g_expr(r, env, depth + 1), op, right)
        elif op in ('/', '%') and r.random() < 0.35:
            right = r.choice(['0', '-1', '-0', '(1-1)', '0x0', '0L', '1 - 1', '00'])
        return '%s %s %s' % (g_expr(r, env, depth + 1), op, right)
    if f < 0.95:
        return '(%s)' % g_expr(r, env, depth + 1)
    return r.choice(['...', 'sizeof(int)', '(int)3', '1 ? 2 : 3', '!1', '~1', '1 < 2', '1 && 2',
                     'f(1)', 'a[1]', '&x', '*p', 'x.y', '1, 2', '', '1 == 1', 'sizeof x'])


def g_base(r, env, inline_ok=True):
    f = r.random()
    names = env.typedefs if f < 0.65 else (env.structs + env.unions) if f < 0.84 else env.enums
    if f < 0.5 or (f < 0.92 and not names and r.random() < 0.8):
        return r.choice(PRIMS[:40]) if r.random() < 0.85 else r.choice(PRIMS)
    if f < 0.65:
        return r.choice(env.typedefs) if env.typedefs and r.random() < 0.9 else \
            r.choice(env.globs + env.consts + ['nosuch_t'] * 3)
    if f < 0.78:
        return 'struct ' + (r.choice(env.structs) if env.structs and r.random() < 0.85 else
                            r.choice(env.unions + ['nosuch_s', '', 'int', '$1', '_IO_FILE']))
    if f < 0.84:
        return 'union ' + (r.choice(env.unions) if env.unions and r.random() < 0.85 else
                           r.choice(env.structs + ['nosuch_u', '']))
    if f < 0.92:
        return 'enum ' + (r.choice(env.enums) if env.enums and r.random() < 0.85 else
                          r.choice(['nosuch_e', '', '$e']))
    if inline_ok:
        return r.choice(['struct { int a; }', 'union { int a; char b; }', 'enum { X9, Y9 }',
                         'struct in_s { int q:3; }', 'struct { ...; }', 'enum { Z9, ... }',
                         'struct { int a; } *', 'enum e9 { P9 = 1 << 3 }',
                         'struct { int a; char a; }', 'union { int a; struct { int a; }; }',
                         'struct { int a : 3; int : 0; char b : 9; }',
                         'struct { unsigned long long a : 64; int b : 99999999999999999999; }'])
    return r.choice(PRIMS)


def g_type(r, env, inner='', depth=0, cparser=False, inline_ok=True):
    """a type with a random declarator built around `inner` (a name or '')"""
    s = inner
    quals, conv = (QUALS_C, CALLCONV_C) if cparser else (QUALS, CALLCONV)
    for _ in range(r.choice([0, 0, 1, 1, 1, 2, 2, 3, 4])):
        k = r.random()
        if k < 0.4:
            s = '*' + r.choice(quals) + s
        elif k < 0.62:
            if s.startswith('*') and r.random() < 0.8:
                s = '(%s)' % s
            s += '[%s]' % ('' if r.random() < 0.2 else g_expr(r, env, cparser=cparser))
        elif k < 0.85 and depth < 3:
            args = [g_type(r, env, r.choice(['', '', 'a%d' % depth]), depth + 1, cparser, False)
                    for _ in range(r.choice([0, 1, 1, 2, 3]))]
            if r.random() < 0.2:
                args.append('...')
            if r.random() < 0.08:
                args.insert(0, r.choice(['...', 'void', 'x', '']))
            s = '(%s*%s)(%s)' % (r.choice(conv), s, ', '.join(args) or r.choice(['void', '']))
        else:
            s = '(%s)' % s if s or r.random() < 0.3 else s
    if inner and r.random() < 0.05 and depth == 0:
        s = '%s%s(%s)' % (r.choice(conv), s, g_type(r, env, '', 2, cparser, False))
    return ('%s%s %s' % (r.choice(quals), g_base(r, env, inline_ok and not cparser), s)).strip()


def g_redecl(r, env):
    """declares AGAIN a name the environment already has: the same text verbatim, the same kind
    with another definition (completing an opaque struct, another value), or another kind"""
    gstat('redeclarations')
    if env.texts and r.random() < 0.3:
        gstat('redeclarations_verbatim')
        return r.choice(env.texts)
    kinds = [k for k in ('typedefs', 'structs', 'unions', 'enums', 'consts', 'globs')
             if getattr(env, k)]
    if not kinds:
        return 'typedef int td_again; typedef int td_again; typedef long td_again;'
    k = r.choice(kinds)
    nm = r.choice(getattr(env, k))
    if r.random() < 0.12:
        k = r.choice(['typedefs', 'structs', 'unions', 'enums', 'consts', 'globs'])
    if k == 'typedefs':
        return r.choice(['typedef %s;' % g_type(r, env, nm), 'typedef int %s;' % nm,
                         'typedef ... %s;' % nm, 'typedef struct { int a; } %s;' % nm,
                         'typedef int... %s;' % nm, 'typedef ... *%s;' % nm,
                         'typedef struct %s %s;' % (nm, nm), 'typedef int %s[...];' % nm])
    if k in ('structs', 'unions'):
        kw = 'struct' if (k == 'structs') ^ (r.random() < 0.1) else 'union'
        return _fmt_agg(r, kw, nm, g_fields(r, env, kw, nm))
    if k == 'enums':
        items = ['%s_R%d%s' % (nm.upper(), i, r.choice(['', '', ' = ' + g_expr(r, env), ' = ...']))
                 for i in range(r.choice([0, 1, 2, 3]))]
        if env.consts and r.random() < 0.3:
            items.append(r.choice(env.consts))
        return 'enum %s { %s%s };' % (nm, ', '.join(items), r.choice(['', '', ', ...']))
    if k == 'consts':
        return r.choice(['#define %s %s' % (nm, r.choice([g_lit(r), '...', '...', '4', '7', '5'])),
                         'static const int %s = %s;' % (nm, g_lit(r)),
                         'enum { %s = %s };' % (nm, g_lit(r)), 'enum { %s };' % nm,
                         'static const int %s;' % nm, 'static const long %s = ...;' % nm,
                         'extern int %s;' % nm, 'int %s(void);' % nm, 'typedef int %s;' % nm])
    return r.choice(['int %s(int);' % nm, 'extern long %s;' % nm, 'extern int %s[];' % nm,
                     g_type(r, env, '%s(void)' % nm, 2) + ';', 'extern "Python" int %s(int);' % nm,
                     'extern "Python+C" int %s(int, int);' % nm, '#define %s ...' % nm,
                     'static const int %s = 3;' % nm, 'int %s(int, ...);' % nm,
                     'extern %s;' % g_type(r, env, nm)])


BF_TYPES = [('char', 8), ('unsigned char', 8), ('short', 16), ('unsigned short', 16), ('int', 32),
            ('unsigned', 32), ('long long', 64), ('unsigned long long', 64), ('_Bool', 8)]


def g_fields(r, env, kw, nm):
    flds = []
    if r.random() < 0.3:        # a run of bit fields that fit their types (layout decides)
        gstat('aggregates_with_bitfield_runs')
        for i in range(r.choice([2, 2, 3, 4, 6])):
            t, w = r.choice(BF_TYPES)
            f = r.random()
            flds.append('%s b%d : %d;' % (t, i, r.randint(1, w) if t != '_Bool' else 1) if f < 0.8 else
                        '%s : %d;' % (t, r.choice([0, 0, 1, w - 1])) if f < 0.88 else
                        '%s p%d;' % (r.choice(['char', 'int', 'short', 'double']), i))
        return ' '.join(flds)
    for i in range(r.choice([0, 1, 1, 2, 3])):
        f = r.random()
        flds.append('%s r%d : %s;' % (r.choice(['int', 'unsigned', 'long long', 'char', 'short']),
                                      i, r.choice(['1', '3', '7', '9', '15', '31', '33', '63',
                                                   '0', g_expr(r, env)]))
                    if f < 0.3 else r.choice(['...;', 'int : 0;', '%s %s *self;' % (kw, nm),
                                              '%s %s me;' % (kw, nm), 'char fl[];'])
                    if f < 0.42 else r.choice(['int', 'char', 'long long', 'double', 'void *',
                                               'short']) + ' r%d;' % i
                    if f < 0.7 else g_type(r, env, 'r%d' % i) + ';')
    if flds and r.random() < 0.1:       # a member name used twice (also through an anonymous member)
        gstat('aggregates_with_duplicate_member_name')
        flds.append(r.choice(['int r0;', 'char r0 : 2;', 'struct { int r0; };', 'union { char r0; long q; };']))
    return ' '.join(flds)


def _fmt_agg(r, kw, nm, flds):
    f = r.random()
    if f < 0.6:
        return '%s %s { %s };' % (kw, nm, flds)
    if f < 0.72:
        return '%s %s;' % (kw, nm)
    if f < 0.86:
        return 'typedef %s %s { %s } *%s_p%d;' % (kw, nm, flds, nm, r.randrange(1000))
    return 'extern %s %s { %s } %s_v%d;' % (kw, nm, flds, nm, r.randrange(1000))


def g_decl(r, env):
    """one declaration; names it defines are added to env; sometimes a re-declaration"""
    if r.random() < 0.1 and (env.texts or env.typedefs or env.structs or env.consts):
        return g_redecl(r, env)
    t = g_decl_new(r, env)
    if len(t) < 400:
        if len(env.texts) >= 12:
            del env.texts[r.randrange(12)]
        env.texts.append(t)
    return t


def g_decl_new(r, env):
    """one declaration of fresh names; names it defines are added to env"""
    k = r.random()
    if k < 0.16:
        nm = env.fresh('td_')
        t = 'typedef ' + g_type(r, env, nm) + ';'
        env.typedefs.append(nm)
        return t
    if k < 0.34:
        kind = r.choice(['struct', 'struct', 'union'])
        nm = env.fresh('ag_')
        flds = []
        for i in range(r.choice([0, 1, 2, 2, 3, 5])):
            f = r.random()
            if f < 0.2:
                flds.append('%s f%d : %s;' % (r.choice(['int', 'unsigned', 'long long', 'char',
                                                         'float', '_Bool', 'unsigned char']),
                                              i, g_expr(r, env)))
            elif f < 0.27:
                flds.append(r.choice(['...;', 'int : 0;', 'int : 3;', 'struct { int u, v; };',
                                      'union { int w; char z; };', 'int g[];', 'int h[...];',
                                      ';', 'int x, y;', 'int f0;']))
            else:
                flds.append(g_type(r, env, 'f%d' % i) + ';')
        (env.structs if kind == 'struct' else env.unions).append(nm)
        form = r.random()
        body = '%s %s { %s }' % (kind, nm if form < 0.8 else '', ' '.join(flds))
        if form < 0.5:
            return body + ';'
        td = env.fresh('td_')
        env.typedefs.append(td)
        return 'typedef %s %s%s;' % (body, r.choice(['', '*', '* const ']), td)
    if k < 0.46:
        nm = env.fresh('en_')
        items = []
        for i in range(r.choice([0, 1, 2, 3, 4])):
            en = ('%s_V%d' % (nm, i)).upper()
            f = r.random()
            items.append(en if f < 0.5 else '%s = %s' % (en, g_expr(r, env)) if f < 0.9 else
                         r.choice(['...', en + ' = ...', en + '=...']))
            env.consts.append(en)
        env.enums.append(nm)
        return 'enum %s { %s%s };' % (nm if r.random() < 0.85 else '', ', '.join(items),
                                       r.choice(['', '', ',', ', ...']))
    if k < 0.58:
        nm = env.fresh('K').upper()
        f = r.random()
        env.consts.append(nm)
        if f < 0.55:
            val = r.choice([g_lit(r), g_lit(r), '...', g_expr(r, env), '-' + g_lit(r), 'abc', '08',
                            '0x', '-', '(1)', '1.5', '"s"', '', '0xFFul', '-0x10', '1 \\\n + 2',
                            'lu', 'x1', '0b1', '1e1', '--1', '-', 'u', '0xg', '0o7', '09L'])
            return '#%sdefine %s %s' % (r.choice(['', '', ' ', '\t']), nm, val)
        T = r.choice(['int', 'long', 'unsigned int', 'long long', 'short', 'char', 'float',
                      'foo_t', 'int *', 'unsigned char'])
        return '%s const %s %s%s;' % (r.choice(['static', 'static', 'extern', '']), T, nm,
                                      r.choice([' = ' + g_expr(r, env), ' = ' + g_lit(r), '',
                                                ' = -' + g_lit(r), ' = ...', ' = {1}']))
    if k < 0.76:
        nm = env.fresh('fn_')
        env.globs.append(nm)
        args = [g_type(r, env, r.choice(['', 'a%d' % i]), 1) for i in range(r.choice([0, 1, 2, 3]))]
        if r.random() < 0.15:
            args.append('...')
        proto = g_type(r, env, '%s%s(%s)' % (r.choice(CALLCONV), nm,
                                            ', '.join(args) or r.choice(['void', ''])), 2)
        f = r.random()
        if f < 0.12:
            return 'extern "%s" %s;' % (r.choice(['Python', 'Python+C', 'C+Python', 'Python + C',
                                                  'python']), proto)
        if f < 0.2:
            return 'extern "Python" { %s; %s }' % (proto, r.choice(['', 'int g9;', '{', 'int h9(void);',
                                                                    'static const int Q9 = 1;']))
        if f < 0.25:
            return r.choice(['static inline %s { return 0; }', '__declspec(dllexport) %s;',
                             '%s __attribute__((noreturn));', 'extern "Python" %s',
                             'extern "C" %s;', 'static %s;']) % proto
        return proto + ';'
    if k < 0.88:
        nm = env.fresh('gv_')
        env.globs.append(nm)
        return '%s%s%s;' % (r.choice(['extern ', 'extern ', '', 'static ']), g_type(r, env, nm),
                            r.choice(['', '', '', ' = 0', ' = {1, 2}']))
    if r.random() < 0.25:       # opaque now; a later declaration may complete it
        kind = r.choice(['struct', 'struct', 'union', 'enum'])
        nm = env.fresh('fw_')
        gstat('forward_declarations')
        {'struct': env.structs, 'union': env.unions, 'enum': env.enums}[kind].append(nm)
        return r.choice(['%s %s;', 'typedef %s %s *%s_ptr;', 'extern %s %s *%s_var;',
                         '%s %s *%s_get(void);']).replace('%s_', nm + '_') % (kind, nm)
    return r.choice(['# 1 "some/file.h"', '#line 12 "x.h"', '# 5', '#pragma pack(1)',
                     '/* comment ; */', '// line comment', 'typedef int... ti_%d;' % env.n,
                     'typedef float... tf_%d;' % env.n, 'typedef ... to_%d;' % env.n,
                     'typedef ... *tp_%d;' % env.n, 'typedef unsigned long... tu_%d;' % env.n,
                     'typedef long double... tl_%d;' % env.n, 'typedef ... to2_%d[3];' % env.n,
                     'int ga_%d[...];' % env.n, 'extern int gb_%d[...][...];' % env.n,
                     'typedef int tq_%d[...];' % env.n, 'struct fwd_%d;' % env.n, ';', 'int;',
                     'typedef int;', 'struct;', 'enum;', '#define', '#define 5 5', '#/**/line 3',
                     '# /* c */ 4 "f.h"', 'int (...);', '_Static_assert(1, "x");',
                     'typedef __dotdotdot__ q%d;' % env.n, 'int __dotdotdot__;',
                     'void __cffi_extern_python_stop;', 'void __cffi_extern_python_start;',
                     'extern "Python" {', 'extern "Python"', '#define __dotdotdot__ 1'])


def g_text(r, env, api):
    if api == 'typeof':
        return g_type(r, env, r.choice(['', '', '', 'x']))
    if r.random() < 0.08:       # a whole valid context from the shared cdef generator
        return GC.Ctx(random.Random(r.getrandbits(32)), prefix='w_', nd=r.choice([2, 4, 8]),
                      funcs=r.random() < 0.7).cdef_text()
    return '\n'.join(g_decl(r, env) for _ in range(r.choice([1, 1, 2, 3, 5]))) + \
        r.choice(['', '\n', '\n\n'])


def mutate_tokens(r, text):
    toks = _TOK.findall(text) or ['']
    for _ in range(r.choice([1, 1, 2, 3])):
        i = r.randrange(len(toks))
        m = r.random()
        if m < 0.2:
            del toks[i]
            toks = toks or ['']
        elif m < 0.35:
            toks.insert(i, toks[i])
        elif m < 0.5:
            j = r.randrange(len(toks))
            toks[i], toks[j] = toks[j], toks[i]
        elif m < 0.75:
            toks[i] = r.choice(TRIVIA)
        else:
            toks.insert(i, r.choice(TRIVIA) + r.choice(['', ' ']))
    return ''.join(toks)


def mutate_bytes(r, text, maxnest=60):
    s = list(text)
    for _ in range(r.choice([1, 1, 2, 4])):
        i = r.randrange(len(s) + 1)
        m = r.random()
        if m < 0.3:
            s.insert(i, r.choice(ODD_CHARS) if r.random() < 0.8 else chr(r.randrange(0x20, 0x7f)))
        elif m < 0.45 and s:
            del s[min(i, len(s) - 1)]
        elif m < 0.6 and s:
            i = min(i, len(s) - 1)
            s[i] = chr(ord(s[i]) ^ (1 << r.randrange(7))) if ord(s[i]) < 128 else 'x'
        elif m < 0.7 and s:
            j = min(len(s), i + r.randrange(1, 12))
            s[i:i] = s[i:j] * r.choice([1, 2, 5])
        elif m < 0.78:
            del s[i:]
        elif m < 0.9:
            s[i:i] = list(r.choice(['a' * 300, 'a' * 5000, '9' * 25, '9' * 400, '0x' + 'f' * 40,
                                    '*' * maxnest, '[1]' * maxnest, '(' * maxnest, ')' * maxnest,
                                    '(*' * maxnest, '[' * maxnest, '{' * 40, ' ' * 600,
                                    '\n' * 50, '-' * 30, '1+' * 40 + '1', '(int, ' * 30]))
        else:
            n = r.choice([3, 10, maxnest])
            s[i:i] = list('(*' * n + ')' * n + '(void)' * r.choice([0, 1]))
    return ''.join(s)


ESCAPE_TAILS = ['= (1', '= (', '(int', '(', '[sizeof(int', '[(3', '= sizeof(int', ', w9 = (2', ': (3',
                '{ int a[(1', '']


def g_escape(r, env):
    """a type string that ends the construct cffi wraps type strings into and starts another
    declaration which the wrapper's tail completes: 'T); D (' (cffi parses 'void __dummy(\n%s\n);')"""
    d = g_decl_new(r, env.copy()).rstrip().rstrip(';')
    if r.random() < 0.5:
        d = r.choice(['int v9', 'typedef int (q9', 'struct s9 { int a; } x9', 'enum { E9A } y9',
                      'void g9', 'int h9(void), k9', 'static const int c9', 'typedef struct s8 t8',
                      'extern int a9[3]'])
    return '%s)%s %s %s' % (g_type(r, env, r.choice(['', '', 'x'])) if r.random() < 0.8 else '',
                            r.choice([';', ';', '', ' {}', ';;']), d, r.choice(ESCAPE_TAILS))


def g_opts(r, p=0.3):
    """keyword arguments of cdef(); 'embedding' stands for FFI.embedding_api()"""
    if r.random() >= p:
        return {}
    return dict(r.choice([{'override': True}, {'override': True}, {'packed': True}, {'pack': 1},
                          {'pack': 2}, {'pack': 4}, {'pack': 16}, {'embedding': True},
                          {'override': True, 'packed': True}, {'embedding': True, 'pack': 2},
                          {'packed': False, 'pack': None, 'override': False}]))


def gen_input(r, env0, api, cparser=False, maxnest=60, keep_env=False):
    """-> (kind, text); keep_env: names declared by the text stay in env0 (histories)"""
    env = env0 if keep_env else env0.copy()
    if api == 'typeof' and not cparser and r.random() < 0.05:
        return 'wrapper-escape', g_escape(r, env)
    text = g_type(r, env, r.choice(['', '', '', 'x']), cparser=True) if cparser else \
        g_text(r, env, api)
    k = r.random()
    if k < 0.3:
        return 'grammar', text
    if k < 0.6:
        return 'token-mutant', mutate_tokens(r, text)
    if k < 0.9:
        return 'byte-mutant', mutate_bytes(r, text, maxnest)
    if k < 0.97:
        return 'trivia', ' '.join(r.choice(TRIVIA) for _ in range(r.choice([1, 2, 3, 6])))
    return 'both-mutants', mutate_bytes(r, mutate_tokens(r, text), maxnest)


def py_inputs(case):
    """Python-side units of a case: [api, text, with_prelude, kind(, cdef options)], one fresh FFI
    each; or, for case['seq'], histories {'setup':.., 'steps': [[api, text, options, kind], ...]}"""
    if 'explicit' in case:
        return case['explicit']
    r = random.Random(case['seed'])
    if case.get('seq'):
        return [g_sequence(r) for _ in range(case['n'])]
    out = []
    for _ in range(case['n']):
        api = 'cdef' if r.random() < 0.6 else 'typeof'
        if r.random() < 0.04:       # declarations to typeof, types to cdef
            kind, text = gen_input(r, PY_ENV, 'typeof' if api == 'cdef' else 'cdef')
        else:
            kind, text = gen_input(r, PY_ENV, api)
        out.append([api, text, r.random() < 0.55, kind] +
                   ([g_opts(r)] if api == 'cdef' and r.random() < 0.5 else []))
    return out


def g_use(r, env):
    """a type string that makes the backend build (complete) a type declared earlier"""
    f = r.random()
    pool = ['struct ' + n for n in env.structs] + ['union ' + n for n in env.unions] + \
        ['enum ' + n for n in env.enums] + env.typedefs
    if not pool or f < 0.1:
        return g_type(r, env, '')
    b = r.choice(pool[-8:] if r.random() < 0.6 else pool)
    return b + r.choice(['', '', '', ' *', '[2]', '[]', ' *(*)(int)', '(*)(%s)' % b, ' **',
                         ' const', '(*)(%s, ...)' % b, '[K1]', '[%s]' % g_expr(r, env)])


def g_sequence(r):
    """a history of cdef()/typeof() calls on ONE FFI object: declarations (with options) that may
    fail half-way, type strings using the names declared so far (the backend completes the
    types), the same type string again (cached), re-declarations and completions of opaque types
    after they were used"""
    setup = r.choice(['none', 'none', 'prelude', 'prelude', 'include'])
    env = Env() if setup == 'none' else PY_ENV.copy()
    steps, asked = [], []
    for _ in range(r.choice([2, 3, 3, 4, 5, 6, 8])):
        k = r.random()
        if k < 0.1:         # an opaque type is used, then completed
            kw = r.choice(['struct', 'struct', 'union'])
            nm = env.fresh('op_')
            steps.append(['cdef', r.choice(['%s %s;', 'typedef %s %s *%s_ptr;', '%s %s *%s_get(void);',
                                            'extern %s %s *%s_var;']).replace('%s_', nm + '_') %
                          (kw, nm), {}, 'opaque-first'])
            steps.append(['typeof', '%s %s%s' % (kw, nm, r.choice(['', ' *', ' *', ' **', '(*)(void)',
                                                                   ' *[3]'])), {}, 'use-declared'])
            steps.append(['cdef', _fmt_agg(r, kw, nm, g_fields(r, env, kw, nm)), g_opts(r),
                          'complete-after-use'])
            (env.structs if kw == 'struct' else env.unions).append(nm)
            asked.append(steps[-2][1])
        elif k < 0.2:       # an aggregate is defined (often with a layout option) and then built
            kw = r.choice(['struct', 'struct', 'union'])
            nm = env.fresh('lay_')
            flds = g_fields(r, env, kw, nm)
            steps.append(['cdef', r.choice(['%s %s { %s };' % (kw, nm, flds),
                                            'typedef %s %s { %s } %s_t;' % (kw, nm, flds, nm)]),
                          g_opts(r, 0.6), 'define-aggregate'])
            steps.append(['typeof', '%s %s%s' % (kw, nm, r.choice(['', '', '[2]', ' *'])), {},
                          'use-declared'])
            (env.structs if kw == 'struct' else env.unions).append(nm)
            asked.append(steps[-1][1])
        elif k < 0.45:
            kind, text = gen_input(r, env, 'cdef', keep_env=True)
            steps.append(['cdef', text, g_opts(r), kind])
        elif k < 0.55:
            steps.append(['cdef', g_redecl(r, env), g_opts(r), 'redeclare'])
        elif k < 0.75:
            steps.append(['typeof', g_use(r, env), {}, 'use-declared'])
            asked.append(steps[-1][1])
        elif k < 0.85 and asked:
            steps.append(['typeof', r.choice(asked), {}, 'repeat'])
        else:
            kind, text = gen_input(r, env, 'typeof', keep_env=True)
            steps.append(['typeof', text, {}, kind])
            asked.append(text)
    return {'setup': setup, 'steps': steps}


@functools.lru_cache(maxsize=None)
def ctx_of(seed):
    rnd = random.Random(seed)
    full = bool(seed & 1)       # odd seeds: the context also has functions and global variables
    return GC.Ctx(rnd, prefix='m%d_' % (seed % 1000), nd=22 if full else 14, funcs=full,
                  globals_=full)


@functools.lru_cache(maxsize=None)
def env_of(seed):
    if seed is None:
        return Env()
    c = ctx_of(seed)
    consts = [d['name'] for d in c.consts] + [en for e in c.enums for en, _ in e['values']]
    return Env([d['name'] for d in c.typedefs],
               [a['name'] for a in c.g.decls if a['name'] and a['kind'] == 'struct'],
               [a['name'] for a in c.g.decls if a['name'] and a['kind'] == 'union'],
               [d['name'] for d in c.enums], consts,
               [d['name'] for d in c.funcs] + [d['name'] for d in c.globs])


def modname_of(seed):
    return '_c30_ctx_%d' % seed


LIMIT_INPUTS = ['int' + '*' * 1100, 'int' + '*' * 1199, 'int' + '*' * 1200, 'int' + '*' * 1300,
                'int(*)(' + 'int,' * 1195 + 'int)', 'int(*)(' + 'int,' * 1300 + 'int)',
                'int' + '(*' * 600 + ')' * 600, 'int' + '(*' * 1300 + ')' * 1300,
                'int' + '[1]' * 598, 'int' + '[1]' * 700, 'int' + '[]' * 1300,
                'int' + '(*)(int' * 400 + ')' * 400, 'int(*)(' + 'char(*)(long),' * 300 + 'int)',
                'int' + '(' * 1300, 'PUNICODE_STRING' + '*' * 1190, 'int(*)(' + 'LPCWSTR,' * 500 +
                'int)', 'int(*)(' + ',' * 1250 + ')', 'int' + ' ' * 70000 + '*', 'a' * 70000,
                'int[' + '9' * 5000 + ']', 'int(*)(' + 'int(*)(' * 350 + 'foo' + ')' * 351]


def c_inputs(r, n, seeds, limits=False):
    """[target, text, kind] (parent side); target = index into seeds or -1 (empty FFI)"""
    out = []
    for _ in range(n):
        if out and r.random() < 0.07:       # the same string again on the same FFI object
            tg, text, _ = out[-r.randrange(1, min(len(out), 40) + 1)]
            out.append([tg, text, 'repeat'])
            continue
        tg = r.randrange(len(seeds)) if seeds and r.random() < 0.6 else -1
        env = env_of(seeds[tg] if tg >= 0 else None)
        kind, text = gen_input(r, env, 'typeof', cparser=r.random() < 0.85, maxnest=r.choice(
            [20, 60, 300, 700]))
        out.append([tg, text, kind])
    if limits:
        out += [[-1, t, 'limit'] for t in LIMIT_INPUTS]
        e = env_of(seeds[0]) if seeds else None
        if e and e.typedefs and e.structs:
            out += [[0, t, 'limit'] for t in
                    ['%s%s' % (e.typedefs[0], '*' * 1190), 'struct %s%s' % (e.structs[0], '[2]' * 598),
                     'int(*)(%s)' % ', '.join(e.typedefs * 60)]]
    return out


# ---------------------------------------------------------------------------
# children

WATCHDOG = 20      # seconds; faulthandler's C-level watchdog (works while the GIL is held)
MAGIC = 0xC30C30


def child_setup(setup, wd):
    import warnings
    warnings.simplefilter('ignore')
    st = {'setup': setup}
    if setup['side'] == 'py':
        import resource
        resource.setrlimit(resource.RLIMIT_AS, (1 << 30, 1 << 30))
        return st
    import importlib
    from vlib.child import _san_files
    sys.path.insert(0, setup['moddir'])
    st['mods'] = [importlib.import_module(modname_of(s)).ffi for s in setup['ctx']]
    st['globs_re'] = [re.compile(r'\[\s*(?:%s)\s*\]' % '|'.join(env_of(s).globs)) if env_of(s).globs
                      else None for s in setup['ctx']]
    # the sanitizer runtime opens its log with O_CREAT|O_TRUNC at the first report: pre-create
    # it so that growth can be seen with one lseek() per input (stat() is slow under ASan)
    st['logs'] = []
    for p in _san_files(os.getpid()):
        fd = os.open(p, os.O_RDONLY | os.O_CREAT, 0o644)
        st['logs'].append([fd, os.lseek(fd, 0, os.SEEK_END)])
    return st


def open_progress(st, case):
    """8 bytes of shared file memory: (MAGIC, index of the input being run); survives the
    death of the process, so the parent can attribute a crash to one input"""
    import mmap
    fd = os.open(os.path.join(st['setup']['progdir'], 'p%d' % case['no']),
                 os.O_RDWR | os.O_CREAT, 0o644)
    os.ftruncate(fd, 8)
    prog = mmap.mmap(fd, 8)
    os.close(fd)
    return prog


def raising_site(e):
    """(innermost cffi function, innermost function outside cffi below it or None)"""
    tb, site, below = e.__traceback__, None, None
    while tb is not None:
        co = tb.tb_frame.f_code
        fn = co.co_filename
        if fn.startswith(CFFI_DIR):
            site = '%s.%s' % (os.path.basename(fn)[:-3], getattr(co, 'co_qualname', co.co_name))
            below = None
        elif site is not None:
            below = '%s.%s' % (os.path.basename(fn)[:-3], co.co_name)
        tb = tb.tb_next
    return site, below


def py_call(ffi, api, text, opts):
    if api == 'typeof':
        return ffi.typeof(text)
    opts = dict(opts)
    if opts.pop('embedding', False):
        return ffi.embedding_api(text, **opts)
    return ffi.cdef(text, **opts)


def opts_key(opts):
    return '+'.join(sorted(k for k, v in opts.items() if v)) or 'none'


def judged_py_call(rep, ffi, api, text, opts, detail, where):
    """one cdef()/typeof() call under the oracle of the statement"""
    try:
        res = py_call(ffi, api, text, opts)
        rep.stat('py_%s_ok' % api)
        if api == 'typeof' and type(res).__name__ not in ('CType', 'CTypeDescr'):
            rep.bad('typeof-returned-non-ctype', 'FFI().typeof(%r)%s returned %r' % (text, where, res),
                    detail)
    except (MemoryError, RecursionError) as e:
        rep.stat('resource_py_' + type(e).__name__)
    except Exception as e:
        name = type(e).__name__
        if (name in PY_ALLOWED and type(e).__module__ == 'cffi') or \
                type(e) is NotImplementedError:
            rep.stat('py_%s_raised_%s' % (api, name))
            return
        site, below = raising_site(e)
        mech = 'escape:%s@%s%s' % (name, site, '>' + below if below else '')
        rep.stat('py_%s_escaped_%s' % (api, name))
        rep.bad(mech, 'FFI().%s(%r%s)%s raised %s: %s' % (
            api, text if len(text) < 300 else text[:300] + '...',
            ''.join(', %s=%r' % kv for kv in sorted(opts.items())), where, name, str(e)[:200]),
            detail)


def run_py(st, case, rep):
    import faulthandler
    from cffi import FFI
    prog = open_progress(st, case)
    if case.get('seq'):
        return run_py_seq(st, case, rep, prog, FFI, faulthandler)
    for i, unit in enumerate(py_inputs(case)):
        api, text, prelude, kind = unit[:4]
        opts = unit[4] if len(unit) > 4 else {}
        if i % 16 == 0:
            faulthandler.dump_traceback_later(WATCHDOG, exit=True)
        prog[0:8] = struct.pack('<II', MAGIC, i)
        rep.case(('py', api, prelude, text, opts_key(opts)), nontrivial=bool(text.strip()),
                 sample={'api': api, 'kind': kind, 'text': text[:200]})
        rep.stat('py_%s_%s' % (api, kind))
        if opts:
            rep.stat('py_cdef_option_' + opts_key(opts))
        ffi = FFI()
        if prelude:
            ffi.cdef(PRELUDE)
        judged_py_call(rep, ffi, api, text, opts, list(unit),
                       ' after the prelude cdef' if prelude else '')
    faulthandler.cancel_dump_traceback_later()
    prog[0:8] = struct.pack('<II', 0, 0)
    prog.close()


def run_py_seq(st, case, rep, prog, FFI, faulthandler):
    import zlib
    for i, seq in enumerate(py_inputs(case)):
        if i % 4 == 0:
            faulthandler.dump_traceback_later(WATCHDOG, exit=True)
        prog[0:8] = struct.pack('<II', MAGIC, i)
        ffi = FFI()
        if seq['setup'] == 'prelude':
            ffi.cdef(PRELUDE)
        elif seq['setup'] == 'include':
            base = FFI()
            base.cdef(PRELUDE)
            ffi.include(base)
        rep.stat('pyseq_histories')
        rep.stat('pyseq_setup_' + seq['setup'])
        h = zlib.crc32(seq['setup'].encode())
        seen, failed_before, typeofs = set(), False, 0
        for j, (api, text, opts, kind) in enumerate(seq['steps']):
            h = zlib.crc32(('%s|%s|%s' % (api, opts_key(opts), text)).encode('utf-8', 'replace'), h)
            rep.case(('pyseq', h), nontrivial=bool(text.strip()),
                     sample={'api': api, 'kind': kind, 'text': text[:200], 'step': j})
            rep.stat('pyseq_%s_%s' % (api, kind))
            if opts:
                rep.stat('pyseq_cdef_option_' + opts_key(opts))
            if api == 'cdef' and typeofs:
                rep.stat('pyseq_cdef_after_typeof')
            if failed_before:
                rep.stat('pyseq_step_after_failed_step')
            if (api, text) in seen:
                rep.stat('pyseq_same_text_again')
            seen.add((api, text))
            typeofs += api == 'typeof'
            ok0 = rep.stats.get('py_%s_ok' % api, 0)
            judged_py_call(rep, ffi, api, text, opts,
                           {'setup': seq['setup'], 'steps': seq['steps'][:j + 1]},
                           ' as call %d of a history on one FFI (setup: %s; earlier calls: %s)' % (
                               j + 1, seq['setup'], ', '.join(
                                   '%s(%r)' % (a, t if len(t) < 80 else t[:80] + '...')
                                   for a, t, _, _ in seq['steps'][:j]) or 'none'))
            if rep.stats.get('py_%s_ok' % api, 0) == ok0:
                failed_before = True
    faulthandler.cancel_dump_traceback_later()
    prog[0:8] = struct.pack('<II', 0, 0)
    prog.close()


_NORM = re.compile(r"'[^']*'|\"[^\"]*\"|\d+")


def new_san(st):
    txt = ''
    for ent in st['logs']:
        sz = os.lseek(ent[0], 0, os.SEEK_END)
        if sz > ent[1]:
            txt += os.pread(ent[0], min(sz - ent[1], 200000), ent[1]).decode(errors='replace')
            ent[1] = sz
    return txt


def error_location_problem(full, text):
    """the parser's error message shows the string and a '^' under the place of the error
    (_ffi_bad_type): a place behind the end of the string means the parser left the string"""
    lines = full.split('\n')
    if len(lines) != 3 or not lines[2].endswith('^'):
        return None         # strings of more than 500 bytes are not shown
    raw = text.encode('utf-8', 'surrogatepass').split(b'\0')[0]
    if len(lines[1]) != len(raw):
        return 'the message shows %d characters for a string of %d bytes' % (len(lines[1]), len(raw))
    if len(lines[2]) - 1 > len(raw) or lines[2].strip(' ') != '^':
        return 'the error is located at offset %d of a string of %d bytes' % (len(lines[2]) - 1,
                                                                             len(raw))
    return None


def run_c(st, case, rep):
    import _cffi_backend
    CType = _cffi_backend.CType
    prog = open_progress(st, case)
    empty = _cffi_backend.FFI()
    for i, (tg, text, kind) in enumerate(case['explicit']):
        prog[0:8] = struct.pack('<II', MAGIC, i)
        if i % 400 == 399:
            empty = _cffi_backend.FFI()
        ffi = st['mods'][tg] if tg >= 0 else empty
        where = 'ctx' if tg >= 0 else 'empty'
        on = 'an out-of-line module' if tg >= 0 else '_cffi_backend.FFI()'
        rep.case(('c', where, text), nontrivial=bool(text.strip()),
                 sample={'target': where, 'kind': kind, 'text': text[:200]})
        rep.stat('c_%s_%s' % (where, kind))
        if tg >= 0 and st['globs_re'][tg] is not None:
            rep.stat('c_ctx_with_functions_and_variables')
            if st['globs_re'][tg].search(text):
                rep.stat('c_array_length_names_function_or_variable')
        detail = [tg, text, kind]
        shown = text if len(text) < 300 else text[:200] + '...(%d chars)' % len(text)
        try:
            res = ffi.typeof(text)
            rep.stat('c_ok')
            if not isinstance(res, CType):
                rep.bad('c-typeof-returned-non-ctype', 'typeof(%r) returned %r' % (shown, res),
                        detail)
        except MemoryError:
            rep.stat('resource_c_MemoryError')
        except Exception as e:
            name = type(e).__name__
            msg = str(e).split('\n')[0]
            if isinstance(e, ffi.error):
                bad_loc = error_location_problem(str(e), text)
                if bad_loc:
                    rep.bad('c-error-location-outside-string', 'typeof(%r) on %s: %s; message: %r' % (
                        shown, on, bad_loc, str(e)[:700]), detail)
                key = 'c_err:' + _NORM.sub('N', msg)[:60]
                rep.stat(key if key in rep.stats or sum(k.startswith('c_err:') for k in rep.stats)
                         < 70 else 'c_err:(other)')
            elif isinstance(e, (TypeError, ValueError, NotImplementedError)) or (
                    isinstance(e, RuntimeError) and 'recursion too deep' in msg):
                rep.stat('c_raised_' + name)
            else:
                rep.stat('c_escaped_' + name)
                rep.bad('c-typeof-raised:' + name, 'typeof(%r) on %s raised %s: %s' % (
                    shown, on, name, msg[:200]), detail)
        txt = new_san(st)
        if txt:
            for k, frame, block in core.split_reports(txt):
                if core.is_benign(k, frame, block):
                    rep.stat('benign_sanitizer_reports_filtered')
                    continue
                rep.stat('c_sanitizer_reports')
                rep.bad('sanitizer:%s@%s' % (k, frame), 'typeof(%r) on %s:\n%s' % (
                    shown, on, block[:1200]), detail)
    prog[0:8] = struct.pack('<II', 0, 0)
    prog.close()


def child_case(st, case):
    rep = core.ChildRep(max_bad=60)
    GEN_STATS.clear()
    (run_py if case['side'] == 'py' else run_c)(st, case, rep)
    for k, v in sorted(GEN_STATS.items()):
        rep.stat('py_generated_' + k, v)
    return rep.result()


# ---------------------------------------------------------------------------
# parent

def build_ctx_modules(ctx, seeds):
    from vlib import modbuild
    d = os.path.join(ctx.tmp, 'mods')
    specs = [{'name': modname_of(s), 'kind': 'abi', 'cdef': ctx_of(s).cdef_text(), 'source': None,
              'dir': d} for s in seeds]
    res = modbuild.build_modules(ctx, specs, variant='plain', nproc=4)
    for s in seeds:
        if not res[modname_of(s)]['ok']:
            raise core.Inconclusive('could not build context module: %s' %
                                    str(res[modname_of(s)])[:400])
    return d


def make_setup(ctx, side, seeds=()):
    setup = {'side': side, 'progdir': os.path.join(ctx.tmp, 'progress')}
    os.makedirs(setup['progdir'], exist_ok=True)
    if side == 'c':
        setup['ctx'] = list(seeds)
        setup['moddir'] = build_ctx_modules(ctx, seeds) if seeds else ctx.tmp
    return setup


def absorb_side(ctx, side, setup, cases, obs, requeue):
    """judge the observations of one side; a case whose child died is attributed to one input
    through the progress file and its other inputs are appended to `requeue`"""
    def rp(detail):
        rc = {'side': side, 'explicit': [detail], 'no': 0}
        if side == 'c':
            rc['ctx'] = setup['ctx']
            if detail[2] == 'repeat':       # the same string three times on the same object
                rc['explicit'] = [detail] * 3
        if isinstance(detail, dict):
            rc['seq'] = True
        return rc

    def text_of(detail):
        return ' ;; '.join(st[1] for st in detail['steps']) if isinstance(detail, dict) else detail[1]
    for c, o in zip(cases, obs):
        if isinstance(o, dict) and '_crash' in o:
            inputs = c['explicit'] if 'explicit' in c else py_inputs(c)
            detail = None
            try:
                with open(os.path.join(setup['progdir'], 'p%d' % c['no']), 'rb') as f:
                    magic, idx = struct.unpack('<II', f.read(8))
                if magic == MAGIC and idx < len(inputs):
                    detail = inputs[idx]
                    requeue.append((inputs[:idx] + inputs[idx + 1:], bool(c.get('seq'))))
                    ctx.case((side, 'died', text_of(detail)),
                             sample={'text': text_of(detail)[:200]})
            except (OSError, struct.error):
                pass
            if detail is None:
                ctx.count('inputs_lost_in_unattributed_crash', len(inputs))
            shown = repr(text_of(detail)[:300]) if detail else '(one input of the case)'
            if side == 'py' and 'Timeout (0:' in o.get('_stderr', ''):
                ctx.count('resource_py_watchdog_kill')
                ctx.note('watchdog (%d s) killed the child in FFI().%s(%s) (resource blow-up, not '
                         'judged)' % (WATCHDOG, ('<history>' if isinstance(detail, dict) else
                                                 detail[0]) if detail else '?', shown))
                continue
            ctx.count('child_crashes')
            fatal = [x for x in core.split_reports(o.get('_san', ''))
                     if x[0].startswith('asan:') and 'ABORTING' in x[2]][-1:]
            for k, frame, block in fatal:
                ctx.san_reports['%s@%s' % (k, frame)] = ctx.san_reports.get(
                    '%s@%s' % (k, frame), 0) + 1
                ctx.violation('sanitizer:%s@%s' % (k, frame), 'the interpreter died (rc=%s) in '
                              'typeof(%s):\n%s' % (o['_crash'], shown, block[:1500]),
                              rp(detail) if detail else c)
            if not fatal:
                ctx.violation('crash:rc=%s' % o['_crash'], 'child died (rc=%s) in %s\n%s' % (
                    o['_crash'], shown, o.get('_stderr', '')[-1200:]), rp(detail) if detail else c)
            continue
        if not core.std_obs_check(ctx, c, o, san_decides=False):
            continue
        reported = set(b[0] for b in o['bad'])
        core.absorb(ctx, c, o, rp)
        for k, frame, block in core.split_reports(o.get('_san', '')):
            key = 'sanitizer:%s@%s' % (k, frame)
            if side == 'c' and not core.is_benign(k, frame, block):
                ctx.san_reports[key[10:]] = ctx.san_reports.get(key[10:], 0) + 1
                if key not in reported:     # not attributed to an input by the child
                    ctx.violation(key, block[:1500], c)


def run_side(ctx, side, setup, cases, variant, **kw):
    for rnd in range(8):
        if not cases:
            return
        obs = core.run_cases(ctx, 'c30', setup, cases, variant=variant, timeout=2400, **kw)
        requeue = []
        absorb_side(ctx, side, setup, cases, obs, requeue)
        cases = [{'side': side, 'no': 100000 * (rnd + 1) + i, 'explicit': rest, 'ctx':
                  setup.get('ctx'), 'seq': seq} for i, (rest, seq) in enumerate(requeue) if rest]
    lost = sum(len(c['explicit']) for c in cases)
    ctx.count('%s_inputs_not_evaluated_after_repeated_child_deaths' % side, lost)
    ctx.note('%d %s-side inputs were not evaluated: the child kept dying' % (lost, side))


# ---- libFuzzer target (harness/fuzz_parse.c + the tree's parse_c_type.c / commontypes.c)

FUZZ_DICT = ['int', 'char', 'long', 'short', 'signed', 'unsigned', 'float', 'double', '_Bool',
             '_Complex', 'void', 'const', 'volatile', 'struct', 'union', 'enum', '__stdcall',
             '__cdecl', '...', '(*)', '[]', '(', ')', '[', ']', ',', '*', 'foo_t', 'my_int', 'zz_t',
             'foo_s', 'bar_u', 'opq', '$1', 'e1', 'e2', 'AA_BIG', 'AA_MAX', 'BB_FOUR', 'CC_NEG',
             'CC_ZERO', 'EE_VAL', 'FF_ODD', 'a_var', 'FILE', '_IO_FILE', 'size_t', 'uint8_t',
             'int_fast16_t', 'uint_least64_t', '_cffi_float_complex_t', 'char16_t', 'wchar_t',
             'ptrdiff_t', 'intmax_t', '0x', '0x7fffffffffffffff', '9223372036854775808', '08']


def fuzz_build(ctx):
    conf = build.pyconf()
    d = os.path.join(ctx.tmp, 'fuzz')
    os.makedirs(os.path.join(d, 'corpus'), exist_ok=True)
    os.makedirs(os.path.join(d, 'reports'), exist_ok=True)
    os.makedirs(os.path.join(d, 'artifacts'), exist_ok=True)
    exe = os.path.join(d, 'fuzz_parse')
    if not os.path.exists(exe):
        cmd = ['clang', '-g', '-O1', '-fno-omit-frame-pointer', '-fsanitize=fuzzer,address,undefined',
               '-fno-sanitize=pointer-overflow,alignment', '-fsanitize-recover=address',
               '-fno-sanitize-recover=undefined', '-I' + conf['inc'],
               '-I' + os.path.join(build.REPO, 'src', 'c'),
               os.path.join(build.VERIF, 'harness', 'fuzz_parse.c'), '-o', exe,
               '-L' + conf['libdir'], '-lpython' + conf['ver'], '-Wl,-rpath,' + conf['libdir']]
        r = subprocess.run(cmd, stdout=subprocess.PIPE, stderr=subprocess.STDOUT)
        if r.returncode != 0:
            raise core.Inconclusive('libFuzzer harness does not build: ' +
                                    r.stdout.decode(errors='replace')[-1500:])
    return d, exe


def fuzz_env(d):
    env = dict(os.environ, C30_REPORT_DIR=os.path.join(d, 'reports'),
               ASAN_OPTIONS='halt_on_error=0:detect_leaks=0:symbolize=1:allocator_may_return_null=1',
               UBSAN_OPTIONS='print_stacktrace=1',
               ASAN_SYMBOLIZER_PATH=build.child_env('plain').get('ASAN_SYMBOLIZER_PATH') or
               '/usr/lib/llvm-14/bin/llvm-symbolizer')
    env.pop('LD_PRELOAD', None)
    return env


def fuzz_start(ctx, seconds):
    d, exe = fuzz_build(ctx)
    r = ctx.rng('fuzz')
    env0 = Env(['foo_t', 'my_int', 'zz_t'], ['foo_s', 'opq', '$1'], ['bar_u'], ['e1', 'e2'],
               ['AA_BIG', 'AA_MAX', 'BB_FOUR', 'CC_NEG', 'CC_ZERO', 'EE_VAL', 'FF_ODD', 'a_var'])
    for i in range(150):
        text = gen_input(r, env0, 'typeof', cparser=True, maxnest=20)[1]
        with open(os.path.join(d, 'corpus', 'seed%d' % i), 'wb') as f:
            f.write(bytes([r.randrange(16)]) + text.encode('utf-8', 'replace')[:300])
    with open(os.path.join(d, 'dict'), 'w') as f:
        f.write(''.join('"%s"\n' % w.replace('\\', '\\\\').replace('"', '\\"') for w in FUZZ_DICT))
    cmd = [exe, '-max_total_time=%d' % seconds, '-max_len=400', '-timeout=20', '-rss_limit_mb=1500',
           '-seed=%d' % (r.getrandbits(31) | 1), '-dict=' + os.path.join(d, 'dict'),
           '-artifact_prefix=' + os.path.join(d, 'artifacts') + os.sep, '-print_final_stats=1',
           os.path.join(d, 'corpus')]
    errf = open(os.path.join(d, 'stderr.txt'), 'wb')
    p = subprocess.Popen(cmd, env=fuzz_env(d), cwd=d, stdout=errf, stderr=errf)
    return {'p': p, 'd': d, 'errf': errf, 'seconds': seconds}


def describe_fuzz_input(data):
    sizes = [1, 2, 3, 5, 8, 16, 64, 1200]
    return 'parse_c_type(%s context, output_size=%d, %r)' % (
        'populated' if data[0] & 1 else 'empty', sizes[(data[0] >> 1) & 7],
        data[1:].split(b'\0')[0].decode('latin-1')) if data else 'parse_c_type(<empty input>)'


def fuzz_judge(ctx, d, rc, err):
    """reports saved by the harness's ASan callback, then a fatal end of the process"""
    rd = os.path.join(d, 'reports')
    best = {}
    for fn in sorted(os.listdir(rd)):
        if not fn.endswith('.txt'):
            continue
        with open(os.path.join(rd, fn), errors='replace') as f:
            text = f.read()
        try:
            with open(os.path.join(rd, fn[:-4] + '.bin'), 'rb') as f:
                data = f.read()
        except OSError:
            data = b''
        for k, frame, block in core.split_reports(text):
            if core.is_benign(k, frame, block):
                continue
            ctx.count('fuzz_sanitizer_reports')
            key = '%s@%s' % (k, frame)
            ctx.san_reports[key] = ctx.san_reports.get(key, 0) + 1
            if key not in best or len(data) < len(best[key][0]):
                best[key] = (data, block)
    for key, (data, block) in sorted(best.items()):
        ctx.violation('sanitizer:' + key, 'libFuzzer target, %s:\n%s' % (
            describe_fuzz_input(data), block[:1500]), {'side': 'fuzz', 'hex': data.hex()})
    if rc == 0:
        return
    arts = sorted(os.listdir(os.path.join(d, 'artifacts')))
    data = b''
    if arts:
        with open(os.path.join(d, 'artifacts', arts[-1]), 'rb') as f:
            data = f.read()
    rcase = {'side': 'fuzz', 'hex': data.hex()}
    if any(a.startswith(('timeout-', 'oom-')) for a in arts):
        ctx.count('resource_fuzz_timeout_or_oom')
        ctx.note('libFuzzer stopped on a timeout/oom unit: ' + describe_fuzz_input(data)[:300])
        return
    if 'C30-HARNESS:' in err:
        line = [l for l in err.splitlines() if 'C30-HARNESS:' in l][0]
        ctx.violation('fuzz:result-index-out-of-range' if 'result index' in line else
                      'fuzz:error-location-out-of-range', 'libFuzzer target, %s: %s' % (
                          describe_fuzz_input(data), line), rcase)
        return
    tail = err[err.rfind('runtime error:') - 200 if 'runtime error:' in err else -6000:]
    fatal = [x for x in core.split_reports(err[-20000:]) if not core.is_benign(*x) and
             ('sanitizer:' + '%s@%s' % (x[0], x[1])) not in [v[0] for v in ctx.violations]]
    if fatal:
        k, frame, block = fatal[-1]
        ctx.violation('sanitizer:%s@%s' % (k, frame), 'libFuzzer target died (rc=%s), %s:\n%s' % (
            rc, describe_fuzz_input(data), block[:1500]), rcase)
    else:
        ctx.violation('fuzz-crash:rc=%s' % rc, 'libFuzzer target died, %s:\n%s' % (
            describe_fuzz_input(data), tail[-1500:]), rcase)


def fuzz_finish(ctx, h):
    try:
        rc = h['p'].wait(timeout=h['seconds'] + 120)
    except subprocess.TimeoutExpired:
        h['p'].kill()
        ctx.inconclusive('libFuzzer target did not stop in time')
        return
    h['errf'].close()
    with open(os.path.join(h['d'], 'stderr.txt'), errors='replace') as f:
        err = f.read()
    m = re.search(r'stat::number_of_executed_units:\s*(\d+)', err)
    units = int(m.group(1)) if m else len(re.findall(r'^#\d+', err, re.M))
    covs = re.findall(r'cov: (\d+) ft: (\d+)', err)
    ctx.count('fuzz_executed_units', units)
    if covs:
        ctx.count('fuzz_coverage_edges', int(covs[-1][0]))
        ctx.count('fuzz_features', int(covs[-1][1]))
    ctx.evaluations += units
    ctx.case('libfuzzer-run', sample={'libfuzzer_units': units, 'cov': covs[-1] if covs else None})
    if units == 0:
        ctx.inconclusive('libFuzzer target executed nothing: ' + err[-400:])
    fuzz_judge(ctx, h['d'], rc, err)


def run(ctx):
    rng = ctx.rng('gen')
    fz = fuzz_start(ctx, 8 if not ctx.thorough else 120)     # runs beside the two other parts
    try:
        run_parts(ctx, rng)
        fuzz_finish(ctx, fz)
    finally:
        if fz['p'].poll() is None:
            fz['p'].kill()


def run_parts(ctx, rng):
    # ---- Python side (plain build, many processes)
    npy = ctx.scale(11000, 160000)
    per = 250 if not ctx.thorough else 2000
    pycases = [{'side': 'py', 'seed': rng.getrandbits(48), 'n': per, 'no': i}
               for i in range(max(1, npy // per))]
    # histories on one FFI object (about 4 calls each)
    nseq = ctx.scale(1200, 14000)
    per = 50 if not ctx.thorough else 500
    pycases += [{'side': 'py', 'seq': True, 'seed': rng.getrandbits(48), 'n': per,
                 'no': len(pycases) + i} for i in range(max(1, nseq // per))]
    run_side(ctx, 'py', make_setup(ctx, 'py'), pycases, 'plain',
             shard_size=max(1, len(pycases) // (core.NPROC * 2)))
    # ---- C side (ASan/UBSan build; one process: sanitized children do not scale here and each
    # one pays the start of the symbolizer at its first report)
    seeds = [rng.getrandbits(30) for _ in range(ctx.scale(3, 10))]
    seeds[0] |= 1               # this context also declares functions and global variables
    seeds[1] &= ~1
    setup = make_setup(ctx, 'c', seeds)
    nc = ctx.scale(40000, 400000)
    per = 2500 if not ctx.thorough else 20000
    ccases = [{'side': 'c', 'no': i, 'ctx': seeds, 'explicit': c_inputs(rng, per, seeds, i < 2)}
              for i in range(max(1, nc // per))]
    # lone surrogates, one input per case: each may kill the child
    sur = [[-1, '\ud800', 'surrogate'], [0, 'int \udc80*', 'surrogate'],
           [-1, 'int(*)(char, \udfffx)', 'surrogate']]
    for d in sur[:1 if not ctx.thorough else 3]:
        ccases.append({'side': 'c', 'no': len(ccases), 'ctx': seeds, 'explicit': [d]})
    run_side(ctx, 'c', setup, ccases, 'asan', nproc=1 if not ctx.thorough else 2)


def replay(ctx, data):
    case = data.get('case')
    if not case:
        print('replay file has no case')
        return
    side = case['side']
    if side == 'fuzz':
        d, exe = fuzz_build(ctx)
        with open(os.path.join(d, 'unit'), 'wb') as f:
            f.write(bytes.fromhex(case['hex']))
        p = subprocess.run([exe, '-artifact_prefix=' + os.path.join(d, 'artifacts') + os.sep,
                            os.path.join(d, 'unit')], env=fuzz_env(d), cwd=d,
                           stdout=subprocess.PIPE, stderr=subprocess.STDOUT, timeout=300)
        print('libFuzzer target on the unit: rc=%s' % p.returncode)
        fuzz_judge(ctx, d, p.returncode, p.stdout.decode(errors='replace'))
        return
    setup = make_setup(ctx, side, case.get('ctx') or ())
    obs = core.run_cases(ctx, 'c30', setup, [case], variant='plain' if side == 'py' else 'asan',
                         nproc=1)
    print('observation:', json.dumps(obs[0], default=repr)[:3000])
    absorb_side(ctx, side, setup, [case], obs, [])
