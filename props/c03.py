"""C03 -- integer stores accept exactly the type's range and round-trip.

Monitor: range model (Python ints) applied to every store path that cffi
implements separately, on the same values; C-side recorder functions of a
compiled helper module echo what C received; byte images of the target
before/after a rejected store.
"""
import os, sys
from vlib import gen, core, modbuild

RULE = ("case = (integer type T, store path, Python int v); T over all standard/<stdint.h> names, "
        "_Bool and three enums; paths: new, ptr-item, array-item, field, ABI global, API global, "
        "API arg, libffi arg, ABI (dlopen) arg, callback result (error=/default), extern-Python "
        "result; v over the boundary lattice (all 2**k +-1, k<=70, type limits +-2, 2**100) and "
        "random ints of up to 130 bits; distinct = (T,path,v); non-trivial = |v| > 1")
ASSUMPTIONS = ["the C recorder functions compiled by gcc report what the C callee received",
               "range of T is taken from gen.INT_TYPES (checked against gcc by C06)"]

ENUMS = [('enum es', 4, True, 'enum es { ES_A = -1, ES_B = 5 };'),
         ('enum eu', 4, False, 'enum eu { EU_A = 0, EU_B = 3000000000 };'),
         ('enum el', 8, True, 'enum el { EL_A = -1, EL_B = 5000000000 };')]
TYPES = [(t, s, sg) for (t, s, sg) in gen.INT_TYPES] + [('_Bool', 1, False)] + \
    [(e[0], e[1], e[2]) for e in ENUMS]
PATHS = ['new', 'ptritem', 'arrayitem', 'field', 'abiglobal', 'apiglobal', 'apiarg',
         'ffiarg', 'abiarg', 'callback_err', 'callback_noerr', 'externpy']


SLOW_PATHS = ('callback_err', 'callback_noerr', 'externpy')


def ident(T):
    return T.replace(' ', '_')


def trange(T, size, signed):
    if T == '_Bool':
        return 0, 1
    return gen.int_range(size, signed)


def module_spec(d):
    cdef, src = [], []
    for e in ENUMS:
        cdef.append(e[3])
        src.append(e[3])
    src.append('long long last_s; unsigned long long last_u;')
    cdef.append('long long last_s; unsigned long long last_u;')
    for T, size, signed in TYPES:
        N = ident(T)
        src.append('''
%(T)s g_%(N)s;
%(T)s id_%(N)s(%(T)s x) { last_s = (long long)x; last_u = (unsigned long long)x; return x; }
%(T)s call_%(N)s(%(T)s (*cb)(void)) { return cb(); }
static %(T)s ep_%(N)s(void);
%(T)s callep_%(N)s(void) { return ep_%(N)s(); }
struct st_%(N)s { char pad; %(T)s f; char pad2; };
''' % {'T': T, 'N': N})
        cdef.append('''
%(T)s g_%(N)s;
%(T)s id_%(N)s(%(T)s x);
%(T)s call_%(N)s(%(T)s (*cb)(void));
extern "Python" %(T)s ep_%(N)s(void);
%(T)s callep_%(N)s(void);
struct st_%(N)s { char pad; %(T)s f; char pad2; };
''' % {'T': T, 'N': N})
    return {'name': '_c03mod', 'kind': 'api', 'cdef': '\n'.join(cdef),
            'source': '#include <stdint.h>\n#include <sys/types.h>\n#include <stddef.h>\n'
                      + '\n'.join(src), 'dir': d}


def generate(ctx):
    rng = ctx.rng('gen')
    d = os.path.join(ctx.tmp, 'mod')
    spec = module_spec(d)
    san = ctx.thorough
    res = modbuild.build_modules(ctx, [spec])['_c03mod']
    if not res['ok']:
        raise core.Inconclusive('helper module build failed: ' + res['error'] + res.get('log', ''))
    nrand = ctx.scale(40, 4000)
    cases = []
    for T, size, signed in TYPES:
        lo, hi = trange(T, size, signed)
        vals = set(gen.lattice(lo, hi))
        for _ in range(nrand):
            vals.add(gen.rand_int(rng))
            vals.add(rng.randint(lo, hi))
        vals = sorted(vals)
        cbvals = sorted(set(gen.small_lattice(lo, hi)) |
                        set(rng.sample(vals, min(len(vals), ctx.scale(20, 400)))))
        for path in PATHS:
            cases.append({'T': T, 'size': size, 'signed': signed, 'path': path,
                          'vals': cbvals if path in SLOW_PATHS else vals})
    rng.shuffle(cases)
    return {'dir': d, 'cdef': spec['cdef']}, cases


def child_setup(setup, wd):
    sys.path.insert(0, setup['dir'])
    import _c03mod
    from cffi import FFI
    affi = FFI()
    # ABI view of the same shared object: globals and functions only
    import re
    cdef = re.sub(r'extern "Python"[^;]*;', '', setup['cdef'])
    affi.cdef(cdef)
    alib = affi.dlopen(_c03mod.__file__)
    sys.stderr = open(os.devnull, 'w')
    sys.unraisablehook = lambda *a: None
    return {'ffi': _c03mod.ffi, 'lib': _c03mod.lib, 'affi': affi, 'alib': alib, 'ep': {}}


def child_case(st, case):
    ffi, lib, affi, alib = st['ffi'], st['lib'], st['affi'], st['alib']
    T, path, size, signed = case['T'], case['path'], case['size'], case['signed']
    N = ident(T)
    lo, hi = trange(T, size, signed)
    bad = []
    counts = {'accepted': 0, 'rejected': 0}
    ERRV = 1 if T == '_Bool' else (hi - 3 if hi > 10 else 3)
    cur = {}
    if path == 'externpy':
        @ffi.def_extern(name='ep_' + N, error=ERRV)
        def _ep():
            return cur['v']

    def norm(x):
        if isinstance(x, bool):
            return int(x)
        return x

    def rep(mech, msg, v):
        if len(bad) < 25:
            bad.append([mech, msg, v])
    for v in case['vals']:
        inr = lo <= v <= hi
        target = None      # (cdata whose bytes must stay unchanged on rejection)
        got = None
        exc = None
        before = None
        try:
            if path == 'new':
                p = ffi.new(T + ' *', v)
                got = p[0]
            elif path == 'ptritem':
                p = ffi.new(T + ' *')
                if not inr:
                    ffi.buffer(p)[:] = b'\x5a' * size
                target = p
                before = bytes(ffi.buffer(p))
                p[0] = v
                got = p[0]
            elif path == 'arrayitem':
                p = ffi.new(T + '[3]')
                ffi.buffer(p)[:] = b'\xa5' * (3 * size)
                target = p
                before = bytes(ffi.buffer(p))
                p[1] = v
                got = p[1]
                b = bytes(ffi.buffer(p))
                if b[:size] != before[:size] or b[2 * size:] != before[2 * size:]:
                    rep('neighbour-changed', '%s array item store of %d changed neighbours' %
                        (T, v), v)
            elif path == 'field':
                p = ffi.new('struct st_%s *' % N)
                ffi.buffer(p)[:] = b'\x3c' * ffi.sizeof(p[0])
                target = p
                before = bytes(ffi.buffer(p))
                p.f = v
                got = p.f
                if p.pad != b'\x3c' or p.pad2 != b'\x3c':
                    rep('neighbour-changed', '%s field store of %d changed neighbours' % (T, v),
                        v)
            elif path == 'abiglobal':
                name = 'g_' + N
                target = affi.addressof(alib, name)
                before = bytes(affi.buffer(target))
                setattr(alib, name, v)
                got = getattr(alib, name)
                if norm(getattr(lib, name)) != norm(got):
                    rep('global-views-differ', '%s: ABI global reads %r, API reads %r' %
                        (T, got, getattr(lib, name)), v)
            elif path == 'apiglobal':
                name = 'g_' + N
                target = ffi.addressof(lib, name)
                before = bytes(ffi.buffer(target))
                setattr(lib, name, v)
                got = getattr(lib, name)
            elif path in ('apiarg', 'ffiarg', 'abiarg'):
                lib.last_s = 777
                lib.last_u = 777
                if path == 'apiarg':
                    f = getattr(lib, 'id_' + N)
                elif path == 'ffiarg':
                    f = ffi.addressof(lib, 'id_' + N)
                else:
                    f = getattr(alib, 'id_' + N)
                got = f(v)
                rec = lib.last_s if (signed and T != '_Bool') else lib.last_u
                if rec != v:
                    rep('c-received-differs', '%s via %s: passed %d, C received %d' %
                        (T, path, v, rec), v)
            elif path in ('callback_err', 'callback_noerr'):
                if path == 'callback_err':
                    cb = ffi.callback(T + '(void)', lambda: v, error=ERRV)
                    expect_err = ERRV
                else:
                    cb = ffi.callback(T + '(void)', lambda: v)
                    expect_err = 0
                got = getattr(lib, 'call_' + N)(cb)
                if not inr:
                    if norm(got) != expect_err:
                        rep('callback-error-value', '%s callback returned out-of-range %d: C '
                            'caller received %r, expected error value %r' %
                            (T, v, got, expect_err), v)
                    counts['rejected'] += 1
                    continue
            elif path == 'externpy':
                cur['v'] = v
                got = getattr(lib, 'callep_' + N)()
                if not inr:
                    if norm(got) != ERRV:
                        rep('externpy-error-value', '%s extern "Python" returned out-of-range '
                            '%d: C caller received %r, expected %r' % (T, v, got, ERRV), v)
                    counts['rejected'] += 1
                    continue
        except Exception as e:
            exc = type(e).__name__
        if inr:
            counts['accepted'] += 1
            if exc is not None:
                rep('inrange-rejected', '%s via %s: in-range %d raised %s' % (T, path, v, exc), v)
            elif norm(got) != v:
                rep('readback', '%s via %s: stored %d, read %r' % (T, path, v, got), v)
            elif T == '_Bool' and not isinstance(got, bool):
                rep('readback-type', '_Bool read back as %r' % (got,), v)
        else:
            counts['rejected'] += 1
            if exc is None:
                rep('outofrange-accepted', '%s via %s: out-of-range %d accepted (reads %r)' %
                    (T, path, v, got), v)
            elif exc != 'OverflowError':
                rep('wrong-exception', '%s via %s: out-of-range %d raised %s' %
                    (T, path, v, exc), v)
            if target is not None:
                buf = affi.buffer(target) if path == 'abiglobal' else ffi.buffer(target)
                if bytes(buf) != before:
                    rep('rejected-store-changed-memory', '%s via %s: rejected %d changed the '
                        'target %s -> %s' % (T, path, v, before.hex(), bytes(buf).hex()), v)
    return {'bad': bad, 'counts': counts}


def judge(ctx, setup, case, obs):
    T, path = case['T'], case['path']
    for v in case['vals']:
        ctx.case((T, path, v), nontrivial=abs(v) > 1)
    if len(ctx.samples) < 10:
        ctx.samples.append({'T': T, 'path': path, 'values': case['vals'][::max(1, len(case['vals']) // 8)]})
    ctx.count('path_' + path, len(case['vals']))
    for k, n in obs['counts'].items():
        ctx.count(k, n)
    for mech, msg, v in obs['bad']:
        c = dict(case)
        c['vals'] = [v]
        ctx.violation('%s:%s' % (mech, path), msg, c)


def replay_setup(ctx, case):
    d = os.path.join(ctx.tmp, 'mod')
    spec = module_spec(d)
    res = modbuild.build_modules(ctx, [spec])['_c03mod']
    if not res['ok']:
        raise core.Inconclusive('helper module build failed: ' + res['error'])
    return {'dir': d, 'cdef': spec['cdef']}
