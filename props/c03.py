"""C03 -- integer stores accept exactly the type's range and round-trip.

Monitor: range model (Python ints) applied to every store path that cffi
implements separately, on the same values; C-side recorder functions of a
compiled helper module echo what C received; byte images of the target
before/after a rejected store.

Store paths (every one is judged by the same model):
  memory      new, ptr item, array item, field, list/tuple array initializers,
              list/dict struct initializers, nested struct / union / array
              fields (assignment and initializer forms), slice assignment,
              unaligned targets (odd pointer, packed struct, from_buffer);
  globals     in-line ABI (dlopen), API module, out-of-line ABI module;
  arguments   one-argument and multi-argument functions, pointer arguments
              given as list/tuple, by-value struct arguments given as list/dict,
              fixed argument of a variadic function -- each through the API
              wrapper, libffi (addressof), in-line ABI, out-of-line ABI, and the
              one-argument case also through an ffi.verify() module;
  results     callback (error=/default/onerror=, API- and ABI-mode ffi, called
              from C and from Python), extern "Python" (error=/onerror=).
Value forms: exact int, int subclass, bool.
"""
import os, sys, json, subprocess, threading
from vlib import gen, core, modbuild, build

RULE = ("case = (integer type T, store path, Python int v); T over all standard/<stdint.h> names, "
        "_Bool and four enums; paths: new, ptr-item, array-item, field, ABI global, API global, "
        "API arg, libffi arg, ABI (dlopen) arg, callback result (error=/default), extern-Python "
        "result [full value set]; list/tuple/dict initializers, nested/union/array fields, slice "
        "assignment, unaligned targets, int-subclass/bool value forms, out-of-line-ABI global/arg, "
        "ffi.verify() arg, multi-arg / pointer(list) / by-value-struct / variadic-fixed args through "
        "API wrapper, libffi, ABI; callback onerror=, ABI-mode callback, extern-Python onerror= "
        "[medium value set]; v over the boundary lattice (all 2**k +-1, k<=70, type limits +-1, "
        "2**100) and random ints of up to 130 bits; error values drawn per case from the type's "
        "range; distinct = (T,path,v); non-trivial = |v| > 1")
ASSUMPTIONS = ["the C recorder functions compiled by gcc report what the C callee received",
               "range of T is taken from gen.INT_TYPES (checked against gcc by C06)",
               "little/big endian two's complement byte image of T as given by sys.byteorder"]

ENUMS = [('enum es', 4, True, 'enum es { ES_A = -1, ES_B = 5 };'),
         ('enum eu', 4, False, 'enum eu { EU_A = 0, EU_B = 3000000000 };'),
         ('enum el', 8, True, 'enum el { EL_A = -1, EL_B = 5000000000 };'),
         ('enum eul', 8, False, 'enum eul { EUL_A = 0, EUL_B = 10000000000000000000 };')]
TYPES = [(t, s, sg) for (t, s, sg) in gen.INT_TYPES] + [('_Bool', 1, False)] + \
    [(e[0], e[1], e[2]) for e in ENUMS]

# paths that get the full value set
PATHS = ['new', 'ptritem', 'arrayitem', 'field', 'abiglobal', 'apiglobal', 'apiarg',
         'ffiarg', 'abiarg', 'callback_err', 'callback_noerr', 'externpy']
SLOW_PATHS = ('callback_err', 'callback_noerr', 'externpy')
# paths added for the other entry points / input forms: medium value set
MED_PATHS = ['newarray', 'newstruct', 'nested', 'slice', 'unaligned', 'forms',
             'oolglobal', 'oolarg', 'verifyarg',
             'apiarg2', 'ffiarg2', 'abiarg2', 'oolarg2',
             'apiptrarg', 'ffiptrarg', 'abiptrarg',
             'apistructarg', 'ffistructarg', 'abistructarg',
             'apivararg', 'abivararg',
             'callback_onerror', 'callback_abi', 'externpy_onerror', 'apidots']

# (kind, how) of the call-argument paths
CALL_PATHS = {
    'apiarg': ('arg', 'api'), 'ffiarg': ('arg', 'ffi'), 'abiarg': ('arg', 'abi'),
    'oolarg': ('arg', 'ool'), 'verifyarg': ('arg', 'verify'),
    'apiarg2': ('arg2', 'api'), 'ffiarg2': ('arg2', 'ffi'), 'abiarg2': ('arg2', 'abi'),
    'oolarg2': ('arg2', 'ool'),
    'apiptrarg': ('ptrarg', 'api'), 'ffiptrarg': ('ptrarg', 'ffi'), 'abiptrarg': ('ptrarg', 'abi'),
    'apistructarg': ('structarg', 'api'), 'ffistructarg': ('structarg', 'ffi'),
    'abistructarg': ('structarg', 'abi'),
    'apivararg': ('vararg', 'api'), 'abivararg': ('vararg', 'abi'),
}
FUNC_PREFIX = {'arg': 'id_', 'arg2': 'pick_', 'ptrarg': 'at_', 'structarg': 'sf_',
               'vararg': 'vf_'}
SENTINEL = 777


def ident(T):
    return T.replace(' ', '_')


def trange(T, size, signed):
    if T == '_Bool':
        return 0, 1
    return gen.int_range(size, signed)


def enum_decl(T):
    for e in ENUMS:
        if e[0] == T:
            return e[3]
    return ''


def module_spec(d):
    cdef, src = [], []
    for e in ENUMS:
        cdef.append(e[3])
        src.append(e[3])
    src.append('long long last_s; unsigned long long last_u; long last_k;')
    cdef.append('long long last_s; unsigned long long last_u; long last_k;')
    for T, size, signed in TYPES:
        N = ident(T)
        src.append('''
struct st_%(N)s { char pad; %(T)s f; char pad2; };
%(T)s g_%(N)s;
#define REC_%(N)s(x) (last_s = (long long)(x), last_u = (unsigned long long)(x))
%(T)s id_%(N)s(%(T)s x) { REC_%(N)s(x); return x; }
%(T)s pick_%(N)s(signed char k, %(T)s a, short m, %(T)s b)
{ %(T)s r = k ? b : a; REC_%(N)s(r); last_k = k * 1000 + m; return r; }
%(T)s at_%(N)s(%(T)s *p, int i) { %(T)s r = p[i]; REC_%(N)s(r); last_k = i; return r; }
%(T)s sf_%(N)s(struct st_%(N)s s) { REC_%(N)s(s.f); last_k = s.pad + 256 * s.pad2; return s.f; }
%(T)s vf_%(N)s(%(T)s x, ...) { REC_%(N)s(x); return x; }
%(T)s call_%(N)s(%(T)s (*cb)(void)) { return cb(); }
static %(T)s ep_%(N)s(void);
%(T)s callep_%(N)s(void) { return ep_%(N)s(); }
''' % {'T': T, 'N': N})
        cdef.append('''
struct st_%(N)s { char pad; %(T)s f; char pad2; };
%(T)s g_%(N)s;
%(T)s id_%(N)s(%(T)s x);
%(T)s pick_%(N)s(signed char k, %(T)s a, short m, %(T)s b);
%(T)s at_%(N)s(%(T)s *p, int i);
%(T)s sf_%(N)s(struct st_%(N)s s);
%(T)s vf_%(N)s(%(T)s x, ...);
%(T)s call_%(N)s(%(T)s (*cb)(void));
extern "Python" %(T)s ep_%(N)s(void);
%(T)s callep_%(N)s(void);
''' % {'T': T, 'N': N})
    return {'name': '_c03mod', 'kind': 'api', 'cdef': '\n'.join(cdef),
            'source': '#include <stdint.h>\n#include <sys/types.h>\n#include <stddef.h>\n'
                      + '\n'.join(src), 'dir': d}


# 'typedef int... T': the generated module finds size and signedness with the C compiler;
# stores through T must then have exactly the range of the real type (API mode only)
DOTS = {'unsigned char': 'd_u8', 'signed char': 'd_s8', 'unsigned short': 'd_u16', 'short': 'd_s16',
        'unsigned int': 'd_u32', 'int': 'd_s32', 'unsigned long long': 'd_u64', 'long': 'd_s64'}


def dots_spec(d):
    cdef, src = [], []
    for T, D in sorted(DOTS.items()):
        cdef.append('typedef int... %(D)s; %(D)s g_%(D)s; %(D)s get_%(D)s(void); '
                    'struct sd_%(D)s { char pad; %(D)s f; char pad2; }; '
                    'long long fld_%(D)s(struct sd_%(D)s *p);' % {'D': D})
        src.append('typedef %(T)s %(D)s; %(D)s g_%(D)s; %(D)s get_%(D)s(void) { return g_%(D)s; } '
                   'struct sd_%(D)s { char pad; %(D)s f; char pad2; }; '
                   'long long fld_%(D)s(struct sd_%(D)s *p) { return (long long)p->f; }'
                   % {'T': T, 'D': D})
    return {'name': '_c03dots', 'kind': 'api', 'cdef': '\n'.join(cdef), 'source': '\n'.join(src),
            'dir': d}


def dots_case(st, case):
    """path 'apidots': T is reached through its 'typedef int...' name"""
    ffi, lib = st['dffi'], st['dlib']
    T, size, signed = case['T'], case['size'], case['signed']
    D = DOTS.get(T)
    bad, counts = [], {'accepted': 0, 'rejected': 0}
    if D is None:
        return {'bad': bad, 'counts': {'apidots_type_without_dots_typedef': 1}}
    lo, hi = trange(T, size, signed)
    mask = (1 << (8 * size)) - 1
    if ffi.sizeof(D) != size:
        bad.append(('dots-typedef-size', 'sizeof(%s) = %d, the C type %s has %d' %
                    (D, ffi.sizeof(D), T, size), case['vals'][0]))
    p = ffi.new(D + ' *')
    s = ffi.new('struct sd_%s *' % D)
    for i, v in enumerate(case['vals']):
        ok = lo <= v <= hi
        form = i % 4
        before = (p[0], s.f, getattr(lib, 'g_' + D))
        try:
            if form == 0:
                q = ffi.new(D + ' *', v)
                got, cgot = q[0], None
            elif form == 1:
                p[0] = v
                got, cgot = p[0], None
            elif form == 2:
                s.f = v
                got, cgot = s.f, getattr(lib, 'fld_' + D)(s)
            else:
                setattr(lib, 'g_' + D, v)
                got, cgot = getattr(lib, 'g_' + D), getattr(lib, 'get_' + D)()
            raised = None
        except OverflowError:
            raised = 'OverflowError'
        except Exception as e:
            raised = type(e).__name__
        fname = ('new', 'item', 'field', 'global')[form]
        counts['apidots_' + fname] = counts.get('apidots_' + fname, 0) + 1
        if ok:
            counts['accepted'] += 1
            if raised:
                bad.append(('inrange-rejected', '%s (typedef int... for %s) via %s: in-range %d '
                            'raised %s' % (D, T, fname, v, raised), v))
            elif got != v or (cgot is not None and (cgot & mask) != (v & mask)):
                bad.append(('readback', '%s (typedef int... for %s) via %s: stored %d, read %r, C '
                            'reads %r' % (D, T, fname, v, got, cgot), v))
        else:
            counts['rejected'] += 1
            if raised is None:
                bad.append(('outofrange-accepted', '%s (typedef int... for %s) via %s: out-of-range '
                            '%d was accepted (read back %r)' % (D, T, fname, v, got), v))
            elif raised != 'OverflowError':
                bad.append(('wrong-exception', '%s via %s: out-of-range %d raised %s' %
                            (D, fname, v, raised), v))
            elif (p[0], s.f, getattr(lib, 'g_' + D)) != before:
                bad.append(('rejected-store-changed-memory', '%s via %s: rejected %d changed the '
                            'target' % (D, fname, v), v))
    return {'bad': bad, 'counts': counts}


def abi_cdef(cdef):
    import re
    return re.sub(r'extern "Python"[^;]*;', '', cdef)


def ool_spec(d, cdef):
    """Out-of-line ABI module (pure Python) describing the same shared object."""
    return {'name': '_c03ool', 'kind': 'abi', 'cdef': abi_cdef(cdef), 'source': None, 'dir': d}


def verify_parts():
    """cdef and source of the module built with the old ffi.verify() engine."""
    cdef, src = [], ['#include <stdint.h>\n#include <sys/types.h>\n#include <stddef.h>']
    for e in ENUMS:
        cdef.append(e[3])
        src.append(e[3])
    cdef.append('long long vlast_s; unsigned long long vlast_u;')
    src.append('long long vlast_s; unsigned long long vlast_u;')
    for T, size, signed in TYPES:
        N = ident(T)
        cdef.append('%s vid_%s(%s x);' % (T, N, T))
        src.append('%s vid_%s(%s x) { vlast_s = (long long)x; vlast_u = (unsigned long long)x; '
                   'return x; }' % (T, N, T))
    return '\n'.join(cdef), '\n'.join(src)


_VERIFY_BUILDER = r'''
import sys, json, warnings
warnings.simplefilter('ignore')
spec = json.load(open(sys.argv[1]))
from cffi import FFI
from cffi.verifier import Verifier
ffi = FFI()
ffi.cdef(spec['cdef'])
v = Verifier(ffi, spec['source'], tmpdir=spec['tmpdir'])
v.load_library()
json.dump({'ok': True, 'file': v.modulefilename}, open(sys.argv[1] + '.result', 'w'))
'''


def build_verify(ctx, d):
    """Compile the ffi.verify() module in a plain child; the sanitized children
    find the compiled file by its hash and only load it."""
    os.makedirs(d, exist_ok=True)
    cdef, src = verify_parts()
    p = os.path.join(d, 'verify.spec.json')
    with open(p, 'w') as f:
        json.dump({'cdef': cdef, 'source': src, 'tmpdir': d}, f)
    try:
        r = subprocess.run(build.python_cmd('plain') + ['-c', _VERIFY_BUILDER, p],
                           env=build.child_env('plain'), cwd=d, stdout=subprocess.PIPE,
                           stderr=subprocess.STDOUT, timeout=600)
        with open(p + '.result') as f:
            return json.load(f)
    except (OSError, ValueError, subprocess.TimeoutExpired) as e:
        return {'ok': False, 'error': '%s: %s' % (type(e).__name__, str(e)[-500:])}


def build_all(ctx):
    d = os.path.join(ctx.tmp, 'mod')
    spec = module_spec(d)
    vres = {}
    th = threading.Thread(target=lambda: vres.update(build_verify(ctx, os.path.join(d, 'verify'))))
    th.start()
    res = modbuild.build_modules(ctx, [spec, ool_spec(d, spec['cdef']), dots_spec(d)])
    th.join()
    if not res['_c03mod']['ok']:
        raise core.Inconclusive('helper module build failed: ' + res['_c03mod']['error'] +
                                res['_c03mod'].get('log', ''))
    if not res['_c03dots']['ok']:
        raise core.Inconclusive("'typedef int...' module build failed: " + res['_c03dots']['error'] +
                                res['_c03dots'].get('log', '')[-800:])
    if not res['_c03ool']['ok']:
        raise core.Inconclusive('out-of-line ABI module build failed: ' + res['_c03ool']['error'])
    if not vres.get('ok'):
        raise core.Inconclusive('ffi.verify() module build failed: ' + str(vres.get('error')))
    return {'dir': d, 'cdef': spec['cdef'], 'vdir': os.path.join(d, 'verify')}


def err_candidates(T, lo, hi, signed):
    if T == '_Bool':
        return [1]
    c = [hi - 3 if hi > 10 else 3, lo, hi, lo + 1, hi - 1]
    if signed:
        c += [-2, -1]
    return [x for x in c if lo <= x <= hi and x != 0]


def generate(ctx):
    rng = ctx.rng('gen')
    setup = build_all(ctx)
    nrand = ctx.scale(40, 4000)
    cases = []
    for T, size, signed in TYPES:
        lo, hi = trange(T, size, signed)
        vals = set(gen.lattice(lo, hi))
        for _ in range(nrand):
            vals.add(gen.rand_int(rng))
            vals.add(rng.randint(lo, hi))
        vals = sorted(vals)
        cbvals = sorted(set(gen.small_lattice(lo, hi)) |
                        set(rng.sample(vals, min(len(vals), ctx.scale(20, 400)))))
        errs = err_candidates(T, lo, hi, signed)
        for path in PATHS:
            v = list(cbvals if path in SLOW_PATHS else vals)
            if rng.random() < 0.5:
                rng.shuffle(v)       # history: rejected/accepted stores in any order
            cases.append({'T': T, 'size': size, 'signed': signed, 'path': path, 'vals': v,
                          'errv': rng.choice(errs)})
        for path in MED_PATHS:
            v = sorted(set(gen.small_lattice(lo, hi)) |
                       set(rng.sample(vals, min(len(vals), ctx.scale(10, 300)))))
            rng.shuffle(v)
            cases.append({'T': T, 'size': size, 'signed': signed, 'path': path, 'vals': v,
                          'errv': rng.choice(errs)})
    rng.shuffle(cases)
    return setup, cases


def child_setup(setup, wd):
    sys.path.insert(0, setup['dir'])
    import warnings
    warnings.simplefilter('ignore')
    import _c03mod
    import _c03ool
    from cffi import FFI
    affi = FFI()
    # in-line ABI view of the same shared object: globals and functions only
    affi.cdef(abi_cdef(setup['cdef']))
    alib = affi.dlopen(_c03mod.__file__)
    # out-of-line ABI view
    olib = _c03ool.ffi.dlopen(_c03mod.__file__)
    # ffi.verify() module: compiled by the parent's builder, only loaded here
    vffi, vlib = None, None
    from cffi.verifier import Verifier
    vcdef, vsrc = verify_parts()
    vffi = FFI()
    vffi.cdef(vcdef)
    ver = Verifier(vffi, vsrc, tmpdir=setup['vdir'])
    if os.path.exists(ver.modulefilename):
        vlib = ver.load_library()
    sys.stderr = open(os.devnull, 'w')
    sys.unraisablehook = lambda *a: None
    import _c03dots
    return {'dffi': _c03dots.ffi, 'dlib': _c03dots.lib,
            'ffi': _c03mod.ffi, 'lib': _c03mod.lib, 'affi': affi, 'alib': alib,
            'offi': _c03ool.ffi, 'olib': olib, 'vffi': vffi, 'vlib': vlib, 'nested': {}}


class MyInt(int):
    """A plain subclass of int: still a Python int whose value is the int's value."""
    __slots__ = ()


NESTED_CDEF = '''
struct in_s { %(T)s f; };
union un_s { char ch; %(T)s u; };
struct nest { char c; struct in_s inn; %(T)s arr[3]; union un_s un; struct in_s sa[2]; };
'''
PACKED_CDEF = 'struct pk { char c; %(T)s f; char d; };'


def nested_ffi(st, T):
    nf = st['nested'].get(T)
    if nf is None:
        from cffi import FFI
        nf = FFI()
        nf.cdef(enum_decl(T) + NESTED_CDEF % {'T': T})
        nf.cdef(PACKED_CDEF % {'T': T}, packed=True)
        st['nested'][T] = nf
    return nf


def child_case(st, case):
    ffi, lib, affi, alib = st['ffi'], st['lib'], st['affi'], st['alib']
    offi, olib, vffi, vlib = st['offi'], st['olib'], st['vffi'], st['vlib']
    T, path, size, signed = case['T'], case['path'], case['size'], case['signed']
    if path == 'apidots':
        return dots_case(st, case)
    N = ident(T)
    lo, hi = trange(T, size, signed)
    isbool = (T == '_Bool')
    csigned = signed and not isbool
    bad = []
    counts = {'accepted': 0, 'rejected': 0}
    ERRV = case.get('errv')
    if ERRV is None:
        ERRV = 1 if isbool else (hi - 3 if hi > 10 else 3)
    # in-range neighbour values and a second in-range value W != ERRV
    A, B = lo, hi
    W = hi - 1 if hi - 1 not in (0, ERRV) else (hi if hi != ERRV else 1)
    cur = {}
    fill = bytes([0x5a]) * 64
    # type class used in one mechanism key: unsigned and narrower than a libffi 'ffi_arg'
    SMALLU = '-unsigned-small' if (not csigned and size < 8) else ''

    def stat(name, n=1):
        counts[name] = counts.get(name, 0) + n

    def onerror_handler(exc, val, tb):
        cur['onerr'].append(getattr(exc, '__name__', repr(exc)))
        mode = cur['mode']
        if mode == 0:
            return None
        if mode == 1:
            return W
        return cur['v']          # mode 2: an out-of-range result from onerror itself

    if path == 'externpy':
        @ffi.def_extern(name='ep_' + N, error=ERRV)
        def _ep():
            return cur['v']
    elif path == 'externpy_onerror':
        @ffi.def_extern(name='ep_' + N, error=ERRV, onerror=onerror_handler)
        def _ep2():
            return cur['v']

    def norm(x):
        if isinstance(x, bool):
            return int(x)
        return x

    def rep(mech, msg, v):
        if len(bad) < 25:
            bad.append([mech, msg, v])

    def image(b):
        if isbool:
            return b[0]
        return int.from_bytes(b, sys.byteorder, signed=csigned)

    def recorded(how):
        if how == 'verify':
            return vlib.vlast_s if csigned else vlib.vlast_u
        return lib.last_s if csigned else lib.last_u

    def reset_recorders(how):
        if how == 'verify':
            vlib.vlast_s = SENTINEL
            vlib.vlast_u = SENTINEL
        else:
            lib.last_s = SENTINEL
            lib.last_u = SENTINEL
            lib.last_k = SENTINEL

    def func(kind, how):
        name = FUNC_PREFIX[kind] + N
        if how == 'api':
            return getattr(lib, name), ffi
        if how == 'ffi':
            f = getattr(lib, name)
            if kind != 'vararg':
                f = ffi.addressof(lib, name)
            return f, ffi
        if how == 'abi':
            return getattr(alib, name), affi
        if how == 'ool':
            return getattr(olib, name), offi
        if how == 'verify':
            return getattr(vlib, 'vid_' + N), vffi
        raise ValueError(how)

    if path == 'verifyarg' and vlib is None:
        return {'bad': bad, 'counts': {'verify_module_missing': 1}, 'skipped': True}

    for idx, v in enumerate(case['vals']):
        inr = lo <= v <= hi
        target = None      # cdata / buffer whose bytes must stay unchanged on rejection
        tbuf = None        # callable returning the current bytes of the target
        keep = None        # list of (offset, length) that must be unchanged (None: everything)
        imgat = None       # offset of the stored item inside the target (byte-image oracle)
        post = None        # extra checks after an accepted store
        got = None
        exc = None
        before = None
        ep = path          # effective path
        V = v              # the object handed to cffi
        callhow = None
        if path == 'forms':
            ep = ('new', 'ptritem', 'apiarg', 'ffiarg', 'field', 'apiglobal')[idx % 6]
            if v in (0, 1) and idx % 2:
                V = bool(v)
                stat('form_bool')
            else:
                V = MyInt(v)
                stat('form_intsubclass')
        try:
            if ep == 'new':
                p = ffi.new(T + ' *', V)
                got = p[0]
                target, imgat = p, 0
            elif ep == 'ptritem':
                p = ffi.new(T + ' *')
                if not inr:
                    ffi.buffer(p)[:] = b'\x5a' * size
                target, imgat = p, 0
                before = bytes(ffi.buffer(p))
                p[0] = V
                got = p[0]
            elif ep == 'arrayitem':
                p = ffi.new(T + '[3]')
                ffi.buffer(p)[:] = b'\xa5' * (3 * size)
                target, imgat = p, size
                before = bytes(ffi.buffer(p))
                p[1] = V
                got = p[1]
                b = bytes(ffi.buffer(p))
                if b[:size] != before[:size] or b[2 * size:] != before[2 * size:]:
                    rep('neighbour-changed', '%s array item store of %d changed neighbours' %
                        (T, v), v)
            elif ep == 'field':
                p = ffi.new('struct st_%s *' % N)
                ffi.buffer(p)[:] = b'\x3c' * ffi.sizeof(p[0])
                target, imgat = p, ffi.offsetof('struct st_' + N, 'f')
                before = bytes(ffi.buffer(p))
                p.f = V
                got = p.f
                if p.pad != b'\x3c' or p.pad2 != b'\x3c':
                    rep('neighbour-changed', '%s field store of %d changed neighbours' % (T, v),
                        v)
            elif ep == 'newarray':
                form = idx % 4
                stat('newarray_form%d' % form)
                if form == 0:
                    p = ffi.new(T + '[]', [A, V, B])
                    got, rest = p[1], [(0, A), (2, B)]
                elif form == 1:
                    p = ffi.new(T + '[3]', (A, V, B))
                    got, rest = p[1], [(0, A), (2, B)]
                elif form == 2:
                    p = ffi.new(T + '[4]', [B, V])
                    got, rest = p[1], [(0, B), (2, 0), (3, 0)]
                else:
                    p = ffi.new(T + '[]', (V,))
                    got, rest = p[0], []
                    if len(p) != 1:
                        rep('neighbour-changed', '%s[] from a 1-tuple has length %d' %
                            (T, len(p)), v)
                for i, w in rest:
                    if norm(p[i]) != w:
                        rep('neighbour-changed', '%s array initializer with %d: item %d reads '
                            '%r, expected %d' % (T, v, i, p[i], w), v)
                target, imgat = p, (0 if form == 3 else size)
            elif ep == 'newstruct':
                form = idx % 4
                stat('newstruct_form%d' % form)
                sname = 'struct st_%s *' % N
                if form == 0:
                    p = ffi.new(sname, [b'a', V, b'b'])
                    pads = (b'a', b'b')
                elif form == 1:
                    p = ffi.new(sname, {'f': V})
                    pads = (b'\x00', b'\x00')
                elif form == 2:
                    p = ffi.new(sname, {'pad2': b'z', 'f': V, 'pad': b'y'})
                    pads = (b'y', b'z')
                else:
                    p = ffi.new(sname, (b'q', V))
                    pads = (b'q', b'\x00')
                got = p.f
                if (p.pad, p.pad2) != pads:
                    rep('neighbour-changed', '%s struct initializer with %d: pads read %r' %
                        (T, v, (p.pad, p.pad2)), v)
                target, imgat = p, ffi.offsetof('struct st_' + N, 'f')
            elif ep == 'nested':
                nf = nested_ffi(st, T)
                form = idx % 12
                stat('nested_form%d' % form)
                o_inn = nf.offsetof('struct nest', 'inn')
                o_arr = nf.offsetof('struct nest', 'arr')
                o_un = nf.offsetof('struct nest', 'un')
                o_sa = nf.offsetof('struct nest', 'sa')
                if form < 8:
                    p = nf.new('struct nest *')
                    n = nf.sizeof('struct nest')
                    nf.buffer(p)[:] = fill[:1] * n
                    target = p
                    tbuf = lambda p=p, nf=nf: bytes(nf.buffer(p))
                    before = tbuf()
                    if form == 0:
                        imgat = o_inn
                        p.inn.f = V
                        got = p.inn.f
                    elif form == 1:
                        imgat = o_arr + size
                        p.arr[1] = V
                        got = p.arr[1]
                    elif form == 2:
                        imgat = o_un
                        p.un.u = V
                        got = p.un.u
                    elif form == 3:
                        imgat = o_sa + size
                        p.sa[1].f = V
                        got = p.sa[1].f
                    elif form == 4:
                        imgat = o_inn
                        nf.addressof(p, 'inn', 'f')[0] = V
                        got = p.inn.f
                    elif form == 5:
                        imgat = o_inn
                        p.inn = [V]
                        got = p.inn.f
                    elif form == 6:
                        # items before the rejected one are legitimately stored
                        imgat = o_arr + 2 * size
                        keep = [(0, o_arr), (o_arr + 2 * size, n - o_arr - 2 * size)]
                        p.arr = [A, B, V]
                        got = p.arr[2]
                        if (norm(p.arr[0]), norm(p.arr[1])) != (A, B):
                            rep('neighbour-changed', '%s: p.arr = [..] with %d stored %r' %
                                (T, v, list(p.arr)), v)
                    else:
                        imgat = o_un
                        p.un = {'u': V}
                        got = p.un.u
                    if form != 6:
                        def post(p=p, nf=nf, before=before, at=imgat):
                            b = bytes(nf.buffer(p))
                            if b[:at] != before[:at] or b[at + size:] != before[at + size:]:
                                return 'bytes outside the stored item changed'
                else:
                    if form == 8:
                        p = nf.new('struct nest *', {'inn': {'f': V}})
                        got, imgat = p.inn.f, o_inn
                    elif form == 9:
                        p = nf.new('struct nest *', {'arr': [A, V]})
                        got, imgat = p.arr[1], o_arr + size
                        if norm(p.arr[0]) != A or norm(p.arr[2]) != 0:
                            rep('neighbour-changed', '%s nested array initializer with %d reads '
                                '%r' % (T, v, list(p.arr)), v)
                    elif form == 10:
                        p = nf.new('struct nest *', [b'c', [V], [A, B, V]])
                        got, imgat = p.inn.f, o_inn
                        if norm(p.arr[2]) != norm(got) or norm(p.arr[0]) != A or \
                                norm(p.arr[1]) != B:
                            rep('neighbour-changed', '%s nested list initializer with %d reads '
                                '%r' % (T, v, list(p.arr)), v)
                    else:
                        q = nf.new('struct nest[2]', [{}, {'un': {'u': V}}])
                        p = q
                        got, imgat = q[1].un.u, nf.sizeof('struct nest') + o_un
                    target = p
                    tbuf = lambda p=p, nf=nf: bytes(nf.buffer(p))
            elif ep == 'slice':
                form = idx % 4
                stat('slice_form%d' % form)
                p = ffi.new(T + '[5]')
                ffi.buffer(p)[:] = b'\xa5' * (5 * size)
                target = p
                before = bytes(ffi.buffer(p))
                if form == 0:
                    pos, start, stop = 1, 1, 3
                    p[1:3] = [V, W]
                elif form == 1:
                    pos, start, stop = 2, 1, 3
                    p[1:3] = (W, V)
                elif form == 2:
                    pos, start, stop = 2, 1, 4
                    keep = None
                    p[1:4] = iter([W, V, W])
                else:
                    pos, start, stop = 2, 2, 3
                    p[2:3] = [V]
                got = p[pos]
                imgat = pos * size
                for i in range(start, stop):
                    if i != pos and norm(p[i]) != W:
                        rep('neighbour-changed', '%s slice store with %d: item %d reads %r, '
                            'expected %d' % (T, v, i, p[i], W), v)
                b = bytes(ffi.buffer(p))
                if b[:start * size] != before[:start * size] or \
                        b[stop * size:] != before[stop * size:]:
                    rep('neighbour-changed', '%s slice store of %d changed items outside the '
                        'slice' % (T, v), v)
            elif ep == 'unaligned':
                form = idx % 3
                stat('unaligned_form%d' % form)
                if form == 0:
                    raw = ffi.new('char[]', 3 * size + 2)
                    ffi.buffer(raw)[:] = b'\x5a' * (3 * size + 2)
                    q = ffi.cast(T + ' *', raw + 1)
                    target, imgat = raw, 1 + size
                    before = bytes(ffi.buffer(raw))
                    q[1] = V
                    got = q[1]
                elif form == 1:
                    nf = nested_ffi(st, T)
                    p = nf.new('struct pk *')
                    nf.buffer(p)[:] = b'\x5a' * nf.sizeof('struct pk')
                    target, imgat = p, 1
                    tbuf = lambda p=p, nf=nf: bytes(nf.buffer(p))
                    before = tbuf()
                    if nf.offsetof('struct pk', 'f') != 1:
                        rep('neighbour-changed', 'packed struct: field %s not at offset 1' % T, v)
                    p.f = V
                    got = p.f
                else:
                    ba = bytearray(b'\x5a' * (2 * size + 2))
                    q = ffi.from_buffer(T + '[]', memoryview(ba)[1:1 + 2 * size])
                    target, imgat = ba, 1 + size
                    tbuf = lambda ba=ba: bytes(ba)
                    before = tbuf()
                    q[1] = V
                    got = q[1]

                def post(before=before, at=imgat, tb=tbuf, target=target):
                    b = tb() if tb else bytes(ffi.buffer(target))
                    if b[:at] != before[:at] or b[at + size:] != before[at + size:]:
                        return 'bytes outside the stored item changed'
            elif ep == 'abiglobal':
                name = 'g_' + N
                target, imgat = affi.addressof(alib, name), 0
                tbuf = lambda t=target: bytes(affi.buffer(t))
                before = tbuf()
                setattr(alib, name, V)
                got = getattr(alib, name)
                if norm(getattr(lib, name)) != norm(got):
                    rep('global-views-differ', '%s: ABI global reads %r, API reads %r' %
                        (T, got, getattr(lib, name)), v)
            elif ep == 'oolglobal':
                name = 'g_' + N
                target, imgat = offi.addressof(olib, name), 0
                tbuf = lambda t=target: bytes(offi.buffer(t))
                before = tbuf()
                setattr(olib, name, V)
                got = getattr(olib, name)
                if norm(getattr(lib, name)) != norm(got):
                    rep('global-views-differ', '%s: out-of-line ABI global reads %r, API reads '
                        '%r' % (T, got, getattr(lib, name)), v)
            elif ep == 'apiglobal':
                name = 'g_' + N
                target, imgat = ffi.addressof(lib, name), 0
                before = bytes(ffi.buffer(target))
                setattr(lib, name, V)
                got = getattr(lib, name)
            elif ep in CALL_PATHS:
                kind, how = CALL_PATHS[ep]
                callhow = how
                reset_recorders(how)
                f, fffi = func(kind, how)
                expk = None
                if kind == 'arg':
                    got = f(V)
                elif kind == 'arg2':
                    if idx % 2:
                        got = f(0, V, 7, W)
                        expk = 7
                    else:
                        got = f(1, W, -9, V)
                        expk = 1000 - 9
                elif kind == 'ptrarg':
                    form = idx % 3
                    if form == 0:
                        got = f([A, V, B], 1)
                        expk = 1
                    elif form == 1:
                        got = f((V,), 0)
                        expk = 0
                    else:
                        got = f([A, B, W, V], 3)
                        expk = 3
                elif kind == 'structarg':
                    if idx % 2:
                        got = f({'f': V})
                        expk = 0
                    else:
                        got = f([b'a', V, b'b'])
                        expk = ord('a') + 256 * ord('b')
                else:
                    if idx % 2:
                        got = f(V)
                    else:
                        got = f(V, fffi.cast('int', 5), fffi.cast('long long', -1))
                rec = recorded(how)
                if rec != v:
                    rep('c-received-differs', '%s via %s: passed %d, C received %d' %
                        (T, path, v, rec), v)
                if expk is not None and lib.last_k != expk:
                    rep('c-received-differs', '%s via %s: passed %d, the other arguments '
                        'arrived as %d, expected %d' % (T, path, v, lib.last_k, expk), v)
            elif ep in ('callback_err', 'callback_noerr', 'callback_abi', 'callback_onerror'):
                cffi_, clib = (affi, alib) if ep == 'callback_abi' else (ffi, lib)
                cur['v'] = V
                cur['onerr'] = []
                cur['mode'] = idx % 3
                if ep == 'callback_noerr':
                    cb = cffi_.callback(T + '(void)', lambda: V)
                    expect_err = 0
                elif ep == 'callback_onerror':
                    cb = cffi_.callback(T + '(void)', lambda: V, error=ERRV,
                                        onerror=onerror_handler)
                    expect_err = W if cur['mode'] == 1 else ERRV
                    stat('onerror_mode%d' % cur['mode'])
                else:
                    cb = cffi_.callback(T + '(void)', lambda: V, error=ERRV)
                    expect_err = ERRV
                if ep == 'callback_abi' and idx % 2:
                    got = cb()          # Python -> libffi -> closure
                    stat('callback_called_from_python')
                else:
                    got = getattr(clib, 'call_' + N)(cb)
                if ep == 'callback_onerror':
                    if inr and cur['onerr']:
                        rep('onerror-called-for-inrange', '%s callback returned in-range %d but '
                            'onerror was called with %r' % (T, v, cur['onerr']), v)
                    if not inr and cur['onerr'] != ['OverflowError']:
                        rep('onerror-not-called', '%s callback returned out-of-range %d: onerror '
                            'calls %r, expected one call with OverflowError' %
                            (T, v, cur['onerr']), v)
                if not inr:
                    if norm(got) != expect_err:
                        mech = 'callback-error-value'
                        if ep == 'callback_onerror' and cur['mode'] == 2:
                            mech = 'onerror-bad-result-clobbers-error-value' + SMALLU
                        rep(mech, '%s callback returned out-of-range %d%s: C '
                            'caller received %r, expected error value %r' %
                            (T, v, (' (onerror mode %d)' % cur['mode'])
                             if ep == 'callback_onerror' else '', got, expect_err), v)
                    counts['rejected'] += 1
                    continue
            elif ep in ('externpy', 'externpy_onerror'):
                cur['v'] = V
                cur['onerr'] = []
                cur['mode'] = idx % 3
                expect_err = ERRV
                if ep == 'externpy_onerror':
                    stat('onerror_mode%d' % cur['mode'])
                    if cur['mode'] == 1:
                        expect_err = W
                got = getattr(lib, 'callep_' + N)()
                if ep == 'externpy_onerror':
                    if inr and cur['onerr']:
                        rep('onerror-called-for-inrange', '%s extern "Python" returned in-range '
                            '%d but onerror was called with %r' % (T, v, cur['onerr']), v)
                    if not inr and cur['onerr'] != ['OverflowError']:
                        rep('onerror-not-called', '%s extern "Python" returned out-of-range %d: '
                            'onerror calls %r, expected one call with OverflowError' %
                            (T, v, cur['onerr']), v)
                if not inr:
                    if norm(got) != expect_err:
                        mech = 'externpy-error-value'
                        if ep == 'externpy_onerror' and cur['mode'] == 2:
                            mech = 'onerror-bad-result-clobbers-error-value' + SMALLU
                        rep(mech, '%s extern "Python" returned out-of-range '
                            '%d%s: C caller received %r, expected %r' %
                            (T, v, (' (onerror mode %d)' % cur['mode'])
                             if ep == 'externpy_onerror' else '', got, expect_err), v)
                    counts['rejected'] += 1
                    continue
            else:
                raise ValueError('unknown path %r' % (ep,))
        except Exception as e:
            exc = type(e).__name__
            if exc == 'ValueError' and str(e).startswith('unknown path'):
                raise
        if ep != path:
            stat('forms_' + ep)
        if inr:
            counts['accepted'] += 1
            if exc is not None:
                rep('inrange-rejected', '%s via %s: in-range %d raised %s' % (T, path, v, exc), v)
            elif norm(got) != v:
                rep('readback', '%s via %s: stored %d, read %r' % (T, path, v, got), v)
            elif isbool and not isinstance(got, bool):
                rep('readback-type', '_Bool read back as %r' % (got,), v)
            else:
                if imgat is not None and target is not None:
                    b = tbuf() if tbuf else bytes(ffi.buffer(target))
                    stat('byte_images_checked')
                    if image(b[imgat:imgat + size]) != v:
                        rep('byte-image', '%s via %s: stored %d, the memory holds %s' %
                            (T, path, v, b[imgat:imgat + size].hex()), v)
                if post is not None:
                    why = post()
                    if why:
                        rep('neighbour-changed', '%s via %s: store of %d: %s' %
                            (T, path, v, why), v)
        else:
            counts['rejected'] += 1
            if exc is None:
                rep('outofrange-accepted', '%s via %s: out-of-range %d accepted (reads %r)' %
                    (T, path, v, got), v)
            elif exc != 'OverflowError':
                rep('wrong-exception', '%s via %s: out-of-range %d raised %s' %
                    (T, path, v, exc), v)
            if callhow is not None and exc is not None:
                stat('rejected_calls_checked')
                if recorded(callhow) != SENTINEL:
                    rep('c-called-on-rejected-arg', '%s via %s: out-of-range %d was rejected '
                        'but the C function ran and received %d' %
                        (T, path, v, recorded(callhow)), v)
            if target is not None and before is not None:
                b = tbuf() if tbuf else bytes(ffi.buffer(target))
                stat('rejected_memory_checked')
                if keep is None and ep == 'slice':
                    # items of the slice before the rejected one are legitimately stored
                    keep = [(0, start * size), (pos * size, (5 - pos) * size)]
                if keep is None:
                    same = (b == before)
                else:
                    same = all(b[o:o + n] == before[o:o + n] for o, n in keep)
                if not same:
                    rep('rejected-store-changed-memory', '%s via %s: rejected %d changed the '
                        'target %s -> %s' % (T, path, v, before.hex(), b.hex()), v)
    return {'bad': bad, 'counts': counts}


def judge(ctx, setup, case, obs):
    T, path = case['T'], case['path']
    if obs.get('skipped'):
        ctx.inconclusive('ffi.verify() module was not found by the child')
        return
    for v in case['vals']:
        ctx.case((T, path, v), nontrivial=abs(v) > 1)
    if len(ctx.samples) < 10:
        ctx.samples.append({'T': T, 'path': path, 'errv': case.get('errv'),
                            'values': case['vals'][::max(1, len(case['vals']) // 8)]})
    ctx.count('path_' + path, len(case['vals']))
    for k, n in obs['counts'].items():
        ctx.count(k, n)
    for mech, msg, v in obs['bad']:
        c = dict(case)
        # keep the position of v in the list: the form of a store depends on it
        i = case['vals'].index(v) if v in case['vals'] else 0
        c['vals'] = case['vals'][:i + 1] if path in MED_PATHS else [v]
        ctx.violation('%s:%s' % (mech, path), msg, c)


def replay_setup(ctx, case):
    return build_all(ctx)
