"""C33 -- verify() produces the same library behaviour as set_source().

Per generated (cdef, C source) pair (the agreement generator of C12) three
builds: set_source()+compile(), ffi.verify() with the CPython engine, and
ffi.verify(force_generic_engine=True).  Compared on the same inputs: the set
of exposed names, constants and enumerators, struct layouts, function results
or exception classes (in-range, out-of-range and wrongly typed arguments),
global reads/writes.
"""
import os, sys, random
from vlib import core
from props import c33gen as c12

VARIANT = 'plain'
RULE = ("case = one declared item (struct layout, constant, enumerator, function x argument "
        "tuple, global) of a generated (cdef, C source) pair, compared across set_source/"
        "compile, verify() with the CPython engine and verify() with the generic engine; "
        "distinct = (item, inputs); non-trivial = function calls with arguments, structs with "
        ">= 2 fields, globals")
ASSUMPTIONS = ["the pairs use only features verify() supports (no 'typedef int...', no extern \"Python\")",
               "exception classes are compared, not messages"]


INT_T = [('signed char', 1, 1), ('short', 2, 1), ('int', 4, 1), ('long long', 8, 1),
         ('unsigned char', 1, 0), ('unsigned short', 2, 0), ('unsigned int', 4, 0),
         ('uint64_t', 8, 0), ('int32_t', 4, 1), ('size_t', 8, 0)]


def extras(seed):
    """A second, richer declaration block (what the C12 generator lacks): structs
    by value, pointer / array / string / function-pointer / variadic arguments,
    partial structs, '...' constants and enums, unions, bitfields, opaque types,
    macros declared as functions, array / pointer / struct globals, wchar_t,
    long double.  Returns (cdef, C source, probes); a probe is
    (label, function(ffi, lib) -> comparable value)."""
    rnd = random.Random(seed ^ 0x33c33)
    u = 'x%d' % (seed % 1000)
    T1, T2, T3 = [rnd.choice(INT_T) for _ in range(3)]
    k1, k2 = rnd.randint(1, 50), rnd.randint(-50, 50)
    n = rnd.choice([2, 3, 5, 8])
    bw1, bw2 = rnd.randint(1, 7), rnd.randint(1, 15)
    def clit(big):
        if big == -2 ** 63:
            return '(-9223372036854775807LL-1)'
        return '%dLL' % big if big < 2 ** 63 else '%dULL' % big
    bigl = rnd.sample([2 ** 31 - 1, 2 ** 31, 2 ** 32 - 1, 2 ** 63 - 1, 2 ** 63, 2 ** 64 - 1,
                       -2 ** 31, -2 ** 63, rnd.getrandbits(40), -2 ** 31 - 1, 2 ** 32], 4)
    bigs, bigs2, bigs3, bigs4 = [clit(b) for b in bigl]
    dbl = rnd.choice([0.5, -2.25, 1e10, 3.0])
    src = """
#include <stdarg.h>
#include <string.h>
#include <wchar.h>
struct %(u)s_pt { %(T1)s a; %(T2)s b; };
struct %(u)s_pt %(u)s_mk(%(T1)s a, %(T2)s b) { struct %(u)s_pt p; p.a = a; p.b = b; return p; }
long long %(u)s_ptsum(struct %(u)s_pt p) { return (long long)p.a * %(k1)d + (long long)p.b; }
void %(u)s_ptfill(struct %(u)s_pt *p, int v) { p->a = (%(T1)s)v; p->b = (%(T2)s)(v + 1); }
typedef struct { char pad0; %(T3)s v; double pad1; short w; } %(u)s_part_t;
%(T3)s %(u)s_part_get(%(u)s_part_t *p) { return p->v; }
long long %(u)s_sum(%(T3)s *a, int n) { long long s = 0; int i; for (i = 0; i < n; i++) s += (long long)a[i] * (i + 1); return s; }
size_t %(u)s_len(const char *s) { return strlen(s) + %(k1)d; }
char *%(u)s_skip(char *s, int k) { return s + k; }
int %(u)s_apply(int (*f)(int, int), int x) { return f(x, %(k2)d) + 1; }
long long %(u)s_vsum(int n, ...) { va_list ap; long long s = 0; int i; va_start(ap, n); for (i = 0; i < n; i++) s += va_arg(ap, long long); va_end(ap); return s; }
#define %(u)s_MADD(a, b) ((a) * %(k1)d + (b))
#define %(u)s_KBIG %(bigs)s
#define %(u)s_KBIG2 %(bigs2)s
#define %(u)s_KBIG3 %(bigs3)s
#define %(u)s_KSMALL %(k2)d
static const double %(u)s_KD = %(dbl)r;
enum %(u)s_en { %(u)s_EA = %(k2)d, %(u)s_EB, %(u)s_EC = %(k1)d + 100 };
union %(u)s_un { %(T1)s i; double d; char c[%(n)d]; };
int %(u)s_unsize(void) { return (int)sizeof(union %(u)s_un); }
double %(u)s_und(union %(u)s_un x) { return x.d * 2; }
union %(u)s_un %(u)s_unret(double d) { union %(u)s_un x; memset(&x, 0, sizeof(x)); x.d = d; return x; }
struct %(u)s_rec { int key; int w[3]; };
long long %(u)s_sumw(struct %(u)s_rec *a, int n) { long long s = 0; int i, j; for (i = 0; i < n; i++) for (j = 0; j < 3; j++) s += a[i].w[j]; return s; }
long long %(u)s_sum2(int (*a)[4], int n) { long long s = 0; int i, j; for (i = 0; i < n; i++) for (j = 1; j < 4; j++) s += a[i][j]; return s; }
struct %(u)s_bf { unsigned int p : %(bw1)d; int q : %(bw2)d; %(T2)s tail; };
int %(u)s_bfq(struct %(u)s_bf *s) { return s->q; }
struct %(u)s_opq { int secret; };
static struct %(u)s_opq %(u)s_theopq = { %(k1)d };
struct %(u)s_opq *%(u)s_getopq(void) { return &%(u)s_theopq; }
int %(u)s_useopq(struct %(u)s_opq *p) { return p->secret + 1; }
%(T3)s %(u)s_garr[%(n)d] = { 1, 2 };
const char *%(u)s_gstr = "hello-%(k1)d";
struct %(u)s_pt %(u)s_gpt = { 3, 4 };
int (*%(u)s_gfp)(int, int) = 0;
static int %(u)s_addmul(int a, int b) { return a * 3 + b; }
void %(u)s_setfp(void) { %(u)s_gfp = %(u)s_addmul; }
size_t %(u)s_wlen(const wchar_t *w) { return wcslen(w); }
long double %(u)s_ld(long double x) { return x * 2; }
_Bool %(u)s_not(_Bool b) { return !b; }
""" % {'u': u, 'T1': T1[0], 'T2': T2[0], 'T3': T3[0], 'k1': k1, 'k2': k2, 'n': n, 'bw1': bw1,
       'bw2': bw2, 'bigs': bigs, 'bigs2': bigs2, 'bigs3': bigs3, 'dbl': dbl}
    cdef = """
struct %(u)s_pt { %(T1)s a; %(T2)s b; };
struct %(u)s_pt %(u)s_mk(%(T1)s a, %(T2)s b);
long long %(u)s_ptsum(struct %(u)s_pt p);
void %(u)s_ptfill(struct %(u)s_pt *p, int v);
typedef struct { %(T3)s v; short w; ...; } %(u)s_part_t;
%(T3)s %(u)s_part_get(%(u)s_part_t *p);
long long %(u)s_sum(%(T3)s *a, int n);
size_t %(u)s_len(const char *s);
char *%(u)s_skip(char *s, int k);
int %(u)s_apply(int (*f)(int, int), int x);
long long %(u)s_vsum(int n, ...);
int %(u)s_MADD(int, int);
#define %(u)s_KBIG ...
#define %(u)s_KBIG2 ...
#define %(u)s_KBIG3 ...
#define %(u)s_KSMALL %(k2)d
static const double %(u)s_KD;
enum %(u)s_en { %(u)s_EA = %(k2)d, %(u)s_EB, %(u)s_EC = ... };
union %(u)s_un { %(T1)s i; double d; char c[%(n)d]; };
int %(u)s_unsize(void);
double %(u)s_und(union %(u)s_un x);
union %(u)s_un %(u)s_unret(double d);
struct %(u)s_rec { int key; int w[3]; };
long long %(u)s_sumw(struct %(u)s_rec *a, int n);
long long %(u)s_sum2(int (*a)[4], int n);
struct %(u)s_bf { unsigned int p : %(bw1)d; int q : %(bw2)d; %(T2)s tail; };
int %(u)s_bfq(struct %(u)s_bf *s);
struct %(u)s_opq;
struct %(u)s_opq *%(u)s_getopq(void);
int %(u)s_useopq(struct %(u)s_opq *p);
%(T3)s %(u)s_garr[%(n)d];
const char *%(u)s_gstr;
struct %(u)s_pt %(u)s_gpt;
int (*%(u)s_gfp)(int, int);
void %(u)s_setfp(void);
size_t %(u)s_wlen(const wchar_t *w);
long double %(u)s_ld(long double x);
_Bool %(u)s_not(_Bool b);
""" % {'u': u, 'T1': T1[0], 'T2': T2[0], 'T3': T3[0], 'k2': k2, 'n': n, 'bw1': bw1, 'bw2': bw2}

    def rng_of(T):
        return (-(1 << (8 * T[1] - 1)), (1 << (8 * T[1] - 1)) - 1) if T[2] else (0, (1 << 8 * T[1]) - 1)

    def val(T, r):
        lo, hi = rng_of(T)
        return r.choice([lo, hi, 0, 1, r.randint(lo, hi)])
    r = random.Random(seed ^ 0x7777)
    a1, b1 = val(T1, r), val(T2, r)
    over1 = rng_of(T1)[1] + 1
    arr = [val(T3, r) for _ in range(n)]
    vs = [r.randint(-2 ** 40, 2 ** 40) for _ in range(r.randint(0, 4))]
    text = bytes(r.randrange(1, 256) for _ in range(r.randint(0, 12)))
    x0 = r.randint(-1000, 1000)
    P = []
    g = lambda l, nm: getattr(l, u + '_' + nm)
    P.append(('struct-by-value-return', lambda f, l: (lambda p: (p.a, p.b))(g(l, 'mk')(a1, b1))))
    P.append(('struct-by-value-return-overflow', lambda f, l: g(l, 'mk')(over1, b1).a))
    P.append(('struct-by-value-arg', lambda f, l: g(l, 'ptsum')(f.new('struct %s_pt *' % u, [a1, b1])[0])))
    P.append(('struct-by-value-arg-wrong-type', lambda f, l: g(l, 'ptsum')(f.new('struct %s_pt *' % u))))
    P.append(('struct-by-value-arg-dict', lambda f, l: g(l, 'ptsum')({'a': a1, 'b': b1})))
    P.append(('struct-pointer-arg', lambda f, l: (lambda p: (g(l, 'ptfill')(p, x0 % 100), p.a, p.b))(f.new('struct %s_pt *' % u))))
    P.append(('struct-layout', lambda f, l: (f.sizeof('struct %s_pt' % u), f.alignof('struct %s_pt' % u), f.offsetof('struct %s_pt' % u, 'b'))))
    P.append(('partial-struct-layout', lambda f, l: (f.sizeof('%s_part_t' % u), f.offsetof('%s_part_t' % u, 'v'), f.offsetof('%s_part_t' % u, 'w'))))
    P.append(('partial-struct-use', lambda f, l: (lambda p: g(l, 'part_get')(p))(f.new('%s_part_t *' % u, {'v': arr[0], 'w': 7}))))
    P.append(('array-arg-list', lambda f, l: g(l, 'sum')(arr, n)))
    P.append(('array-arg-cdata', lambda f, l: g(l, 'sum')(f.new('%s[]' % T3[0], arr), n)))
    P.append(('array-arg-wrong-pointer-type', lambda f, l: g(l, 'sum')(f.new('double[]', 3), 3)))
    P.append(('array-arg-out-of-range-item', lambda f, l: g(l, 'sum')([rng_of(T3)[1] + 1], 1)))
    P.append(('array-arg-null', lambda f, l: g(l, 'sum')(f.NULL, 0)))
    P.append(('array-arg-int', lambda f, l: g(l, 'sum')(0, 0)))
    P.append(('string-arg-bytes', lambda f, l: g(l, 'len')(text)))
    P.append(('string-arg-str', lambda f, l: g(l, 'len')('abc')))
    P.append(('string-arg-cdata', lambda f, l: g(l, 'len')(f.new('char[]', text))))
    P.append(('string-arg-none', lambda f, l: g(l, 'len')(None)))
    P.append(('char-pointer-return', lambda f, l: (lambda b: f.string(g(l, 'skip')(b, 2)))(f.new('char[]', b'abcdef'))))
    P.append(('char-pointer-arg-bytes-for-nonconst', lambda f, l: f.typeof(g(l, 'skip')(b'abcdef', 1)).cname))
    P.append(('callback-arg', lambda f, l: g(l, 'apply')(f.callback('int(int, int)', lambda a, b: a * 2 - b), x0)))
    P.append(('callback-arg-wrong-signature', lambda f, l: g(l, 'apply')(f.callback('int(int)', lambda a: a), x0)))
    P.append(('callback-arg-python-function', lambda f, l: g(l, 'apply')(lambda a, b: a, x0)))
    P.append(('variadic', lambda f, l: g(l, 'vsum')(len(vs), *[f.cast('long long', v) for v in vs])))
    P.append(('variadic-plain-int-arg', lambda f, l: g(l, 'vsum')(1, 5)))
    P.append(('variadic-missing-fixed', lambda f, l: g(l, 'vsum')()))
    P.append(('macro-as-function', lambda f, l: g(l, 'MADD')(x0, 3)))
    P.append(('macro-as-function-overflow', lambda f, l: g(l, 'MADD')(2 ** 31, 3)))
    P.append(('dotdotdot-constant', lambda f, l: (g(l, 'KBIG'), g(l, 'KBIG2'), g(l, 'KBIG3'), type(g(l, 'KBIG')).__name__)))
    P.append(('int-constant', lambda f, l: g(l, 'KSMALL')))
    P.append(('double-constant', lambda f, l: g(l, 'KD')))
    P.append(('enum-dotdotdot', lambda f, l: (g(l, 'EA'), g(l, 'EB'), g(l, 'EC'), sorted(f.typeof('enum %s_en' % u).relements.items()), f.sizeof('enum %s_en' % u))))
    P.append(('union', lambda f, l: (f.sizeof('union %s_un' % u), g(l, 'unsize')(), f.offsetof('union %s_un' % u, 'c'))))
    P.append(('union-by-value-arg', lambda f, l: g(l, 'und')(f.new('union %s_un *' % u, {'d': dbl})[0])))
    P.append(('union-by-value-arg-dict', lambda f, l: g(l, 'und')({'d': dbl})))
    P.append(('union-by-value-result', lambda f, l: g(l, 'unret')(dbl).d))
    big = r.choice([41, 60, 200])        # > 640 bytes: the malloc'ed temporary of the wrappers
    P.append(('large-list-of-full-structs', lambda f, l: g(l, 'sumw')([[5, [7, 8, 9]]] * big, big)))
    P.append(('large-list-of-partial-structs', lambda f, l: g(l, 'sumw')([[k1]] * big, big)))
    P.append(('large-list-of-partial-struct-dicts', lambda f, l: g(l, 'sumw')([{'key': 3}] * big, big)))
    P.append(('large-list-of-full-rows', lambda f, l: g(l, 'sum2')([[1, 2, 3, 4]] * big, big)))
    P.append(('large-list-of-partial-rows', lambda f, l: g(l, 'sum2')([[k1]] * big, big)))
    P.append(('small-list-of-partial-structs', lambda f, l: g(l, 'sumw')([[k1]] * 5, 5)))
    P.append(('bitfield-struct', lambda f, l: (lambda p: (f.sizeof('struct %s_bf' % u), g(l, 'bfq')(p), p.p, p.tail))(f.new('struct %s_bf *' % u, {'p': 1, 'q': -1, 'tail': b1}))))
    P.append(('bitfield-overflow', lambda f, l: f.new('struct %s_bf *' % u, {'p': 1 << bw1})))
    P.append(('opaque-struct', lambda f, l: (lambda p: (g(l, 'useopq')(p), f.typeof(p).cname))(g(l, 'getopq')())))
    P.append(('opaque-struct-wrong-pointer', lambda f, l: g(l, 'useopq')(f.new('int *'))))
    P.append(('global-array', lambda f, l: (lambda a: (len(a), a[0], a[1], a[n - 1], f.typeof(a).cname))(g(l, 'garr'))))
    P.append(('global-array-write', lambda f, l: (lambda a: (a.__setitem__(n - 1, arr[0]), g(l, 'sum')(a, n)))(g(l, 'garr'))))
    P.append(('global-array-assign', lambda f, l: setattr(l, u + '_garr', [0] * n)))
    P.append(('global-array-index-out-of-range', lambda f, l: g(l, 'garr')[n]))
    P.append(('global-string', lambda f, l: f.string(g(l, 'gstr'))))
    P.append(('global-struct', lambda f, l: (lambda s_: (s_.a, s_.b, f.typeof(s_).cname))(g(l, 'gpt'))))
    P.append(('global-struct-write', lambda f, l: (setattr(g(l, 'gpt'), 'a', 9), g(l, 'ptsum')(g(l, 'gpt')), setattr(g(l, 'gpt'), 'a', 3))[1]))
    P.append(('global-function-pointer', lambda f, l: (g(l, 'gfp') == f.NULL, g(l, 'setfp')(), g(l, 'gfp')(5, 6), f.typeof(g(l, 'gfp')).cname)))
    # not probed (outside the statement, and the verify() library is a plain Python
    # object): ffi.addressof(lib, name), assigning to a function / unknown attribute,
    # the error class of sizeof(<opaque struct>)
    P.append(('global-missing', lambda f, l: getattr(l, u + '_nonexistent')))
    P.append(('wchar-arg', lambda f, l: g(l, 'wlen')(u'h\u1234llo')))
    P.append(('wchar-arg-bytes', lambda f, l: g(l, 'wlen')(b'abc')))
    P.append(('long-double', lambda f, l: float(g(l, 'ld')(1.25))))
    P.append(('long-double-type', lambda f, l: f.typeof(g(l, 'ld')(1.25)).cname))
    P.append(('bool', lambda f, l: (g(l, 'not')(True), g(l, 'not')(0))))
    P.append(('bool-out-of-range', lambda f, l: g(l, 'not')(2)))
    P.append(('too-many-args', lambda f, l: g(l, 'not')(True, False)))
    P.append(('keyword-args', lambda f, l: g(l, 'not')(b=True)))
    return cdef, src, P


def generate(ctx):
    rng = ctx.rng('gen')
    n = ctx.scale(8, 120)
    return None, [{'seed': rng.getrandbits(40), 'tag': str(i)} for i in range(n)]


def child_setup(setup, wd):
    import warnings
    warnings.simplefilter('ignore')
    sys.path.insert(0, wd)
    return {'wd': wd}


def bad_args(rnd, T):
    return rnd.choice([2 ** 70, -2 ** 70, 'str', None, 1.5 if T not in ('double', 'float') else 'x'])


def outcome(f, args):
    try:
        r = f(*args)
        return ('ok', type(r).__name__, r)
    except Exception as e:
        return ('exc', type(e).__name__)


def child_case(st, case):
    import importlib
    from cffi import FFI
    rep = core.ChildRep()
    items = c12.gen_source(case['seed'])
    xcdef, xsrc, probes = extras(case['seed'])
    src = c12.c_source(items) + xsrc
    cdef = c12.cdef_text(items) + xcdef
    wd = st['wd']
    libs = {}
    try:
        f0 = FFI()
        f0.cdef(cdef)
        name = '_c33s_%s_%d' % (case['tag'], case['seed'] % 100000)
        f0.set_source(name, src)
        f0.compile(tmpdir=wd, verbose=False)
        m = importlib.import_module(name)
        libs['set_source'] = (m.ffi, m.lib)
        for eng, kw in (('verify_cpy', {}), ('verify_gen', {'force_generic_engine': True})):
            f = FFI()
            f.cdef(cdef)
            lib = f.verify(src, tmpdir=os.path.join(wd, '%s_%s' % (eng, case['tag'])), **kw)
            libs[eng] = (f, lib)
    except Exception as e:
        import traceback
        rep.bad('build-raised:' + type(e).__name__, traceback.format_exc()[-1200:], case['seed'])
        return rep.result()
    rnd = random.Random(case['seed'] + 7)
    ref_ffi, ref_lib = libs['set_source']
    names = {}
    for k, (f, l) in libs.items():
        names[k] = set(n for n in dir(l) if not n.startswith('_'))
    rep.case(('names', case['seed']), sample={'exposed_names': len(names['set_source'])})
    for k in ('verify_cpy', 'verify_gen'):
        if names[k] != names['set_source']:
            rep.bad('exposed-names-differ:' + k, 'only set_source: %r, only %s: %r' % (
                sorted(names['set_source'] - names[k])[:8], k,
                sorted(names[k] - names['set_source'])[:8]), case['seed'])
    for it in items:
        kind = it['kind']
        res = {}
        if kind == 'struct':
            tag = 'struct ' + it['name']
            for k, (f, l) in libs.items():
                try:
                    res[k] = ('ok', f.sizeof(tag), f.alignof(tag),
                              [(fn, f.offsetof(tag, fn)) for fn, _, _ in it['fields']])
                except Exception as e:
                    res[k] = ('exc', type(e).__name__, str(e)[:100])
            rep.case((kind, c12.render_struct(it['name'], it['fields'])),
                     nontrivial=len(it['fields']) >= 2,
                     sample={'struct': c12.render_struct(it['name'], it['fields'])})
            rep.stat('structs')
        elif kind == 'const':
            for k, (f, l) in libs.items():
                res[k] = outcome(lambda: getattr(l, it['name']), ())
            rep.case((kind, it['name'], it['value']))
            rep.stat('constants')
        elif kind == 'enum':
            for k, (f, l) in libs.items():
                try:
                    t = f.typeof('enum ' + it['name'])
                    res[k] = ('ok', [getattr(l, n) for n, v in it['values']], f.sizeof(t),
                              sorted(t.relements.items()),
                              [f.string(f.cast(t, v)) for n, v in it['values']])
                except Exception as e:
                    res[k] = ('exc', type(e).__name__, str(e)[:100])
            rep.case((kind, it['name'], tuple(it['values'])))
            rep.stat('enums')
        elif kind == 'func':
            for trial in range(8):
                if trial < 5:
                    args = [c12.argval(rnd, a) for a in it['args']]
                else:
                    args = [c12.argval(rnd, a) for a in it['args']]
                    if args:
                        j = rnd.randrange(len(args))
                        args[j] = bad_args(rnd, it['args'][j])
                    else:
                        args = [1]      # too many arguments
                res = {}
                for k, (f, l) in libs.items():
                    res[k] = outcome(getattr(l, it['name']), args)
                rep.case((kind, it['name'], repr(args)), nontrivial=bool(it['args']),
                         sample={'call': '%s%r' % (it['name'], tuple(args)),
                                 'set_source': repr(res['set_source'])[:80]})
                rep.stat('function_calls')
                compare(rep, res, '%s %s(%s) with %r' % (it['ret'], it['name'],
                                                          ', '.join(it['args']), args),
                        'call', case['seed'])
            continue
        elif kind == 'glob':
            n, T = it['name'], it['type']
            v = c12.argval(rnd, T)
            for k, (f, l) in libs.items():
                try:
                    before = getattr(l, n)
                    setattr(l, n, v)
                    seen_by_c = getattr(l, 'get_' + n)()
                    getattr(l, 'set_' + n)(before)
                    res[k] = ('ok', type(before).__name__, seen_by_c, getattr(l, n) == before)
                except Exception as e:
                    res[k] = ('exc', type(e).__name__, str(e)[:100])
            rep.case((kind, n, T, v))
            rep.stat('globals')
        compare(rep, res, '%s %s' % (kind, it['name']), kind, case['seed'])
    for label, fn in probes:
        res = {}
        for k, (f, l) in libs.items():
            try:
                v = fn(f, l)
                res[k] = ('ok', type(v).__name__, v if not hasattr(v, '__cffi__') and
                          'CData' not in type(v).__mro__[-2].__name__ else repr(v)[:40])
            except Exception as e:
                res[k] = ('exc', type(e).__name__)
        rep.case(('extra', label, repr(res['set_source'])[:80]),
                 sample={'probe': label, 'set_source': repr(res['set_source'])[:80]})
        rep.stat('extra_probes')
        rep.stat('extra_probe_' + ('ok' if res['set_source'][0] == 'ok' else 'raises'))
        compare(rep, res, 'probe %s' % label, 'extra:' + label, case['seed'])
    return rep.result()


def compare(rep, res, what, kind, seed):
    ref = res['set_source']
    for k in ('verify_cpy', 'verify_gen'):
        if res[k] != ref:
            sub = 'accept-vs-raise' if res[k][0] != ref[0] else (
                'exception-class' if ref[0] == 'exc' else 'value')
            rep.bad('%s-differs:%s:%s' % (kind, sub, k), '%s: set_source -> %r, %s -> %r' %
                    (what, ref, k, res[k]), seed)


def judge(ctx, setup, case, obs):
    core.absorb(ctx, case, obs, lambda seed: case)
