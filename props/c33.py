"""C33 -- verify() produces the same library behaviour as set_source().

Per generated (cdef, C source) pair (the agreement generator of C12) three
builds: set_source()+compile(), ffi.verify() with the CPython engine, and
ffi.verify(force_generic_engine=True).  Compared on the same inputs: the set
of exposed names, constants and enumerators, struct layouts, function results
or exception classes (in-range, out-of-range and wrongly typed arguments),
global reads/writes.
"""
import os, sys, random
from vlib import core
from props import c12

VARIANT = 'plain'
RULE = ("case = one declared item (struct layout, constant, enumerator, function x argument "
        "tuple, global) of a generated (cdef, C source) pair, compared across set_source/"
        "compile, verify() with the CPython engine and verify() with the generic engine; "
        "distinct = (item, inputs); non-trivial = function calls with arguments, structs with "
        ">= 2 fields, globals")
ASSUMPTIONS = ["the pairs use only features verify() supports (no 'typedef int...', no extern \"Python\")",
               "exception classes are compared, not messages"]


def generate(ctx):
    rng = ctx.rng('gen')
    n = ctx.scale(8, 120)
    return None, [{'seed': rng.getrandbits(40), 'tag': str(i)} for i in range(n)]


def child_setup(setup, wd):
    import warnings
    warnings.simplefilter('ignore')
    sys.path.insert(0, wd)
    return {'wd': wd}


def bad_args(rnd, T):
    return rnd.choice([2 ** 70, -2 ** 70, 'str', None, 1.5 if T not in ('double', 'float') else 'x'])


def outcome(f, args):
    try:
        r = f(*args)
        return ('ok', type(r).__name__, r)
    except Exception as e:
        return ('exc', type(e).__name__)


def child_case(st, case):
    import importlib
    from cffi import FFI
    rep = core.ChildRep()
    items = c12.gen_source(case['seed'])
    src = c12.c_source(items)
    cdef = c12.cdef_text(items)
    wd = st['wd']
    libs = {}
    try:
        f0 = FFI()
        f0.cdef(cdef)
        name = '_c33s_%s_%d' % (case['tag'], case['seed'] % 100000)
        f0.set_source(name, src)
        f0.compile(tmpdir=wd, verbose=False)
        m = importlib.import_module(name)
        libs['set_source'] = (m.ffi, m.lib)
        for eng, kw in (('verify_cpy', {}), ('verify_gen', {'force_generic_engine': True})):
            f = FFI()
            f.cdef(cdef)
            lib = f.verify(src, tmpdir=os.path.join(wd, '%s_%s' % (eng, case['tag'])), **kw)
            libs[eng] = (f, lib)
    except Exception as e:
        import traceback
        rep.bad('build-raised:' + type(e).__name__, traceback.format_exc()[-1200:], case['seed'])
        return rep.result()
    rnd = random.Random(case['seed'] + 7)
    ref_ffi, ref_lib = libs['set_source']
    names = {}
    for k, (f, l) in libs.items():
        names[k] = set(n for n in dir(l) if not n.startswith('_'))
    rep.case(('names', case['seed']), sample={'exposed_names': len(names['set_source'])})
    for k in ('verify_cpy', 'verify_gen'):
        if names[k] != names['set_source']:
            rep.bad('exposed-names-differ:' + k, 'only set_source: %r, only %s: %r' % (
                sorted(names['set_source'] - names[k])[:8], k,
                sorted(names[k] - names['set_source'])[:8]), case['seed'])
    for it in items:
        kind = it['kind']
        res = {}
        if kind == 'struct':
            tag = 'struct ' + it['name']
            for k, (f, l) in libs.items():
                try:
                    res[k] = ('ok', f.sizeof(tag), f.alignof(tag),
                              [(fn, f.offsetof(tag, fn)) for fn, _, _ in it['fields']])
                except Exception as e:
                    res[k] = ('exc', type(e).__name__, str(e)[:100])
            rep.case((kind, c12.render_struct(it['name'], it['fields'])),
                     nontrivial=len(it['fields']) >= 2,
                     sample={'struct': c12.render_struct(it['name'], it['fields'])})
            rep.stat('structs')
        elif kind == 'const':
            for k, (f, l) in libs.items():
                res[k] = outcome(lambda: getattr(l, it['name']), ())
            rep.case((kind, it['name'], it['value']))
            rep.stat('constants')
        elif kind == 'enum':
            for k, (f, l) in libs.items():
                try:
                    t = f.typeof('enum ' + it['name'])
                    res[k] = ('ok', [getattr(l, n) for n, v in it['values']], f.sizeof(t),
                              sorted(t.relements.items()),
                              [f.string(f.cast(t, v)) for n, v in it['values']])
                except Exception as e:
                    res[k] = ('exc', type(e).__name__, str(e)[:100])
            rep.case((kind, it['name'], tuple(it['values'])))
            rep.stat('enums')
        elif kind == 'func':
            for trial in range(8):
                if trial < 5:
                    args = [c12.argval(rnd, a) for a in it['args']]
                else:
                    args = [c12.argval(rnd, a) for a in it['args']]
                    if args:
                        j = rnd.randrange(len(args))
                        args[j] = bad_args(rnd, it['args'][j])
                    else:
                        args = [1]      # too many arguments
                res = {}
                for k, (f, l) in libs.items():
                    res[k] = outcome(getattr(l, it['name']), args)
                rep.case((kind, it['name'], repr(args)), nontrivial=bool(it['args']),
                         sample={'call': '%s%r' % (it['name'], tuple(args)),
                                 'set_source': repr(res['set_source'])[:80]})
                rep.stat('function_calls')
                compare(rep, res, '%s %s(%s) with %r' % (it['ret'], it['name'],
                                                          ', '.join(it['args']), args),
                        'call', case['seed'])
            continue
        elif kind == 'glob':
            n, T = it['name'], it['type']
            v = c12.argval(rnd, T)
            for k, (f, l) in libs.items():
                try:
                    before = getattr(l, n)
                    setattr(l, n, v)
                    seen_by_c = getattr(l, 'get_' + n)()
                    getattr(l, 'set_' + n)(before)
                    res[k] = ('ok', type(before).__name__, seen_by_c, getattr(l, n) == before)
                except Exception as e:
                    res[k] = ('exc', type(e).__name__, str(e)[:100])
            rep.case((kind, n, T, v))
            rep.stat('globals')
        compare(rep, res, '%s %s' % (kind, it['name']), kind, case['seed'])
    return rep.result()


def compare(rep, res, what, kind, seed):
    ref = res['set_source']
    for k in ('verify_cpy', 'verify_gen'):
        if res[k] != ref:
            sub = 'accept-vs-raise' if res[k][0] != ref[0] else (
                'exception-class' if ref[0] == 'exc' else 'value')
            rep.bad('%s-differs:%s:%s' % (kind, sub, k), '%s: set_source -> %r, %s -> %r' %
                    (what, ref, k, res[k]), seed)


def judge(ctx, setup, case, obs):
    core.absorb(ctx, case, obs, lambda seed: case)
