"""C33 -- verify() produces the same library behaviour as set_source().

Per generated (cdef, C source) pair (the agreement generator of C12) three
builds: set_source()+compile(), ffi.verify() with the CPython engine, and
ffi.verify(force_generic_engine=True).  Compared on the same inputs: the set
of exposed names, constants and enumerators, struct layouts, function results
or exception classes (in-range, out-of-range and wrongly typed arguments),
global reads/writes (extras / extras2: a second and third declaration block with the
features the C12 generator lacks, among them enum-typed arguments and results, errno
round trips, '[...]' global arrays, pointer / struct constants, a cdef(packed=True)
struct).  Per pair also a build-history scenario on a small source (run_history):
verify() after an earlier verify() of the same source with another cdef in the same
tmpdir, with define_macros=, repeated with identical inputs from a new FFI (served
from the compiled module already in tmpdir), and through modulename= / tag=.
"""
import os, sys, random
from vlib import core
from props import c33gen as c12

VARIANT = 'plain'
RULE = ("case = one declared item (struct layout, constant, enumerator, function x argument "
        "tuple, global) of a generated (cdef, C source) pair, compared across set_source/"
        "compile, verify() with the CPython engine and verify() with the generic engine, or one "
        "step of the verify() build-history scenario (earlier cdef in the same tmpdir / define_macros= "
        "/ repeated identical inputs / modulename= or tag=) against the set_source build of the same inputs; "
        "distinct = (item, inputs); non-trivial = function calls with arguments, structs with "
        ">= 2 fields, globals")
ASSUMPTIONS = ["the pairs use only features verify() supports (no 'typedef int...', no extern \"Python\")",
               "exception classes are compared, not messages",
               "assigning to constants / functions of the library is not compared (the verify() library "
               "is a plain Python object)",
               "the history scenario runs one engine per case (alternating), both engines over a run"]


INT_T = [('signed char', 1, 1), ('short', 2, 1), ('int', 4, 1), ('long long', 8, 1),
         ('unsigned char', 1, 0), ('unsigned short', 2, 0), ('unsigned int', 4, 0),
         ('uint64_t', 8, 0), ('int32_t', 4, 1), ('size_t', 8, 0)]


def extras(seed):
    """A second, richer declaration block (what the C12 generator lacks): structs
    by value, pointer / array / string / function-pointer / variadic arguments,
    partial structs, '...' constants and enums, unions, bitfields, opaque types,
    macros declared as functions, array / pointer / struct globals, wchar_t,
    long double.  Returns (cdef, C source, probes); a probe is
    (label, function(ffi, lib) -> comparable value)."""
    rnd = random.Random(seed ^ 0x33c33)
    u = 'x%d' % (seed % 1000)
    T1, T2, T3 = [rnd.choice(INT_T) for _ in range(3)]
    k1, k2 = rnd.randint(1, 50), rnd.randint(-50, 50)
    n = rnd.choice([2, 3, 5, 8])
    bw1, bw2 = rnd.randint(1, 7), rnd.randint(1, 15)
    def clit(big):
        if big == -2 ** 63:
            return '(-9223372036854775807LL-1)'
        return '%dLL' % big if big < 2 ** 63 else '%dULL' % big
    bigl = rnd.sample([2 ** 31 - 1, 2 ** 31, 2 ** 32 - 1, 2 ** 63 - 1, 2 ** 63, 2 ** 64 - 1,
                       -2 ** 31, -2 ** 63, rnd.getrandbits(40), -2 ** 31 - 1, 2 ** 32], 4)
    bigs, bigs2, bigs3, bigs4 = [clit(b) for b in bigl]
    dbl = rnd.choice([0.5, -2.25, 1e10, 3.0])
    src = """
#include <stdarg.h>
#include <string.h>
#include <wchar.h>
struct %(u)s_pt { %(T1)s a; %(T2)s b; };
struct %(u)s_pt %(u)s_mk(%(T1)s a, %(T2)s b) { struct %(u)s_pt p; p.a = a; p.b = b; return p; }
long long %(u)s_ptsum(struct %(u)s_pt p) { return (long long)p.a * %(k1)d + (long long)p.b; }
void %(u)s_ptfill(struct %(u)s_pt *p, int v) { p->a = (%(T1)s)v; p->b = (%(T2)s)(v + 1); }
typedef struct { char pad0; %(T3)s v; double pad1; short w; } %(u)s_part_t;
%(T3)s %(u)s_part_get(%(u)s_part_t *p) { return p->v; }
long long %(u)s_sum(%(T3)s *a, int n) { long long s = 0; int i; for (i = 0; i < n; i++) s += (long long)a[i] * (i + 1); return s; }
size_t %(u)s_len(const char *s) { return strlen(s) + %(k1)d; }
char *%(u)s_skip(char *s, int k) { return s + k; }
int %(u)s_apply(int (*f)(int, int), int x) { return f(x, %(k2)d) + 1; }
long long %(u)s_vsum(int n, ...) { va_list ap; long long s = 0; int i; va_start(ap, n); for (i = 0; i < n; i++) s += va_arg(ap, long long); va_end(ap); return s; }
#define %(u)s_MADD(a, b) ((a) * %(k1)d + (b))
#define %(u)s_KBIG %(bigs)s
#define %(u)s_KBIG2 %(bigs2)s
#define %(u)s_KBIG3 %(bigs3)s
#define %(u)s_KSMALL %(k2)d
static const double %(u)s_KD = %(dbl)r;
enum %(u)s_en { %(u)s_EA = %(k2)d, %(u)s_EB, %(u)s_EC = %(k1)d + 100 };
union %(u)s_un { %(T1)s i; double d; char c[%(n)d]; };
int %(u)s_unsize(void) { return (int)sizeof(union %(u)s_un); }
double %(u)s_und(union %(u)s_un x) { return x.d * 2; }
union %(u)s_un %(u)s_unret(double d) { union %(u)s_un x; memset(&x, 0, sizeof(x)); x.d = d; return x; }
struct %(u)s_rec { int key; int w[3]; };
long long %(u)s_sumw(struct %(u)s_rec *a, int n) { long long s = 0; int i, j; for (i = 0; i < n; i++) for (j = 0; j < 3; j++) s += a[i].w[j]; return s; }
long long %(u)s_sum2(int (*a)[4], int n) { long long s = 0; int i, j; for (i = 0; i < n; i++) for (j = 1; j < 4; j++) s += a[i][j]; return s; }
struct %(u)s_bf { unsigned int p : %(bw1)d; int q : %(bw2)d; %(T2)s tail; };
int %(u)s_bfq(struct %(u)s_bf *s) { return s->q; }
struct %(u)s_opq { int secret; };
static struct %(u)s_opq %(u)s_theopq = { %(k1)d };
struct %(u)s_opq *%(u)s_getopq(void) { return &%(u)s_theopq; }
int %(u)s_useopq(struct %(u)s_opq *p) { return p->secret + 1; }
%(T3)s %(u)s_garr[%(n)d] = { 1, 2 };
const char *%(u)s_gstr = "hello-%(k1)d";
struct %(u)s_pt %(u)s_gpt = { 3, 4 };
int (*%(u)s_gfp)(int, int) = 0;
static int %(u)s_addmul(int a, int b) { return a * 3 + b; }
void %(u)s_setfp(void) { %(u)s_gfp = %(u)s_addmul; }
size_t %(u)s_wlen(const wchar_t *w) { return wcslen(w); }
long double %(u)s_ld(long double x) { return x * 2; }
_Bool %(u)s_not(_Bool b) { return !b; }
""" % {'u': u, 'T1': T1[0], 'T2': T2[0], 'T3': T3[0], 'k1': k1, 'k2': k2, 'n': n, 'bw1': bw1,
       'bw2': bw2, 'bigs': bigs, 'bigs2': bigs2, 'bigs3': bigs3, 'dbl': dbl}
    cdef = """
struct %(u)s_pt { %(T1)s a; %(T2)s b; };
struct %(u)s_pt %(u)s_mk(%(T1)s a, %(T2)s b);
long long %(u)s_ptsum(struct %(u)s_pt p);
void %(u)s_ptfill(struct %(u)s_pt *p, int v);
typedef struct { %(T3)s v; short w; ...; } %(u)s_part_t;
%(T3)s %(u)s_part_get(%(u)s_part_t *p);
long long %(u)s_sum(%(T3)s *a, int n);
size_t %(u)s_len(const char *s);
char *%(u)s_skip(char *s, int k);
int %(u)s_apply(int (*f)(int, int), int x);
long long %(u)s_vsum(int n, ...);
int %(u)s_MADD(int, int);
#define %(u)s_KBIG ...
#define %(u)s_KBIG2 ...
#define %(u)s_KBIG3 ...
#define %(u)s_KSMALL %(k2)d
static const double %(u)s_KD;
enum %(u)s_en { %(u)s_EA = %(k2)d, %(u)s_EB, %(u)s_EC = ... };
union %(u)s_un { %(T1)s i; double d; char c[%(n)d]; };
int %(u)s_unsize(void);
double %(u)s_und(union %(u)s_un x);
union %(u)s_un %(u)s_unret(double d);
struct %(u)s_rec { int key; int w[3]; };
long long %(u)s_sumw(struct %(u)s_rec *a, int n);
long long %(u)s_sum2(int (*a)[4], int n);
struct %(u)s_bf { unsigned int p : %(bw1)d; int q : %(bw2)d; %(T2)s tail; };
int %(u)s_bfq(struct %(u)s_bf *s);
struct %(u)s_opq;
struct %(u)s_opq *%(u)s_getopq(void);
int %(u)s_useopq(struct %(u)s_opq *p);
%(T3)s %(u)s_garr[%(n)d];
const char *%(u)s_gstr;
struct %(u)s_pt %(u)s_gpt;
int (*%(u)s_gfp)(int, int);
void %(u)s_setfp(void);
size_t %(u)s_wlen(const wchar_t *w);
long double %(u)s_ld(long double x);
_Bool %(u)s_not(_Bool b);
""" % {'u': u, 'T1': T1[0], 'T2': T2[0], 'T3': T3[0], 'k2': k2, 'n': n, 'bw1': bw1, 'bw2': bw2}

    def rng_of(T):
        return (-(1 << (8 * T[1] - 1)), (1 << (8 * T[1] - 1)) - 1) if T[2] else (0, (1 << 8 * T[1]) - 1)

    def val(T, r):
        lo, hi = rng_of(T)
        return r.choice([lo, hi, 0, 1, r.randint(lo, hi)])
    r = random.Random(seed ^ 0x7777)
    a1, b1 = val(T1, r), val(T2, r)
    over1 = rng_of(T1)[1] + 1
    arr = [val(T3, r) for _ in range(n)]
    vs = [r.randint(-2 ** 40, 2 ** 40) for _ in range(r.randint(0, 4))]
    text = bytes(r.randrange(1, 256) for _ in range(r.randint(0, 12)))
    x0 = r.randint(-1000, 1000)
    P = []
    g = lambda l, nm: getattr(l, u + '_' + nm)
    P.append(('struct-by-value-return', lambda f, l: (lambda p: (p.a, p.b))(g(l, 'mk')(a1, b1))))
    P.append(('struct-by-value-return-overflow', lambda f, l: g(l, 'mk')(over1, b1).a))
    P.append(('struct-by-value-arg', lambda f, l: g(l, 'ptsum')(f.new('struct %s_pt *' % u, [a1, b1])[0])))
    P.append(('struct-by-value-arg-wrong-type', lambda f, l: g(l, 'ptsum')(f.new('struct %s_pt *' % u))))
    P.append(('struct-by-value-arg-dict', lambda f, l: g(l, 'ptsum')({'a': a1, 'b': b1})))
    P.append(('struct-pointer-arg', lambda f, l: (lambda p: (g(l, 'ptfill')(p, x0 % 100), p.a, p.b))(f.new('struct %s_pt *' % u))))
    P.append(('struct-layout', lambda f, l: (f.sizeof('struct %s_pt' % u), f.alignof('struct %s_pt' % u), f.offsetof('struct %s_pt' % u, 'b'))))
    P.append(('partial-struct-layout', lambda f, l: (f.sizeof('%s_part_t' % u), f.offsetof('%s_part_t' % u, 'v'), f.offsetof('%s_part_t' % u, 'w'))))
    P.append(('partial-struct-use', lambda f, l: (lambda p: g(l, 'part_get')(p))(f.new('%s_part_t *' % u, {'v': arr[0], 'w': 7}))))
    P.append(('array-arg-list', lambda f, l: g(l, 'sum')(arr, n)))
    P.append(('array-arg-cdata', lambda f, l: g(l, 'sum')(f.new('%s[]' % T3[0], arr), n)))
    P.append(('array-arg-wrong-pointer-type', lambda f, l: g(l, 'sum')(f.new('double[]', 3), 3)))
    P.append(('array-arg-out-of-range-item', lambda f, l: g(l, 'sum')([rng_of(T3)[1] + 1], 1)))
    P.append(('array-arg-null', lambda f, l: g(l, 'sum')(f.NULL, 0)))
    P.append(('array-arg-int', lambda f, l: g(l, 'sum')(0, 0)))
    P.append(('string-arg-bytes', lambda f, l: g(l, 'len')(text)))
    P.append(('string-arg-str', lambda f, l: g(l, 'len')('abc')))
    P.append(('string-arg-cdata', lambda f, l: g(l, 'len')(f.new('char[]', text))))
    P.append(('string-arg-none', lambda f, l: g(l, 'len')(None)))
    P.append(('char-pointer-return', lambda f, l: (lambda b: f.string(g(l, 'skip')(b, 2)))(f.new('char[]', b'abcdef'))))
    P.append(('char-pointer-arg-bytes-for-nonconst', lambda f, l: f.typeof(g(l, 'skip')(b'abcdef', 1)).cname))
    P.append(('callback-arg', lambda f, l: g(l, 'apply')(f.callback('int(int, int)', lambda a, b: a * 2 - b), x0)))
    P.append(('callback-arg-wrong-signature', lambda f, l: g(l, 'apply')(f.callback('int(int)', lambda a: a), x0)))
    P.append(('callback-arg-python-function', lambda f, l: g(l, 'apply')(lambda a, b: a, x0)))
    P.append(('variadic', lambda f, l: g(l, 'vsum')(len(vs), *[f.cast('long long', v) for v in vs])))
    P.append(('variadic-plain-int-arg', lambda f, l: g(l, 'vsum')(1, 5)))
    P.append(('variadic-missing-fixed', lambda f, l: g(l, 'vsum')()))
    P.append(('macro-as-function', lambda f, l: g(l, 'MADD')(x0, 3)))
    P.append(('macro-as-function-overflow', lambda f, l: g(l, 'MADD')(2 ** 31, 3)))
    P.append(('dotdotdot-constant', lambda f, l: (g(l, 'KBIG'), g(l, 'KBIG2'), g(l, 'KBIG3'), type(g(l, 'KBIG')).__name__)))
    P.append(('int-constant', lambda f, l: g(l, 'KSMALL')))
    P.append(('double-constant', lambda f, l: g(l, 'KD')))
    P.append(('enum-dotdotdot', lambda f, l: (g(l, 'EA'), g(l, 'EB'), g(l, 'EC'), sorted(f.typeof('enum %s_en' % u).relements.items()), f.sizeof('enum %s_en' % u))))
    P.append(('union', lambda f, l: (f.sizeof('union %s_un' % u), g(l, 'unsize')(), f.offsetof('union %s_un' % u, 'c'))))
    P.append(('union-by-value-arg', lambda f, l: g(l, 'und')(f.new('union %s_un *' % u, {'d': dbl})[0])))
    P.append(('union-by-value-arg-dict', lambda f, l: g(l, 'und')({'d': dbl})))
    P.append(('union-by-value-result', lambda f, l: g(l, 'unret')(dbl).d))
    big = r.choice([41, 60, 200])        # > 640 bytes: the malloc'ed temporary of the wrappers
    P.append(('large-list-of-full-structs', lambda f, l: g(l, 'sumw')([[5, [7, 8, 9]]] * big, big)))
    P.append(('large-list-of-partial-structs', lambda f, l: g(l, 'sumw')([[k1]] * big, big)))
    P.append(('large-list-of-partial-struct-dicts', lambda f, l: g(l, 'sumw')([{'key': 3}] * big, big)))
    P.append(('large-list-of-full-rows', lambda f, l: g(l, 'sum2')([[1, 2, 3, 4]] * big, big)))
    P.append(('large-list-of-partial-rows', lambda f, l: g(l, 'sum2')([[k1]] * big, big)))
    P.append(('small-list-of-partial-structs', lambda f, l: g(l, 'sumw')([[k1]] * 5, 5)))
    P.append(('bitfield-struct', lambda f, l: (lambda p: (f.sizeof('struct %s_bf' % u), g(l, 'bfq')(p), p.p, p.tail))(f.new('struct %s_bf *' % u, {'p': 1, 'q': -1, 'tail': b1}))))
    P.append(('bitfield-overflow', lambda f, l: f.new('struct %s_bf *' % u, {'p': 1 << bw1})))
    P.append(('opaque-struct', lambda f, l: (lambda p: (g(l, 'useopq')(p), f.typeof(p).cname))(g(l, 'getopq')())))
    P.append(('opaque-struct-wrong-pointer', lambda f, l: g(l, 'useopq')(f.new('int *'))))
    P.append(('global-array', lambda f, l: (lambda a: (len(a), a[0], a[1], a[n - 1], f.typeof(a).cname))(g(l, 'garr'))))
    P.append(('global-array-write', lambda f, l: (lambda a: (a.__setitem__(n - 1, arr[0]), g(l, 'sum')(a, n)))(g(l, 'garr'))))
    P.append(('global-array-assign', lambda f, l: setattr(l, u + '_garr', [0] * n)))
    P.append(('global-array-index-out-of-range', lambda f, l: g(l, 'garr')[n]))
    P.append(('global-string', lambda f, l: f.string(g(l, 'gstr'))))
    P.append(('global-struct', lambda f, l: (lambda s_: (s_.a, s_.b, f.typeof(s_).cname))(g(l, 'gpt'))))
    P.append(('global-struct-write', lambda f, l: (setattr(g(l, 'gpt'), 'a', 9), g(l, 'ptsum')(g(l, 'gpt')), setattr(g(l, 'gpt'), 'a', 3))[1]))
    P.append(('global-function-pointer', lambda f, l: (g(l, 'gfp') == f.NULL, g(l, 'setfp')(), g(l, 'gfp')(5, 6), f.typeof(g(l, 'gfp')).cname)))
    # not probed (outside the statement, and the verify() library is a plain Python
    # object): ffi.addressof(lib, name), assigning to a function / unknown attribute,
    # the error class of sizeof(<opaque struct>)
    P.append(('global-missing', lambda f, l: getattr(l, u + '_nonexistent')))
    P.append(('wchar-arg', lambda f, l: g(l, 'wlen')(u'h\u1234llo')))
    P.append(('wchar-arg-bytes', lambda f, l: g(l, 'wlen')(b'abc')))
    P.append(('long-double', lambda f, l: float(g(l, 'ld')(1.25))))
    P.append(('long-double-type', lambda f, l: f.typeof(g(l, 'ld')(1.25)).cname))
    P.append(('bool', lambda f, l: (g(l, 'not')(True), g(l, 'not')(0))))
    P.append(('bool-out-of-range', lambda f, l: g(l, 'not')(2)))
    P.append(('too-many-args', lambda f, l: g(l, 'not')(True, False)))
    P.append(('keyword-args', lambda f, l: g(l, 'not')(b=True)))
    return cdef, src, P


def extras2(seed):
    """A third declaration block: enum-typed arguments and results (unsigned-,
    negative- and long-valued enums, anonymous / typedef'd / trailing-'...' enums),
    char / wchar_t / float / pointer / function-pointer results, errno round trips,
    global arrays of unknown length ('[...]' and '[]'), pointer / struct / valueless
    integer constants, hex / octal / suffixed / negative '#define's, nested structs,
    named partial structs with '[...]' fields, flexible array members, a struct
    declared in a cdef(packed=True), pointer / struct / float / bool global writes.
    Returns (cdef, packed cdef, C source, probes)."""
    rnd = random.Random(seed ^ 0x5e5e1)
    u = 'y%d' % (seed % 1000)
    TA, TB = rnd.choice(INT_T), rnd.choice(INT_T)
    na = rnd.choice([1, 3, 4, 7])
    ebig = rnd.choice([2 ** 31, 2 ** 32 - 1, 2 ** 31 + rnd.randint(1, 10 ** 6)])
    eneg = rnd.choice([-1, -2 ** 31, -rnd.randint(2, 10 ** 6)])
    elong = rnd.choice([2 ** 32, 2 ** 63 - 1, -2 ** 31 - 1, 2 ** 40 + rnd.randint(0, 999), -2 ** 63 + 1])
    kpc = rnd.randint(3, 90)
    hexv = rnd.choice([0xff, 0x7fffffff, 0x80000000, 0xffffffff, rnd.getrandbits(31)])
    octv = rnd.randint(8, 4000)
    sufv = rnd.choice([2 ** 63, 2 ** 64 - 1, 2 ** 63 + rnd.getrandbits(40)])
    negv = -rnd.randint(1, 2 ** 31)
    kull = rnd.choice([2 ** 64 - 1, 2 ** 63, rnd.getrandbits(64) | 2 ** 63])
    kll = rnd.choice([-2 ** 63 + 1, -1, -rnd.getrandbits(50)])
    flt = rnd.choice([0.25, -1.5, 1024.0])
    d = {'u': u, 'TA': TA[0], 'TB': TB[0], 'na': na, 'na1': na + 1, 'na2': na + 2, 'ebig': ebig,
         'eneg': eneg, 'elong': elong, 'kpc': kpc, 'hexv': hexv, 'octv': octv, 'sufv': sufv,
         'negv': negv, 'kull': kull, 'kll': kll, 'flt': flt,
         'ainit': ', '.join(str(i + 1) for i in range(na))}
    src = """
#include <errno.h>
enum %(u)s_ebig { %(u)s_BA = 1, %(u)s_BB = %(ebig)dU };
enum %(u)s_ebig %(u)s_enext(enum %(u)s_ebig e) { return e == %(u)s_BA ? %(u)s_BB : %(u)s_BA; }
enum %(u)s_eneg { %(u)s_NA = %(eneg)d, %(u)s_NB = 5 };
enum %(u)s_eneg %(u)s_eflip(enum %(u)s_eneg e) { return e == %(u)s_NA ? %(u)s_NB : %(u)s_NA; }
enum %(u)s_elong { %(u)s_LA = 0, %(u)s_LB = %(elong)dLL };
enum %(u)s_elong %(u)s_lnext(enum %(u)s_elong e) { return e == %(u)s_LA ? %(u)s_LB : %(u)s_LA; }
typedef enum { %(u)s_TA, %(u)s_TB = 7 } %(u)s_tenum_t;
%(u)s_tenum_t %(u)s_tnext(%(u)s_tenum_t e) { return e == %(u)s_TA ? %(u)s_TB : %(u)s_TA; }
enum { %(u)s_AN1 = 11, %(u)s_AN2 };
enum %(u)s_epart { %(u)s_PA, %(u)s_PB, %(u)s_PC = %(kpc)d };
int %(u)s_pval(enum %(u)s_epart e) { return (int)e * 2; }
char %(u)s_chr(char c) { return (char)(c ^ 1); }
wchar_t %(u)s_wch(wchar_t c) { return c + 1; }
float %(u)s_flt(float x) { return x * 2; }
void *%(u)s_vp(void *p) { return (char *)p + 1; }
int *%(u)s_ip(int *p, int k) { return p + k; }
static int %(u)s_sub(int a, int b) { return a - b * 2; }
int (*%(u)s_getfn(int which))(int, int) { return which ? %(u)s_sub : 0; }
int %(u)s_errset(int v) { errno = v; return v + 1; }
int %(u)s_errget(void) { return errno; }
%(TA)s %(u)s_uarr[%(na)d] = { %(ainit)s };
%(TA)s %(u)s_oarr[%(na1)d] = { 9, %(ainit)s };
static char *const %(u)s_KS = "const-%(kpc)d";
struct %(u)s_in { short s; %(TA)s t; };
static const struct %(u)s_in %(u)s_KIN = { 7, 1 };
static const unsigned long long %(u)s_KULL = %(kull)dULL;
static const long long %(u)s_KLL = %(kll)dLL;
static const float %(u)s_KF = %(flt)rf;
#define %(u)s_HEX 0x%(hexv)x
#define %(u)s_OCT 0%(octv)o
#define %(u)s_SUF %(sufv)dULL
#define %(u)s_NEG %(negv)d
struct %(u)s_out { char c; struct %(u)s_in in; struct %(u)s_in arr[2]; struct %(u)s_in *pin;
                  int (*fp)(int, int); %(TB)s *pb; %(TA)s tail[]; };
long long %(u)s_outsum(struct %(u)s_out *o, int n) { long long s = o->c + o->in.s + o->arr[1].t; int i;
    if (o->pin) s += o->pin->s * 100; if (o->fp) s += o->fp(2, 3);
    for (i = 0; i < n; i++) s += (long long)o->tail[i]; return s; }
struct %(u)s_np { char c0; long long hidden; %(TA)s v; char buf[%(na2)d]; double hidden2; };
void %(u)s_npfill(struct %(u)s_np *p) { memset(p, 0, sizeof(*p)); p->v = 1; p->buf[%(na)d] = 'z'; }
int %(u)s_npsize(void) { return (int)sizeof(struct %(u)s_np); }
#pragma pack(push, 1)
struct %(u)s_pk { char a; %(TA)s b; short c; double d; };
#pragma pack(pop)
long long %(u)s_pkget(struct %(u)s_pk *p) { return (long long)p->b * 3 + p->c; }
int %(u)s_pksize(void) { return (int)sizeof(struct %(u)s_pk); }
char *%(u)s_gptr = 0;
char %(u)s_gbuf[8] = "gbuf";
int %(u)s_gptr_is_buf(void) { return %(u)s_gptr == %(u)s_gbuf + 1; }
struct %(u)s_in %(u)s_gin = { 1, 2 };
long long %(u)s_ginsum(void) { return %(u)s_gin.s * 1000 + (long long)%(u)s_gin.t; }
float %(u)s_gflt = 1.5f;
_Bool %(u)s_gbool = 0;
double %(u)s_gsum(void) { return %(u)s_gflt * 2 + %(u)s_gbool; }
""" % d
    pcdef = "struct %(u)s_pk { char a; %(TA)s b; short c; double d; };\n" % d
    cdef = """
enum %(u)s_ebig { %(u)s_BA = 1, %(u)s_BB = %(ebig)d };
enum %(u)s_ebig %(u)s_enext(enum %(u)s_ebig e);
enum %(u)s_eneg { %(u)s_NA = %(eneg)d, %(u)s_NB = 5 };
enum %(u)s_eneg %(u)s_eflip(enum %(u)s_eneg e);
enum %(u)s_elong { %(u)s_LA = 0, %(u)s_LB = %(elong)d };
enum %(u)s_elong %(u)s_lnext(enum %(u)s_elong e);
typedef enum { %(u)s_TA, %(u)s_TB = 7 } %(u)s_tenum_t;
%(u)s_tenum_t %(u)s_tnext(%(u)s_tenum_t e);
enum { %(u)s_AN1 = 11, %(u)s_AN2 };
enum %(u)s_epart { %(u)s_PA, %(u)s_PB, ... };
int %(u)s_pval(enum %(u)s_epart e);
char %(u)s_chr(char c);
wchar_t %(u)s_wch(wchar_t c);
float %(u)s_flt(float x);
void *%(u)s_vp(void *p);
int *%(u)s_ip(int *p, int k);
int (*%(u)s_getfn(int which))(int, int);
int %(u)s_errset(int v);
int %(u)s_errget(void);
%(TA)s %(u)s_uarr[...];
%(TA)s %(u)s_oarr[];
static char *const %(u)s_KS;
struct %(u)s_in { short s; %(TA)s t; };
static const struct %(u)s_in %(u)s_KIN;
static const unsigned long long %(u)s_KULL;
static const long long %(u)s_KLL;
static const float %(u)s_KF;
#define %(u)s_HEX 0x%(hexv)x
#define %(u)s_OCT 0%(octv)o
#define %(u)s_SUF %(sufv)dULL
#define %(u)s_NEG %(negv)d
struct %(u)s_out { char c; struct %(u)s_in in; struct %(u)s_in arr[2]; struct %(u)s_in *pin;
                  int (*fp)(int, int); %(TB)s *pb; %(TA)s tail[]; };
long long %(u)s_outsum(struct %(u)s_out *o, int n);
struct %(u)s_np { %(TA)s v; char buf[...]; ...; };
void %(u)s_npfill(struct %(u)s_np *p);
int %(u)s_npsize(void);
long long %(u)s_pkget(struct %(u)s_pk *p);
int %(u)s_pksize(void);
char *%(u)s_gptr;
char %(u)s_gbuf[8];
int %(u)s_gptr_is_buf(void);
struct %(u)s_in %(u)s_gin;
long long %(u)s_ginsum(void);
float %(u)s_gflt;
_Bool %(u)s_gbool;
double %(u)s_gsum(void);
""" % d

    def rng_of(T):
        return (-(1 << (8 * T[1] - 1)), (1 << (8 * T[1] - 1)) - 1) if T[2] else (0, (1 << 8 * T[1]) - 1)
    r = random.Random(seed ^ 0x2222)
    lo, hi = rng_of(TA)
    av = r.choice([lo, hi, r.randint(lo, hi)])
    tailv = [r.choice([lo, hi, 0, r.randint(lo, hi)]) for _ in range(r.randint(0, 4))]
    ev = r.choice([1, 2, 34, 95, 4095])
    ch = bytes([r.randrange(256)])
    wc = r.choice([u'a', u'ሴ', u'\U0001f600', u'\x00'])
    fv = r.choice([0.5, 3.0, 1e30, 1e300, -1e300, float('inf')])
    P = []
    g = lambda l, nm: getattr(l, u + '_' + nm)
    fields = lambda f, T: [(n_, fl.offset, fl.type.cname, fl.bitsize, fl.bitshift)
                           for n_, fl in f.typeof(T).fields]
    en = lambda f, T: (lambda t: (f.sizeof(t), sorted(t.relements.items()), t.cname,
                                  int(f.cast(t, -1))))(f.typeof(T))
    for nm, fn_, a, b in (('ebig', 'enext', 'BA', 'BB'), ('eneg', 'eflip', 'NA', 'NB'),
                          ('elong', 'lnext', 'LA', 'LB')):
        P.append(('enum-type:' + nm, lambda f, l, nm=nm: en(f, 'enum %s_%s' % (u, nm))))
        P.append(('enum-result:' + nm, lambda f, l, fn_=fn_, a=a, b=b:
                  (g(l, fn_)(g(l, a)), g(l, fn_)(g(l, b)), g(l, a), g(l, b))))
        P.append(('enum-arg-name-string:' + nm, lambda f, l, fn_=fn_, a=a: g(l, fn_)(u + '_' + a)))
        P.append(('enum-arg-undeclared-value:' + nm, lambda f, l, fn_=fn_: g(l, fn_)(3)))
        P.append(('enum-arg-out-of-range:' + nm, lambda f, l, fn_=fn_: g(l, fn_)(2 ** 64)))
        P.append(('enum-arg-out-of-range-negative:' + nm, lambda f, l, fn_=fn_: g(l, fn_)(-2 ** 63 - 1)))
        P.append(('enum-arg-cdata:' + nm, lambda f, l, fn_=fn_, nm=nm, b=b:
                  g(l, fn_)(f.cast('enum %s_%s' % (u, nm), g(l, b)))))
        P.append(('enum-arg-wrong-type:' + nm, lambda f, l, fn_=fn_: g(l, fn_)(1.0)))
    P.append(('enum-typedef-anonymous', lambda f, l: (en(f, u + '_tenum_t'), g(l, 'tnext')(0), g(l, 'tnext')(7),
                                                       g(l, 'TA'), g(l, 'TB'))))
    P.append(('enum-anonymous-enumerators', lambda f, l: (g(l, 'AN1'), g(l, 'AN2'))))
    P.append(('enum-trailing-dotdotdot', lambda f, l: (en(f, 'enum %s_epart' % u), g(l, 'PA'), g(l, 'PB'),
                                                        g(l, 'pval')(g(l, 'PB')), g(l, 'pval')(ev))))
    P.append(('enum-trailing-dotdotdot-hidden-enumerator', lambda f, l: g(l, 'PC')))
    P.append(('char-arg-result', lambda f, l: g(l, 'chr')(ch)))
    P.append(('char-arg-int', lambda f, l: g(l, 'chr')(65)))
    P.append(('char-arg-two-bytes', lambda f, l: g(l, 'chr')(b'ab')))
    P.append(('char-arg-str', lambda f, l: g(l, 'chr')('a')))
    P.append(('wchar-arg-result', lambda f, l: g(l, 'wch')(wc)))
    P.append(('wchar-arg-bytes-for-char', lambda f, l: g(l, 'wch')(b'a')))
    P.append(('wchar-arg-two-chars', lambda f, l: g(l, 'wch')(u'ab')))
    P.append(('float-arg-result', lambda f, l: repr(g(l, 'flt')(fv))))
    P.append(('float-arg-nan', lambda f, l: repr(g(l, 'flt')(float('nan')))))
    P.append(('float-arg-int', lambda f, l: g(l, 'flt')(3)))
    P.append(('float-arg-index-object', lambda f, l: g(l, 'flt')(f.cast('int', 3))))
    P.append(('float-arg-float-cdata', lambda f, l: g(l, 'flt')(f.cast('double', 1.5))))
    P.append(('int-arg-int-cdata', lambda f, l: g(l, 'errset')(f.cast('short', 9))))
    P.append(('int-arg-float-cdata', lambda f, l: g(l, 'errset')(f.cast('double', 9.0))))
    P.append(('int-arg-bool', lambda f, l: g(l, 'errset')(True)))
    P.append(('void-pointer-arg-result', lambda f, l: (lambda b: (f.typeof(g(l, 'vp')(b)).cname,
              g(l, 'vp')(b) == f.cast('void *', b + 1), g(l, 'vp')(f.NULL) == f.cast('void *', 1)))(f.new('char[]', 4))))
    P.append(('void-pointer-arg-other-pointer', lambda f, l: f.typeof(g(l, 'vp')(f.new('struct %s_in *' % u))).cname))
    P.append(('void-pointer-arg-bytes', lambda f, l: f.typeof(g(l, 'vp')(b'xy')).cname))
    P.append(('void-pointer-arg-int', lambda f, l: g(l, 'vp')(5)))
    P.append(('void-pointer-arg-from-buffer', lambda f, l: (lambda ba: g(l, 'vp')(f.from_buffer(ba)) ==
              f.cast('void *', f.from_buffer(ba)) + 1)(bytearray(b'abcd'))))
    P.append(('int-pointer-result', lambda f, l: (lambda a: (g(l, 'ip')(a, 2)[0], f.typeof(g(l, 'ip')(a, 1)).cname,
              g(l, 'ip')(a, 0) == a))(f.new('int[]', [5, 6, 7]))))
    P.append(('int-pointer-arg-char-pointer', lambda f, l: g(l, 'ip')(f.new('char[]', 8), 0)))
    P.append(('int-pointer-arg-void-pointer', lambda f, l: f.typeof(g(l, 'ip')(f.cast('void *', 0), 0)).cname))
    P.append(('function-pointer-result', lambda f, l: (lambda fp: (f.typeof(fp).cname, fp(10, 3),
              g(l, 'getfn')(0) == f.NULL))(g(l, 'getfn')(1))))
    P.append(('errno-set-by-call', lambda f, l: (setattr(f, 'errno', 0), g(l, 'errset')(ev), f.errno)[1:]))
    P.append(('errno-seen-by-call', lambda f, l: (setattr(f, 'errno', ev + 1), g(l, 'errget')())[1]))
    P.append(('errno-kept-across-calls', lambda f, l: (setattr(f, 'errno', 0), g(l, 'errset')(ev + 2),
                                                        g(l, 'errget')(), f.errno)[1:]))
    P.append(('global-array-dotdotdot-length', lambda f, l: (lambda a: (f.typeof(a).cname, len(a), a[0], a[na - 1],
              f.sizeof(a)))(g(l, 'uarr'))))
    P.append(('global-array-dotdotdot-write', lambda f, l: (lambda a: (a.__setitem__(na - 1, av), a[na - 1],
              a.__setitem__(na - 1, na))[1])(g(l, 'uarr'))))
    P.append(('global-array-dotdotdot-index-out-of-range', lambda f, l: g(l, 'uarr')[na]))
    P.append(('global-array-open-length', lambda f, l: (lambda a: (a[0], a[na]))(g(l, 'oarr'))))
    P.append(('global-array-open-length-type', lambda f, l: f.typeof(g(l, 'oarr')).kind))
    P.append(('pointer-constant', lambda f, l: (f.typeof(g(l, 'KS')).cname, f.string(g(l, 'KS')))))
    # not probed: assigning to a constant (the verify() library is a plain Python object)
    P.append(('struct-constant', lambda f, l: (f.typeof(g(l, 'KIN')).cname, g(l, 'KIN').s, g(l, 'KIN').t)))
    P.append(('valueless-integer-constants', lambda f, l: (g(l, 'KULL'), g(l, 'KLL'))))
    P.append(('float-constant', lambda f, l: g(l, 'KF')))
    P.append(('define-hex-octal-suffix-negative', lambda f, l: (g(l, 'HEX'), g(l, 'OCT'), g(l, 'SUF'), g(l, 'NEG'))))
    P.append(('nested-struct-layout', lambda f, l: (f.sizeof('struct %s_out' % u), f.alignof('struct %s_out' % u),
                                                   fields(f, 'struct %s_out' % u), fields(f, 'struct %s_in' % u))))
    P.append(('nested-struct-flexible-array-use', lambda f, l: (lambda i_, cb: (lambda o: g(l, 'outsum')(o, len(tailv)))(
        f.new('struct %s_out *' % u, {'c': b'\x03', 'in': {'s': -4}, 'arr': [{}, {'t': av}], 'pin': i_, 'fp': cb,
                                       'tail': tailv})))(f.new('struct %s_in *' % u, [7, 0]),
                                                         f.callback('int(int, int)', lambda a, b: a * b))))
    P.append(('nested-struct-flexible-array-size', lambda f, l: f.sizeof(f.new('struct %s_out *' % u, {'tail': 3})[0])))
    P.append(('named-partial-struct-layout', lambda f, l: (f.sizeof('struct %s_np' % u), g(l, 'npsize')(),
                                                          f.alignof('struct %s_np' % u), fields(f, 'struct %s_np' % u))))
    P.append(('named-partial-struct-use', lambda f, l: (lambda p: (g(l, 'npfill')(p), p.v, len(p.buf), p.buf[na],
                                                                   f.typeof(p.buf).cname)[1:])(f.new('struct %s_np *' % u))))
    P.append(('named-partial-struct-array-field-out-of-range', lambda f, l: f.new('struct %s_np *' % u).buf[na + 2]))
    P.append(('packed-struct-layout', lambda f, l: (f.sizeof('struct %s_pk' % u), g(l, 'pksize')(),
                                                    f.alignof('struct %s_pk' % u), fields(f, 'struct %s_pk' % u))))
    P.append(('packed-struct-use', lambda f, l: g(l, 'pkget')(f.new('struct %s_pk *' % u, {'b': av, 'c': -3}))))
    P.append(('global-pointer-write', lambda f, l: (g(l, 'gptr') == f.NULL, setattr(l, u + '_gptr', g(l, 'gbuf') + 1),
              g(l, 'gptr_is_buf')(), f.string(g(l, 'gptr')), f.typeof(g(l, 'gptr')).cname,
              setattr(l, u + '_gptr', f.NULL))[:-1]))
    P.append(('global-pointer-write-wrong-type', lambda f, l: setattr(l, u + '_gptr', f.new('int *'))))
    P.append(('global-pointer-write-int', lambda f, l: setattr(l, u + '_gptr', 5)))
    P.append(('global-struct-assign', lambda f, l: (setattr(l, u + '_gin', f.new('struct %s_in *' % u, [3, av])[0]),
              g(l, 'ginsum')(), setattr(l, u + '_gin', {'s': 1, 't': 2}), g(l, 'ginsum')())))
    P.append(('global-struct-assign-wrong-type', lambda f, l: setattr(l, u + '_gin', 5)))
    P.append(('global-float-bool-write', lambda f, l: (setattr(l, u + '_gflt', 0.1), setattr(l, u + '_gbool', True),
              g(l, 'gsum')(), g(l, 'gflt'), g(l, 'gbool'), setattr(l, u + '_gflt', 1.5),
              setattr(l, u + '_gbool', False))[:-2]))
    P.append(('global-bool-write-out-of-range', lambda f, l: setattr(l, u + '_gbool', 2)))
    P.append(('global-float-write-wrong-type', lambda f, l: setattr(l, u + '_gflt', 'x')))
    return cdef, pcdef, src, P


def history(seed):
    """A small (cdef, C source) pair for the build-history scenario: the source
    reads the macro C33ALT (given through define_macros=) and the judged cdef has a
    sibling cdef (the 'earlier' one) declaring less of the same source.
    Returns (earlier cdef, cdef, C source, observe(ffi, lib) -> comparable)."""
    rnd = random.Random(seed ^ 0x415)
    u = 'h%d' % (seed % 1000)
    T = rnd.choice(INT_T)
    k, kalt = rnd.sample(range(2, 200), 2)
    pad = rnd.choice([1, 3, 9])
    d = {'u': u, 'T': T[0], 'k': k, 'kalt': kalt, 'pad': pad}
    src = """
#include <stdint.h>
#include <stddef.h>
#ifdef C33ALT
# define %(u)s_K %(kalt)d
struct %(u)s_s { char pad[%(pad)d]; %(T)s v; double d; };
#else
# define %(u)s_K %(k)d
struct %(u)s_s { %(T)s v; char pad; };
#endif
enum %(u)s_e { %(u)s_EA = %(u)s_K + 1, %(u)s_EB };
%(T)s %(u)s_get(struct %(u)s_s *p) { return p->v; }
long long %(u)s_f(int x) { return (long long)x * %(u)s_K; }
long long %(u)s_g(int x) { return (long long)x - %(u)s_K; }
%(T)s %(u)s_glob = 5;
""" % d
    decls = ["#define %(u)s_K ...", "struct %(u)s_s { %(T)s v; ...; };",
             "enum %(u)s_e { %(u)s_EA = ..., %(u)s_EB };", "%(T)s %(u)s_get(struct %(u)s_s *p);",
             "long long %(u)s_f(int x);", "long long %(u)s_g(int x);", "%(T)s %(u)s_glob;"]
    cdef = '\n'.join(decls) % d + '\n'
    # the earlier cdef: one declaration dropped, or the struct left opaque
    how = rnd.choice(['drop-function', 'drop-global', 'drop-macro', 'opaque-struct', 'drop-enum'])
    early = list(decls)
    if how == 'opaque-struct':
        early[1] = "struct %(u)s_s;"
    else:
        del early[{'drop-function': 5, 'drop-global': 6, 'drop-macro': 0, 'drop-enum': 2}[how]]
    early = '\n'.join(early) % d + '\n'
    lo, hi = (-(1 << (8 * T[1] - 1)), (1 << (8 * T[1] - 1)) - 1) if T[2] else (0, (1 << 8 * T[1]) - 1)
    v = rnd.choice([lo, hi, rnd.randint(lo, hi)])
    x = rnd.randint(-10 ** 6, 10 ** 6)

    def observe(f, l):
        out = []
        S = 'struct %s_s' % u
        for fn in (lambda: getattr(l, u + '_K'), lambda: (getattr(l, u + '_EA'), getattr(l, u + '_EB')),
                   lambda: sorted(f.typeof('enum %s_e' % u).relements.items()),
                   lambda: (f.sizeof(S), f.alignof(S), f.offsetof(S, 'v')),
                   lambda: getattr(l, u + '_get')(f.new(S + ' *', {'v': v})),
                   lambda: getattr(l, u + '_get')(f.new('int *')),
                   lambda: getattr(l, u + '_f')(x), lambda: getattr(l, u + '_g')(x),
                   lambda: getattr(l, u + '_f')('bad'), lambda: getattr(l, u + '_g')(2 ** 31),
                   lambda: (getattr(l, u + '_glob'), setattr(l, u + '_glob', v), getattr(l, u + '_glob'),
                            setattr(l, u + '_glob', 5)),
                   lambda: setattr(l, u + '_glob', hi + 1),
                   lambda: sorted(n for n in dir(l) if not n.startswith('_'))):
            try:
                out.append(('ok', fn()))
            except Exception as e:
                out.append(('exc', type(e).__name__))
        return out
    return how, early, cdef, src, observe


def run_history(rep, case, wd):
    """History / entry-point classes of verify(): an earlier verify() of the same
    source with another cdef in the same tmpdir, a later one that differs only in
    define_macros=, a repeated verify() of identical inputs from a new FFI (served
    from the compiled module already in tmpdir), and modulename= / tag=."""
    import importlib
    from cffi import FFI
    seed = case['seed']
    how, early, cdef, src, observe = history(seed)
    alt = {'define_macros': [('C33ALT', '1')]}
    rnd = random.Random(seed ^ 0x99)
    tdir = os.path.join(wd, 'hist_%s' % case['tag'])
    os.makedirs(tdir, exist_ok=True)

    def sofiles():
        return sorted((n, os.stat(os.path.join(tdir, n)).st_mtime_ns) for n in os.listdir(tdir)
                      if n.endswith('.so'))
    ref = {}
    try:
        for cfg, kw in (('plain', {}), ('define_macros', alt)):
            f0 = FFI()
            f0.cdef(cdef)
            name = '_c33h_%s_%s_%d' % (cfg, case['tag'], seed % 100000)
            f0.set_source(name, src, **kw)
            f0.compile(tmpdir=wd, verbose=False)
            m = importlib.import_module(name)
            ref[cfg] = observe(m.ffi, m.lib)
    except Exception:
        import traceback
        rep.bad('history-build-raised:set_source', traceback.format_exc()[-1200:], seed)
        return
    # one engine per case (each verify() build costs seconds); both over a run
    engines = (('verify_cpy', {}), ('verify_gen', {'force_generic_engine': True}))
    for eng, ekw in (engines[int(case['tag']) % 2],):
        entry = rnd.choice(['modulename', 'tag'])
        steps = [('earlier-cdef:' + how, early, {}, None),
                 ('after-earlier-cdef', cdef, {}, 'plain'),
                 ('after-same-inputs-without-define_macros', cdef, alt, 'define_macros'),
                 ('repeated-identical-inputs', cdef, {}, 'plain'),
                 ('repeated-identical-inputs-define_macros', cdef, alt, 'define_macros'),
                 (entry, cdef, {'modulename': '_c33m_%s_%s_%d' % (eng, case['tag'], seed % 100000)}
                  if entry == 'modulename' else {'tag': 'c33t%s' % case['tag']}, 'plain')]
        for step, cd, kw, cfg in steps:
            before = sofiles()
            try:
                f = FFI()
                f.cdef(cd)
                kw = dict(kw)
                kw.update(ekw)
                lib = f.verify(src, tmpdir=tdir, **kw)
                got = observe(f, lib) if cfg else None
            except Exception:
                import traceback
                rep.bad('history-build-raised:%s:%s' % (step.split(':')[0], eng),
                        'earlier cdef variant %s\n%s' % (how, traceback.format_exc()[-1200:]), seed)
                break
            rep.stat('history_verify_' + step.split(':')[0])
            if step.startswith('repeated') and sofiles() == before:
                rep.stat('history_served_from_compiled_module_in_tmpdir')
            if cfg is None:
                rep.stat('history_earlier_cdef_' + how)
                continue
            rep.case(('history', eng, step, repr(ref[cfg])[:200]),
                     sample={'history_step': step, 'engine': eng, 'set_source': repr(ref[cfg])[:120]})
            if got != ref[cfg]:
                diff = [(i, a, b) for i, (a, b) in enumerate(zip(ref[cfg], got)) if a != b]
                rep.bad('history-differs:%s:%s' % (step, eng),
                        'verify() step %r (earlier cdef variant %s): observation index, set_source, %s: %r'
                        % (step, how, eng, diff[:4]), seed)


def generate(ctx):
    rng = ctx.rng('gen')
    n = ctx.scale(8, 120)
    return None, [{'seed': rng.getrandbits(40), 'tag': str(i)} for i in range(n)]


def child_setup(setup, wd):
    import warnings
    warnings.simplefilter('ignore')
    sys.path.insert(0, wd)
    return {'wd': wd}


def bad_args(rnd, T):
    c = [2 ** 70, -2 ** 70, 'str', None, 1.5 if T not in ('double', 'float') else 'x']
    if T in c12.INT_RANGE:          # just outside the range, on both sides
        size, signed = c12.INT_RANGE[T]
        lo, hi = (-(1 << (8 * size - 1)), (1 << (8 * size - 1)) - 1) if signed else (0, (1 << 8 * size) - 1)
        c += [hi + 1, lo - 1, hi + 1, lo - 1]
    elif T == '_Bool':
        c += [2, -1]
    return rnd.choice(c)


def outcome(f, args):
    try:
        r = f(*args)
        return ('ok', type(r).__name__, r)
    except Exception as e:
        return ('exc', type(e).__name__)


def child_case(st, case):
    import importlib
    from cffi import FFI
    rep = core.ChildRep()
    items = c12.gen_source(case['seed'])
    xcdef, xsrc, probes = extras(case['seed'])
    ycdef, pcdef, ysrc, probes2 = extras2(case['seed'])
    probes = probes + probes2
    src = c12.c_source(items) + xsrc + ysrc
    cdef = c12.cdef_text(items) + xcdef + ycdef
    wd = st['wd']
    libs = {}
    try:
        f0 = FFI()
        f0.cdef(pcdef, packed=True)
        f0.cdef(cdef)
        name = '_c33s_%s_%d' % (case['tag'], case['seed'] % 100000)
        f0.set_source(name, src)
        f0.compile(tmpdir=wd, verbose=False)
        m = importlib.import_module(name)
        libs['set_source'] = (m.ffi, m.lib)
        for eng, kw in (('verify_cpy', {}), ('verify_gen', {'force_generic_engine': True})):
            f = FFI()
            f.cdef(pcdef, packed=True)
            f.cdef(cdef)
            lib = f.verify(src, tmpdir=os.path.join(wd, '%s_%s' % (eng, case['tag'])), **kw)
            libs[eng] = (f, lib)
    except Exception as e:
        import traceback
        rep.bad('build-raised:' + type(e).__name__, traceback.format_exc()[-1200:], case['seed'])
        return rep.result()
    rnd = random.Random(case['seed'] + 7)
    ref_ffi, ref_lib = libs['set_source']
    names = {}
    for k, (f, l) in libs.items():
        names[k] = set(n for n in dir(l) if not n.startswith('_'))
    rep.case(('names', case['seed']), sample={'exposed_names': len(names['set_source'])})
    for k in ('verify_cpy', 'verify_gen'):
        if names[k] != names['set_source']:
            rep.bad('exposed-names-differ:' + k, 'only set_source: %r, only %s: %r' % (
                sorted(names['set_source'] - names[k])[:8], k,
                sorted(names[k] - names['set_source'])[:8]), case['seed'])
    for it in items:
        kind = it['kind']
        res = {}
        if kind == 'struct':
            tag = 'struct ' + it['name']
            for k, (f, l) in libs.items():
                try:
                    res[k] = ('ok', f.sizeof(tag), f.alignof(tag),
                              [(fn, f.offsetof(tag, fn)) for fn, _, _ in it['fields']],
                              [(n_, fl.offset, fl.type.cname, fl.bitsize) for n_, fl in f.typeof(tag).fields])
                except Exception as e:
                    res[k] = ('exc', type(e).__name__, str(e)[:100])
            rep.case((kind, c12.render_struct(it['name'], it['fields'])),
                     nontrivial=len(it['fields']) >= 2,
                     sample={'struct': c12.render_struct(it['name'], it['fields'])})
            rep.stat('structs')
        elif kind == 'const':
            for k, (f, l) in libs.items():
                res[k] = outcome(lambda: getattr(l, it['name']), ())
            rep.case((kind, it['name'], it['value']))
            rep.stat('constants')
        elif kind == 'enum':
            for k, (f, l) in libs.items():
                try:
                    t = f.typeof('enum ' + it['name'])
                    res[k] = ('ok', [getattr(l, n) for n, v in it['values']], f.sizeof(t),
                              sorted(t.relements.items()),
                              [f.string(f.cast(t, v)) for n, v in it['values']])
                except Exception as e:
                    res[k] = ('exc', type(e).__name__, str(e)[:100])
            rep.case((kind, it['name'], tuple(it['values'])))
            rep.stat('enums')
        elif kind == 'func':
            for trial in range(8):
                if trial < 5:
                    args = [c12.argval(rnd, a) for a in it['args']]
                else:
                    args = [c12.argval(rnd, a) for a in it['args']]
                    if args:
                        j = rnd.randrange(len(args))
                        args[j] = bad_args(rnd, it['args'][j])
                        if isinstance(args[j], int) and not isinstance(args[j], bool) and abs(args[j]) < 2 ** 65:
                            rep.stat('function_calls_arg_just_out_of_range')
                    else:
                        args = [1]      # too many arguments
                res = {}
                for k, (f, l) in libs.items():
                    res[k] = outcome(getattr(l, it['name']), args)
                rep.case((kind, it['name'], repr(args)), nontrivial=bool(it['args']),
                         sample={'call': '%s%r' % (it['name'], tuple(args)),
                                 'set_source': repr(res['set_source'])[:80]})
                rep.stat('function_calls')
                compare(rep, res, '%s %s(%s) with %r' % (it['ret'], it['name'],
                                                          ', '.join(it['args']), args),
                        'call', case['seed'])
            continue
        elif kind == 'glob':
            n, T = it['name'], it['type']
            v = c12.argval(rnd, T)
            for k, (f, l) in libs.items():
                try:
                    before = getattr(l, n)
                    setattr(l, n, v)
                    seen_by_c = getattr(l, 'get_' + n)()
                    getattr(l, 'set_' + n)(before)
                    res[k] = ('ok', type(before).__name__, seen_by_c, getattr(l, n) == before)
                except Exception as e:
                    res[k] = ('exc', type(e).__name__, str(e)[:100])
            rep.case((kind, n, T, v))
            rep.stat('globals')
        compare(rep, res, '%s %s' % (kind, it['name']), kind, case['seed'])
    for label, fn in probes:
        res = {}
        for k, (f, l) in libs.items():
            try:
                v = fn(f, l)
                res[k] = ('ok', type(v).__name__, v if not hasattr(v, '__cffi__') and
                          'CData' not in type(v).__mro__[-2].__name__ else repr(v)[:40])
            except Exception as e:
                res[k] = ('exc', type(e).__name__)
        rep.case(('extra', label, repr(res['set_source'])[:80]),
                 sample={'probe': label, 'set_source': repr(res['set_source'])[:80]})
        rep.stat('extra_probes')
        rep.stat('extra_probe_' + ('ok' if res['set_source'][0] == 'ok' else 'raises'))
        compare(rep, res, 'probe %s' % label, 'extra:' + label, case['seed'])
    run_history(rep, case, wd)
    return rep.result()


def compare(rep, res, what, kind, seed):
    ref = res['set_source']
    for k in ('verify_cpy', 'verify_gen'):
        if res[k] != ref:
            sub = 'accept-vs-raise' if res[k][0] != ref[0] else (
                'exception-class' if ref[0] == 'exc' else 'value')
            rep.bad('%s-differs:%s:%s' % (kind, sub, k), '%s: set_source -> %r, %s -> %r' %
                    (what, ref, k, res[k]), seed)


def judge(ctx, setup, case, obs):
    core.absorb(ctx, case, obs, lambda seed: case)
