"""C25 -- every declared name is found by the runtime lookup of generated tables.

Exploration on real modules: random identifier sets (prefix chains, case pairs,
'_'/digit/letter borders, standard type names +-1 character, identifiers of 49-300
characters sharing a long prefix) are declared as globals (#define, enumerator,
function, variadic function, variable, integer / non-integer constant, extern
"Python"), struct/union tags (complete, opaque, partial, with an anonymous inner
struct whose table key is '$<counter>'), enum tags (1-40 enumerators), typedefs and
typedef-only structs/unions/enums (table key '$NAME') whose *value/size encodes
their identity*, emitted as out-of-line ABI modules and compiled API modules, alone
or as groups of 2-4 modules that ffi.include() each other (pair, chain of 3, one
module including two, a chain under the second include, diamond), and looked up on
the ASan/UBSan backend through every entry point that takes a name: lib.<name>
(twice: cache), ffi.integer_const, ffi.addressof(lib, name), lib.<name> = x,
lib.__dict__ / __all__ / dir(), ffi.def_extern, the array length inside a type
string ('char[NAME]'), ffi.typeof / sizeof / getctype / new with '<name>' /
'struct <name>' / 'enum <name>' alone or followed by '*', '[2]', inside a function
type; lazy struct completion searches the tag ('$<counter>', '$NAME') again.
Undeclared neighbours must be rejected on the same entry points.

Stand-alone: harness/c25_search.c includes the tree's parse_c_type.c and runs
search_in_*() and parse_c_type() over tables written in Python sorted() order
(oracle: the index in that list), plus every subset of size <= K of a small
universe with every member of the universe as key (oracle: linear scan).
Thorough tier: the same file as a libFuzzer target.
"""
import os, sys, re, json, string, hashlib, subprocess, random, math
import concurrent.futures as cf
from vlib import core, build, modbuild

RULE = ("module case = one generated module (out-of-line ABI or compiled API), alone or the top / an inner "
        "member of a group of 2-4 modules including each other (pair, chain3, fan3, mixed4, diamond4), "
        "declaring 1-400 (API: 1-60, API groups 16-150) names per kind (globals: #define / enumerator / "
        "function / variadic function / variable / integer constant / non-integer constant / extern "
        "\"Python\"; struct+union tags complete / opaque / partial / with an anonymous inner struct; "
        "enum tags with 1-40 enumerators; typedefs; typedef-only structs, unions, enums), names grown by "
        "mutation from each other (prefix, extension by '_'/digit/letter, case flips, last character "
        "moved across the digit<upper<'_'<lower borders, doubled, standard type names +-1 character, "
        "49-300 characters with a common prefix), the same spelling reused across tables where C allows; "
        "every declared name is looked up on every entry point that applies to its kind (lib getattr "
        "+ cached getattr, integer_const, addressof, setattr, array length in a type string, def_extern, "
        "typeof/sizeof/getctype/new, lazy completion, lib.__dict__/__all__/dir) and must give its own "
        "identity (value / array length / struct size / inner field / enumerator map), about 2 "
        "undeclared neighbours per name must be rejected on the same entry points; table case = one "
        "synthetic sorted table of 0-400 names in the stand-alone harness with all names and 10x as many "
        "absent keys, each as an unterminated exact-size key and embedded in a longer identifier, "
        "through the 4 search_in_* functions and parse_c_type; distinct = (path, name set member); "
        "non-trivial = the table holds more than one name")
ASSUMPTIONS = ["identifiers are ASCII C identifiers (plus cffi's own '$' names in the synthetic tables); "
               "C keywords, names cffi resolves without any declaration (standard/common types) and "
               "names starting with '__' / '_cffi' are outside the class; so are lookup keys that are "
               "not identifiers (e.g. with an embedded NUL)",
               "API modules avoid every identifier token of the preprocessed Python.h + generated "
               "wrapper code (they would not compile); the ABI modules have no such restriction",
               "an undeclared typedef probe is skipped when a context-free _cffi_backend.FFI() resolves it",
               "ABI functions/variables/constants without value are resolved by dlsym() in dlopen(None): "
               "'found' is decided by the error class (ffi.error 'symbol not found' = entry found, "
               "AttributeError = not found) and their value is not judged",
               "names of an included module: types, constants, and in API mode functions and variables "
               "must be found through the including module (doc/source/cdef.rst, ffi.include()); the array "
               "length lookup inside a type string only sees the module's own table (macros of included "
               "modules are counted, not judged); def_extern goes through the declaring module's ffi"]

KEYWORDS = set('''auto break case char const continue default do double else enum extern float for
goto if inline int long register restrict return short signed sizeof static struct switch typedef
union unsigned void volatile while _Bool _Complex _Imaginary _Alignas _Alignof _Atomic _Generic
_Noreturn _Static_assert _Thread_local _Pragma __int128 offsetof asm typeof bool WINAPI
wchar_t char16_t char32_t size_t ssize_t ptrdiff_t intptr_t uintptr_t intmax_t uintmax_t FILE
_IO_FILE va_list f_ _cffi_float_complex_t _cffi_double_complex_t'''.split())
STD = ['size_t', 'ssize_t', 'wchar_t', 'ptrdiff_t', 'intptr_t', 'uintmax_t', 'char16_t', 'FILE',
       'int', 'char', 'long', 'short', 'double', 'unsigned', '_Bool', 'void', 'float', 'struct',
       'enum', 'union', 'const']
for _p in ('int', 'uint', 'int_least', 'uint_least', 'int_fast', 'uint_fast'):
    for _b in (8, 16, 32, 64):
        KEYWORDS.add('%s%d_t' % (_p, _b))
        STD.append('%s%d_t' % (_p, _b))
IDRE = re.compile(r'[A-Za-z_][A-Za-z0-9_]*\Z')
FIRST = string.ascii_letters + '_'
IDCH = FIRST + string.digits
ORDERED = ''.join(sorted(IDCH))            # 0-9 < A-Z < '_' < a-z
ABI_GK = ['macro'] * 8 + ['func', 'func', 'var', 'var', 'dconst', 'iconst']
API_GK = ['macro', 'macro', 'func', 'var', 'dconst', 'externpy', 'iconst', 'vfunc']
SYMBOL_KINDS = ('func', 'var', 'dconst', 'iconst')     # ABI: resolved by dlsym() after the lookup


# ---- identifier sets ---------------------------------------------------------

# identifiers that the lib object also answers itself when nothing of that name is declared
LIB_SPECIAL = ['__name__', '__loader__', '__spec__', '__class__']


def ok_name(s, avoid=()):
    return (IDRE.match(s) is not None and len(s) <= 300 and s not in KEYWORDS and
            (not s.startswith(('__', '_cffi', '_CFFI')) or s in LIB_SPECIAL) and s not in avoid)


def mutate(rng, s, alpha):
    op = rng.randrange(10)
    if op == 0:
        return s + '_'
    if op == 1:
        return s + rng.choice(alpha)
    if op == 2:
        return s[:-1]
    if op == 3:
        return s.swapcase()
    if op == 4:
        k = rng.randrange(len(s))
        return s[:k] + s[k].swapcase() + s[k + 1:]
    if op == 5:
        return s[:-1] + ORDERED[(ORDERED.index(s[-1]) + rng.choice((-1, 1))) % len(ORDERED)]
    if op == 6:
        return s + s
    if op == 7:
        k = rng.randrange(len(s) + 1)
        return s[:k] + rng.choice(alpha) + s[k:]
    t = rng.choice(STD)
    if op == 8:
        k = rng.randrange(len(t))
        return t[:k] + t[k + 1:]
    return t + rng.choice(alpha)


def gen_pool(rng, n, avoid=(), seeds=()):
    """n distinct identifiers, most of them one mutation away from another one"""
    alpha = rng.choice(['aA_0', 'abAB_09zZ', IDCH, IDCH])
    first = [c for c in alpha if c in FIRST]
    seen, lst, tries = set(), [], 0
    while len(lst) < n:
        tries += 1
        r = rng.random()
        if tries > 40 * n + 200:
            s = 'q%d_%d' % (len(lst), tries)
        elif seeds and r < 0.25:
            s = rng.choice(seeds)
        elif r < 0.31:
            # names that begin like a tag keyword (the lookup code strips 'struct ' etc.)
            s = rng.choice(['struct', 'union', 'enum']) + rng.choice(
                ['_', 's', 'ure', 'erate', '_info', '0', 'S', '_t', 'x_t', '_find_t']) + \
                rng.choice(['', '', rng.choice(alpha)])
        elif r < 0.318:
            s = rng.choice(LIB_SPECIAL)
        elif r < 0.33:
            # long identifiers sharing a long prefix (longer than any '%.200s' in the lookup code)
            base = rng.choice(lst) if lst and rng.random() < 0.7 else rng.choice(first)
            unit = ''.join(rng.choice(alpha) for _ in range(rng.choice([1, 7])))
            s = (base + unit * 300)[:rng.choice([49, 64, 100, 199, 200, 201, 255, 290])] + \
                rng.choice(['', '', rng.choice(alpha)])
        elif lst and r < 0.85:
            s = mutate(rng, rng.choice(lst), alpha)
        else:
            s = rng.choice(first) + ''.join(rng.choice(alpha) for _ in
                                            range(rng.choice([0, 0, 1, 1, 2, 3, 5, 9, 30])))
        if s not in seen and ok_name(s, avoid):
            seen.add(s)
            lst.append(s)
    return lst


def neighbours(rng, s):
    return [s[:-1], s + '_', s + rng.choice(IDCH), s.swapcase(), s[1:], s + s[-1], s[:len(s) // 2],
            s[:-1] + ORDERED[(ORDERED.index(s[-1]) + rng.choice((-1, 1))) % len(ORDERED)]]


def probes(rng, names, present, per=2, extra=(), allow_empty=False):
    out = set(x for x in extra if x not in present and x not in LIB_SPECIAL)
    for s in names:
        for p in rng.sample(neighbours(rng, s), per):
            if p not in present and not p.startswith('__') and (IDRE.match(p) or
                                                                (allow_empty and p == '')):
                out.add(p)
    return sorted(out)


def logsize(rng, hi):
    return min(hi, int(math.exp(rng.uniform(0, math.log(hi + 1)))))


# ---- module plans ------------------------------------------------------------

SU_FLAVOURS = ['full'] * 5 + ['opaque', 'nested', 'nested']


def plan_module(rng, name, mode, hi, avoid=(), lo=1):
    ng, nt, ns, ne = [max(lo, logsize(rng, hi)) for _ in range(4)]
    if mode == 'api':
        ng = max(ng, min(hi, 16)) + ne          # enough globals for all kinds
    ordn = gen_pool(rng, ng + nt, avoid)
    tagn = gen_pool(rng, ns + ne, avoid, seeds=ordn)
    rng.shuffle(ordn)
    rng.shuffle(tagn)
    gn, tn, sn, en = ordn[:ng], ordn[ng:], tagn[:ns], tagn[ns:]
    glob = [[n, None, i] for i, n in enumerate(gn)]
    free = list(range(ng))
    rng.shuffle(free)
    free = free[:ng - max(1, ng // 3)]      # at least a third of the globals are not enumerators
    ne = min(ne, len(free))
    tagn, en = tagn[:ns + ne], en[:ne]
    enums = []
    for tag in en:
        k = min(len(free) - (len(en) - len(enums) - 1),
                rng.choice([1] * 8 + [2, 2, 2, 3, 3, 3, 5, rng.randint(6, 40)]))
        ens = [free.pop() for _ in range(max(1, k))]
        for i in ens:
            glob[i][1] = 'enumerator'
        enums.append([tag, [[gn[i], i] for i in ens]])
    typedefs = [[n, i] for i, n in enumerate(tn)]
    flav = SU_FLAVOURS + (['partial'] if mode == 'api' else [])
    # flavour: 'full' { char f_[i+1]; } / 'opaque' (tag only) / 'nested' (a field whose type is
    # an anonymous struct: table key '$<counter>', looked up by name when its fields are
    # needed) / 'partial' (API: "...;")
    sus = [[n, rng.choice(['struct', 'struct', 'union']), i, rng.choice(flav)]
           for i, n in enumerate(sn)]
    # struct/unions/enums that only have a typedef name (table key '$NAME', realized lazily)
    tonly = gen_pool(rng, logsize(rng, max(2, hi // 2)) + logsize(rng, max(2, hi // 8)),
                     set(avoid) | set(ordn), seeds=tagn)
    nae = min(logsize(rng, max(2, hi // 8)), len(tonly) - 1, len(free))
    anon = [[n, rng.choice(['struct', 'struct', 'union']), i] for i, n in
            enumerate(tonly[:len(tonly) - nae])]
    anon_enums = []
    for n in tonly[len(tonly) - nae:]:
        ens = [free.pop() for _ in range(min(len(free), rng.choice([1, 1, 2, 5])))]
        if not ens:
            break
        for i in ens:
            glob[i][1] = 'enumerator'
        anon_enums.append([n, [[gn[i], i] for i in ens]])
    if mode == 'abi' and rng.random() < 0.5:
        # the same spelling in two tables where cffi keeps them apart: macro / typedef and
        # struct tag / enum tag (an API module could not be compiled with these)
        for n, kw, i, fl in sus[:max(1, ns // 5)]:
            if n not in en and free:
                i = free.pop()
                glob[i][1] = 'enumerator'
                enums.append([n, [[gn[i], i]]])
    for g in glob:
        if g[1] is None:
            g[1] = rng.choice(ABI_GK if mode == 'abi' else API_GK)
    if mode == 'abi' and rng.random() < 0.5:
        taken = set(tn) | set(tonly)
        for n, kind, i in glob[:max(1, ng // 5)]:
            if kind == 'macro' and n not in taken:
                typedefs.append([n, len(typedefs)])
    return {'name': name, 'mode': mode, 'globals': glob, 'typedefs': typedefs, 'sus': sus,
            'anon': anon, 'enums': enums, 'anon_enums': anon_enums, 'includes': [],
            'shuffle': rng.getrandbits(32),
            # 'FILE' used without being declared: cffi adds its typedef to the table by itself
            'file_user': rng.random() < 0.4}


# include graphs: entry j lists the (earlier) modules that module j includes; the last module
# reaches every other one
SHAPES = {'pair': [[], [0]], 'chain3': [[], [0], [1]], 'fan3': [[], [], [0, 1]],
          'mixed4': [[], [0], [], [2, 1]], 'diamond4': [[], [0], [0], [1, 2]]}
SHAPE_CYCLE = ['mixed4', 'diamond4', 'chain3', 'fan3', 'pair']     # every run has each of them
ITEM_KEYS = ('globals', 'typedefs', 'sus', 'anon', 'enums', 'anon_enums')


def split_group(rng, plan, names, shape):
    """the declarations of `plan` dealt out to len(names) modules that include each other as
    SHAPES[shape] says (enumerators stay with their enum)"""
    incl = SHAPES[shape]
    k = len(incl)
    mods = [dict(plan, name=names[j], includes=[names[x] for x in incl[j]], shape=shape,
                 **dict((key, []) for key in ITEM_KEYS)) for j in range(k)]
    where = {}
    for key in ('enums', 'anon_enums'):
        for x in plan[key]:
            j = rng.randrange(k)
            mods[j][key].append(x)
            for n, i in x[1]:
                where[n] = j
    for g in plan['globals']:
        mods[where[g[0]] if g[1] == 'enumerator' else rng.randrange(k)]['globals'].append(g)
    for key in ('typedefs', 'sus', 'anon'):
        for x in plan[key]:
            mods[rng.randrange(k)][key].append(x)
    return mods


def closure(mods, top):
    """the modules that `top` includes, directly or not, and `top` itself, in build order"""
    need, by = set([top['name']]), dict((m['name'], m) for m in mods)
    todo = [top]
    while todo:
        for inc in todo.pop()['includes']:
            if inc not in need:
                need.add(inc)
                todo.append(by[inc])
    return [m for m in mods if m['name'] in need]


def su_decl(n, kw, i, fl, cdef):
    if fl == 'opaque':
        return '%s %s;' % (kw, n)
    if fl == 'nested':
        return '%s %s { char f_[%d]; struct { char g_[%d]; } in_; };' % (kw, n, i + 1, i + 1)
    return '%s %s { char f_[%d]; %s};' % (kw, n, i + 1, '...; ' if fl == 'partial' and cdef else '')


def render(plan):
    """(cdef text, C source of the types, C source of the rest) of one plan; every value/size
    is the entry's identity"""
    decl, types, src = [], [], []
    for n, kind, i in plan['globals']:
        if kind == 'macro':
            decl.append('#define %s %d' % (n, i))
            src.append('enum { %s = %d };' % (n, i))
        elif kind == 'func':
            decl.append('int %s(void);' % n)
            src.append('int %s(void) { return %d; }' % (n, i))
        elif kind == 'var':
            decl.append('extern int %s;' % n)
            src.append('int %s = %d;' % (n, i))
        elif kind == 'dconst':
            decl.append('static const double %s;' % n)
            src.append('static const double %s = %d.0;' % (n, i))
        elif kind == 'externpy':
            decl.append('extern "Python" int %s(int);' % n)
        elif kind == 'iconst':
            decl.append('static const int %s;' % n)
            src.append('static const int %s = %d;' % (n, i))
        elif kind == 'vfunc':
            decl.append('int %s(int, ...);' % n)
            src.append('int %s(int a, ...) { return %d; }' % (n, i))
    for tag, ens in plan['enums']:
        d = 'enum %s { %s };' % (tag, ', '.join('%s = %d' % (n, i) for n, i in ens))
        decl.append(d)
        types.append(d)
    for n, ens in plan.get('anon_enums', []):
        d = 'typedef enum { %s } %s;' % (', '.join('%s = %d' % (en, i) for en, i in ens), n)
        decl.append(d)
        types.append(d)
    for n, i in plan['typedefs']:
        decl.append('typedef char %s[%d];' % (n, i + 1))
        types.append(decl[-1])
    for n, kw, i, fl in plan['sus']:
        decl.append(su_decl(n, kw, i, fl, True))
        types.append(su_decl(n, kw, i, fl, False))
    for n, kw, i in plan.get('anon', []):
        decl.append('typedef %s { short h_[%d]; } %s;' % (kw, i + 1, n))
        types.append(decl[-1])
    if plan.get('file_user'):
        decl.append('typedef FILE *Zf_%s_fp;' % plan['name'])
        types.append('#include <stdio.h>\n' + decl[-1])
    random.Random(plan['shuffle']).shuffle(decl)
    return '\n'.join(decl), '\n'.join(types), '\n'.join(src)


def lookup_case(rng, plans, others=()):
    """the lookup case through plans[-1]; plans[:-1] are the modules it includes"""
    g = set(n for p in plans for n, k, i in p['globals'])
    t = set(n for p in plans for n, i in p['typedefs']) | \
        set(n for p in plans for n, kw, i in p.get('anon', [])) | \
        set(x[0] for p in plans for x in p.get('anon_enums', []))
    s = set(n for p in plans for n, kw, i, fl in p['sus'])
    e = set(x[0] for p in plans for x in p['enums'])
    og = [n for p in others for n, k, i in p['globals']][:60]
    ot = [n for p in others for n, i in p['typedefs']][:60]
    osu = [n for p in others for n, kw, i, fl in p['sus']][:60]
    oe = [x[0] for p in others for x in p['enums']][:60]
    cross = sorted(g | t | s | e)
    rng.shuffle(cross)
    cross = cross[:40]                       # names of the other tables of the same module
    return {'op': 'lookup', 'plans': plans, 'seed': rng.getrandbits(32), 'only': None,
            'absent': {'global': probes(rng, sorted(g), g, 2, og + cross + [''], True),
                       'typedef': probes(rng, sorted(t), t, 2, ot + cross),
                       'su': probes(rng, sorted(s), s, 2, osu + cross),
                       'enum': probes(rng, sorted(e), e, 2, oe + cross)}}


# ---- child side ---------------------------------------------------------------

def child_setup(setup, wd):
    import warnings
    warnings.simplefilter('ignore')
    sys.path.insert(0, setup['dir'])
    import _cffi_backend
    return {'dir': setup['dir'], 'empty': _cffi_backend.FFI()}


def make_ffis(plans):
    from cffi import FFI
    ffis = {}
    for p in plans:
        f = FFI()
        for inc in p.get('includes') or []:
            f.include(ffis[inc])
        f.cdef(render(p)[0])
        f.set_source(p['name'], None)
        ffis[p['name']] = f
    return ffis


def child_case(st, case):
    if case['op'] == 'emit':
        ffis = make_ffis(case['plans'])
        for p in case['plans']:
            ffis[p['name']].emit_python_code(os.path.join(st['dir'], p['name'] + '.py'))
        return {'ok': True}
    return do_lookup(st, case)


ARRFORMS = [('char[%s]', 'char[%d]'), ('char[ %s ]', 'char[%d]'), ('short[%s][2]', 'short[%d][2]'),
            ('char(*)[%s]', 'char(*)[%d]'), ('char[2][%s]', 'char[2][%d]')]


def do_lookup(st, case):
    import importlib
    rep = core.ChildRep()
    plans = case['plans']
    top = plans[-1]
    mode = top['mode']
    via = mode if len(plans) == 1 else 'include' if mode == 'abi' else 'include_api'
    m = importlib.import_module(top['name'])
    ffi = m.ffi
    lib = m.lib if mode == 'api' else ffi.dlopen(None)
    mods = dict((p['name'], importlib.import_module(p['name'])) for p in plans) if mode == 'api' else {}
    err = ffi.error
    rnd = random.Random(case['seed'])
    only = case.get('only')
    own = set(n for n, k, i in top['globals'])
    # the names in the top module's own table of globals: its own ones and the enumerators of
    # every enum it includes
    owntab = own | set(en for p in plans for x in p['enums'] + p.get('anon_enums', [])
                       for en, i in x[1])
    ntab = {'global': sum(len(p['globals']) for p in plans),
            'typedef': sum(len(p['typedefs']) for p in plans),
            'su': sum(len(p['sus']) for p in plans), 'enum': sum(len(p['enums']) for p in plans),
            'anon': sum(len(p.get('anon', [])) for p in plans),
            'anon_enum': sum(len(p.get('anon_enums', [])) for p in plans)}

    def bad(path, what, msg, kind, name):
        rep.bad('%s:%s' % (path, what), '%s module %s (%d globals, %d typedefs, %d struct/unions, '
                '%d enums): %s' % (via, top['name'], ntab['global'], ntab['typedef'], ntab['su'],
                                   ntab['enum'], msg[:700]), [kind, name])

    def outcome(fn):
        try:
            return 'val', fn()
        except AttributeError as e:
            return 'attr', str(e)
        except err as e:
            return 'err', str(e)
        except Exception as e:
            return 'exc', '%s: %s' % (type(e).__name__, e)

    def t_global(n, kind, i, owner):
        isint = kind in ('macro', 'enumerator') or (kind == 'iconst' and mode == 'api')
        if len(n) > 64:
            rep.stat('names_longer_than_64')
        if mode == 'api' and owner != top['name'] and rnd.random() < 0.3:
            # history: the included lib has the attribute in its cache already
            outcome(lambda: getattr(mods[owner].lib, n))
            rep.stat('included_name_first_fetched_from_owner_lib')
        for again in range(2 if rnd.random() < 0.25 else 1):
            k, v = outcome(lambda: getattr(lib, n))
            rep.stat('getattr_again_declared' if again else 'getattr_declared_' + kind)
            if k == 'attr' or k == 'exc':
                bad('getattr', 'declared-not-found', 'lib.%s (%s) -> %s %s' % (n, kind, k, v), 'global', n)
            elif k == 'err':
                # entry found, but the symbol is not in dlopen(None) / belongs to the included lib
                if not (mode == 'abi' and kind in SYMBOL_KINDS):
                    bad('getattr', 'declared-not-found', 'lib.%s (%s) -> %s' % (n, kind, v), 'global', n)
            else:
                if mode == 'abi' and kind in SYMBOL_KINDS:
                    got = 'skipped'     # some symbol of the process that happens to have this name
                elif kind in ('func', 'externpy', 'vfunc'):
                    got = outcome(lambda: v() if kind == 'func' else v(0))[1]
                else:
                    got = v
                if got != 'skipped' and got != i:
                    bad('getattr', 'wrong-entry', 'lib.%s (%s) gives %r, its own entry is %r' %
                        (n, kind, got, i), 'global', n)
        k, v = outcome(lambda: ffi.integer_const(n))
        rep.stat('integer_const_declared_' + kind)
        if isint:
            if k != 'val':
                bad('integer_const', 'declared-not-found', "integer_const('%s') -> %s %s" % (n, k, v),
                    'global', n)
            elif v != i:
                bad('integer_const', 'wrong-entry', "integer_const('%s') = %r, its own entry is %r" %
                    (n, v, i), 'global', n)
        elif k != 'err':
            bad('integer_const', 'declared-not-found', "integer_const('%s') (%s: the entry exists, an "
                "ffi.error is due) -> %s %r" % (n, kind, k, v), 'global', n)
        if isint:
            # an integer constant named as an array length inside a type string
            form, want = rnd.choice(ARRFORMS)
            k, v = outcome(lambda: ffi.typeof(form % n).cname)
            if n not in owntab:
                # the array-length lookup does not follow ffi.include(): outside the statement
                rep.stat('array_length_macro_of_included_module_' +
                         ('found' if (k, v) == ('val', want % i) else 'not_found'))
            else:
                rep.stat('array_length_declared_' + kind)
                if k != 'val':
                    bad('array-length', 'declared-not-found', 'typeof(%r) -> %s %s' % (form % n, k, v),
                        'global', n)
                elif v != want % i:
                    bad('array-length', 'wrong-entry', 'typeof(%r) is %s, its own entry is %d' %
                        (form % n, v, i), 'global', n)
        if kind in ('func', 'var', 'vfunc'):
            k, v = outcome(lambda: ffi.addressof(lib, n))
            rep.stat('addressof_declared_' + kind)
            if k in ('attr', 'exc') or (k == 'err' and mode != 'abi'):
                bad('addressof', 'declared-not-found', 'addressof(lib, %r) (%s) -> %s %s' %
                    (n, kind, k, v), 'global', n)
            elif k == 'val' and mode == 'api':
                got = outcome(lambda: v[0] if kind == 'var' else v() if kind == 'func' else v(0))[1]
                if got != i:
                    bad('addressof', 'wrong-entry', 'addressof(lib, %r) (%s) leads to %r, its own '
                        'entry is %r' % (n, kind, got, i), 'global', n)
        if kind == 'var' and mode == 'api':
            k, v = outcome(lambda: (setattr(lib, n, i + 100000), getattr(lib, n),
                                    ffi.addressof(lib, n)[0], setattr(lib, n, i)))
            rep.stat('setattr_declared_var')
            if k != 'val':
                bad('setattr', 'declared-not-found', 'lib.%s = x -> %s %s' % (n, k, v), 'global', n)
            elif v[1:3] != (i + 100000, i + 100000):
                bad('setattr', 'wrong-entry', 'lib.%s = %d, then it reads %r' % (n, i + 100000, v[1:3]),
                    'global', n)

    def t_typedef(n, i):
        if len(n) > 64:
            rep.stat('names_longer_than_64')
        how = rnd.choice(['typeof'] * 4 + ['sizeof', 'getctype', 'new'])
        if how == 'typeof':
            form, want = rnd.choice([('%s', 'char[%d]'), (' %s ', 'char[%d]'), ('%s*', 'char(*)[%d]'),
                                     ('%s[2]', 'char[2][%d]'), ('%s\t*', 'char(*)[%d]'),
                                     ('int(*)(%s *)', 'int(*)(char(*)[%d])')])
            text, want = form % n, want % (i + 1)
            k, v = outcome(lambda: ffi.typeof(text).cname)
        elif how == 'sizeof':
            text, want = n, i + 1
            k, v = outcome(lambda: ffi.sizeof(text))
        elif how == 'getctype':
            text, want = n, 'char[%d]' % (i + 1)
            k, v = outcome(lambda: ffi.getctype(text))
        else:
            text, want = n + ' *', 'char(*)[%d]' % (i + 1)
            k, v = outcome(lambda: ffi.typeof(ffi.new(text)).cname)
        rep.stat('typeof_typedef_declared' if how == 'typeof' else how + '_typedef_declared')
        if k != 'val':
            bad(how, 'declared-not-found', '%s(%r) -> %s %s' % (how, text, k, v), 'typedef', n)
        elif v != want:
            bad(how, 'wrong-entry', '%s(%r) gives %s, its own entry gives %s' % (how, text, v, want),
                'typedef', n)

    def t_su(n, kw, i, fl):
        if len(n) > 64:
            rep.stat('names_longer_than_64')
        form = rnd.choice(['%s %s', '%s  %s', ' %s %s ', '%s %s*', '%s\t%s *'] +
                          ([] if fl == 'opaque' else ['%s %s[2]']))

        def f():
            t = ffi.typeof(form % (kw, n))
            if form.endswith(('*', ']')):
                t = t.item
            if fl == 'opaque':
                return t.cname, t.kind, t.fields
            if fl == 'nested':
                # the fields of the anonymous inner struct come from a lookup of its '$<n>' key
                inner = dict(t.fields)['in_'].type
                return (t.cname, ffi.sizeof('%s %s' % (kw, n)), inner.kind,
                        [(a, b.type.cname) for a, b in inner.fields])
            return t.cname, ffi.sizeof('%s %s' % (kw, n))
        k, v = outcome(f)
        rep.stat('typeof_%s_declared' % kw)
        rep.stat('tag_flavour_' + fl)
        name = '%s %s' % (kw, n)
        want = {'opaque': (name, kw, None),
                'nested': (name, (i + 1) * (2 if kw == 'struct' else 1), 'struct',
                           [('g_', 'char[%d]' % (i + 1))])}.get(fl, (name, i + 1))
        if k != 'val':
            bad('struct', 'declared-not-found', 'typeof/sizeof(%r) (%s) -> %s %s' %
                (form % (kw, n), fl, k, v), 'su', n)
        elif v != want:
            bad('struct', 'wrong-entry', 'typeof(%r) (%s) is %r, its own entry is %r' %
                (form % (kw, n), fl, v, want), 'su', n)
        other = 'union' if kw == 'struct' else 'struct'
        k, v = outcome(lambda: ffi.typeof('%s %s' % (other, n)).cname)
        rep.stat('wrong_tag_kind_probe')
        if k != 'err':
            bad('struct', 'undeclared-found', "typeof('%s %s') (declared as %s) -> %s %s" %
                (other, n, kw, k, v), 'su', n)

    def t_anon(n, kw, i):
        # typeof() finds the typedef; the fields come from a second, lazy lookup of '$NAME'
        def f():
            t = ffi.typeof(rnd.choice(['%s', ' %s', '%s *', '%s[3]']) % n)
            while t.kind in ('pointer', 'array'):
                t = t.item
            how = rnd.choice(['fields', 'new', 'sizeof'])
            if how == 'new':
                ffi.new(n + ' *')
            elif how == 'sizeof':
                ffi.sizeof(n)
            fl = t.fields
            return t.kind, t.cname, [(fn, fd.type.cname) for fn, fd in fl], ffi.sizeof(n)
        k, v = outcome(f)
        rep.stat('typedef_only_%s_realized' % kw)
        if n.startswith(('struct', 'union', 'enum')):
            rep.stat('typedef_only_name_with_keyword_prefix')
        want = (kw, n, [('h_', 'short[%d]' % (i + 1))], 2 * (i + 1))
        if k != 'val':
            bad('anon-struct', 'declared-not-found', 'fields of typedef-only %s %r -> %s %s' %
                (kw, n, k, v), 'anon', n)
        elif v != want:
            bad('anon-struct', 'wrong-entry', 'typedef-only %s %r realized as %r, its own entry is '
                '%r' % (kw, n, v, want), 'anon', n)

    def t_enum(tag, ens, typedef_only=False):
        def f():
            form = rnd.choice(['%s', '%s', ' %s ', '%s*', '%s [3]'])
            t = ffi.typeof(form % (tag if typedef_only else rnd.choice(['enum ', 'enum\t ']) + tag))
            if form.endswith(('*', ']')):
                t = t.item
            return t.cname, sorted(t.elements.items()), sorted(t.relements.items()), t.kind
        k, v = outcome(f)
        rep.stat('typedef_only_enum_realized' if typedef_only else 'typeof_enum_declared')
        if len(ens) > 3:
            rep.stat('enums_with_more_than_3_enumerators')
        path = 'anon-enum' if typedef_only else 'enum'
        want = (tag if typedef_only else 'enum ' + tag, sorted([i, n] for n, i in ens),
                sorted([n, i] for n, i in ens), 'enum')
        if k != 'val':
            bad(path, 'declared-not-found', "typeof(%r) -> %s %s" % (want[0], k, v),
                'anon_enum' if typedef_only else 'enum', tag)
        elif (v[0], [list(x) for x in v[1]], [list(x) for x in v[2]], v[3]) != want:
            bad(path, 'wrong-entry', "typeof(%r) is %r, its own entry is %r" % (want[0], v, want),
                'anon_enum' if typedef_only else 'enum', tag)

    def t_absent(kind, p):
        if kind == 'global':
            paths = [('getattr', lambda: getattr(lib, p), 'attr'),
                     ('integer_const', lambda: ffi.integer_const(p), 'attr'),
                     ('addressof', lambda: ffi.addressof(lib, p), 'attr')]
            if p:
                form = rnd.choice(ARRFORMS)[0]
                paths.append(('array-length', lambda: ffi.typeof(form % p).cname, 'err'))
            if mode == 'api':
                paths.append(('setattr', lambda: setattr(lib, p, 0), 'attr'))
            for path, fn, due in paths:
                k, v = outcome(fn)
                rep.stat(path.replace('-', '_') + '_undeclared')
                if k != due:
                    bad(path, 'undeclared-found' if k == 'val' else 'undeclared-wrong-exception',
                        'undeclared %r -> %s %r' % (p, k, v), kind, p)
            if mode == 'api':
                k, v = outcome(lambda: ffi.def_extern(name=p)(lambda x: x))
                rep.stat('def_extern_undeclared')
                if k != 'err':
                    bad('def_extern', 'undeclared-found', 'def_extern(name=%r) -> %s %r' % (p, k, v),
                        kind, p)
        elif kind == 'typedef':
            if outcome(lambda: st['empty'].typeof(p))[0] == 'val':
                rep.stat('typedef_probe_skipped_builtin_name')
                return
            k, v = outcome(lambda: ffi.typeof(p).cname)
            rep.stat('typeof_typedef_undeclared')
            if k != 'err':
                bad('typeof', 'undeclared-found', 'typeof(%r) (no such typedef) -> %s %r' % (p, k, v),
                    kind, p)
        else:
            for kw in (('struct', 'union') if kind == 'su' else ('enum',)):
                k, v = outcome(lambda: ffi.typeof('%s %s' % (kw, p)).cname)
                rep.stat('typeof_%s_undeclared' % kw)
                if k != 'err':
                    bad('struct' if kind == 'su' else 'enum', 'undeclared-found',
                        "typeof('%s %s') (no such tag) -> %s %r" % (kw, p, k, v), kind, p)

    tasks = []
    for p in plans:
        for n, kind, i in p['globals']:
            if kind == 'externpy':           # bind every extern "Python" name to its own identity
                # (through the ffi of the module that declares it)
                k, v = outcome(lambda: mods[p['name']].ffi.def_extern(name=n)(lambda x, i=i: x + i))
                rep.stat('def_extern_declared')
                if k != 'val':
                    bad('def_extern', 'declared-not-found', 'def_extern(name=%r) -> %s %s' % (n, k, v),
                        'global', n)
            tasks.append(('global', n, t_global, (n, kind, i, p['name'])))
        tasks += [('typedef', n, t_typedef, (n, i)) for n, i in p['typedefs']]
        tasks += [('su', n, t_su, (n, kw, i, fl)) for n, kw, i, fl in p['sus']]
        tasks += [('anon', n, t_anon, (n, kw, i)) for n, kw, i in p.get('anon', [])]
        tasks += [('enum', tag, t_enum, (tag, ens)) for tag, ens in p['enums']]
        tasks += [('anon_enum', n, t_enum, (n, ens, True)) for n, ens in p.get('anon_enums', [])]
    ndecl = len(tasks)
    for kind, lst in sorted(case['absent'].items()):
        tasks += [(kind, p, t_absent, (kind, p)) for p in lst]
    rnd.shuffle(tasks)
    for j, (kind, n, fn, args) in enumerate(tasks):
        if only and [kind, n] != only:
            continue
        try:
            fn(*args)
        except Exception:
            import traceback
            rep.bad('harness-exception', traceback.format_exc()[-900:], [kind, n])
        rep.case((fn is t_absent, kind, n), nontrivial=ntab[kind] > 1,
                 sample={'module': via, 'kind': kind, 'name': n[:80], 'declared': fn is not t_absent})
    if not only:
        d = set(dir(lib))
        every = set(n for p in plans for n, k, i in p['globals'])
        rep.stat('dir_lib_checked')
        if not (own <= d <= every):
            bad('dir', 'differs', 'dir(lib): missing %r, undeclared %r' %
                (sorted(own - d)[:5], sorted(d - every)[:5]), 'global', '')
        # lib.__all__: the table without the variables; lib.__dict__ (API): every name of the
        # table looked up and built
        novar = set(n for p in plans for n, k, i in p['globals'] if k == 'var')
        k, v = outcome(lambda: set(lib.__all__))
        rep.stat('all_lib_checked')
        if k != 'val' or not (own - novar <= v <= every - novar):
            bad('all', 'differs', 'lib.__all__: %s, missing %r, undeclared %r' %
                ((k, '', '') if k != 'val' else (k, sorted(own - novar - v)[:5],
                                                 sorted(v - (every - novar))[:5])), 'global', '')
        if mode == 'api':
            k, v = outcome(lambda: dict(lib.__dict__))
            rep.stat('dict_lib_checked')
            if k != 'val' or not (own <= set(v) <= every):
                bad('dict', 'differs', 'lib.__dict__: %s, missing %r, undeclared %r' %
                    ((k, v, '') if k != 'val' else (k, sorted(own - set(v))[:5],
                                                    sorted(set(v) - every)[:5])), 'global', '')
            else:
                for n, kind, i in top['globals']:
                    if kind in ('macro', 'enumerator', 'dconst', 'iconst') and v[n] != i:
                        bad('dict', 'wrong-entry', 'lib.__dict__[%r] is %r, its own entry is %r' %
                            (n, v[n], i), 'global', '')
    rep.stat('modules_' + via)
    if len(plans) > 1:
        rep.stat('modules_%s_shape_%s' % (via, top.get('shape')))
    rep.stat('names_declared_' + via, ndecl)
    return rep.result()


# ---- stand-alone harness ---------------------------------------------------------

HARNESS = os.path.join(build.VERIF, 'harness', 'c25_search.c')


def harness_exe(fuzz=False):
    """cached under .build, keyed by the tree's C sources and the harness source"""
    conf = build.pyconf()
    with open(HARNESS, 'rb') as f:
        h = build.tree_hash(['c25', hashlib.sha256(f.read()).hexdigest(), fuzz])
    d = os.path.join(build.BUILD, 'c25-' + h)
    exe = os.path.join(d, 'c25_fuzz' if fuzz else 'c25_search')
    if os.path.exists(exe):
        return exe
    os.makedirs(d, exist_ok=True)
    tmp = exe + '.tmp%d' % os.getpid()
    cmd = ['clang', '-g', '-O1', '-fno-omit-frame-pointer',
           '-fsanitize=%saddress,undefined' % ('fuzzer,' if fuzz else ''),
           '-fno-sanitize=pointer-overflow,alignment', '-fsanitize-recover=address,undefined',
           '-I' + conf['inc'], '-I' + os.path.join(build.REPO, 'src', 'c'), HARNESS, '-o', tmp,
           '-L' + conf['libdir'], '-lpython' + conf['ver'], '-Wl,-rpath,' + conf['libdir']]
    if fuzz:
        cmd.insert(1, '-DC25_FUZZ')
    r = subprocess.run(cmd, stdout=subprocess.PIPE, stderr=subprocess.STDOUT)
    if r.returncode != 0:
        raise core.Inconclusive('c25_search.c does not build: ' + r.stdout.decode(errors='replace')[-1500:])
    os.rename(tmp, exe)
    return exe


def san_env():
    env = dict(os.environ, ASAN_OPTIONS='detect_leaks=0:halt_on_error=0:symbolize=1',
               UBSAN_OPTIONS='print_stacktrace=1:halt_on_error=0',
               ASAN_SYMBOLIZER_PATH='/usr/lib/llvm-14/bin/llvm-symbolizer')
    env.pop('LD_PRELOAD', None)
    return env


def gen_tables(ctx):
    rng = ctx.rng('tables')
    tables = []
    for k in range(ctx.scale(200, 3000)):
        n = [0, 1, 2, 3][k] if k < 4 else logsize(rng, 400)
        names = gen_pool(rng, n)
        if k % 5 == 4:                         # cffi's own names for anonymous types
            names = sorted(set(names) | set('$' + x for x in names[:n // 4]) | {'$1', '$12'})
        names = sorted(names)                  # the order recompiler.py emits
        present = set(names)
        q = probes(rng, names, present, 6, [''], True)
        pool = gen_pool(rng, 4 * len(names) + 4)
        q = sorted(set(q) | set(x for x in pool if x not in present))[:10 * len(names) + 10]
        tables.append({'names': names, 'queries': [[i, x] for i, x in enumerate(names)] +
                       [[-1, x] for x in q]})
    return tables


def universe(ctx):
    rng = ctx.rng('universe')
    u = [a + b for a in 'aA_' for b in ['', 'a', 'A', '_', '0']]
    u += rng.sample([a + b + c for a in 'aA_' for b in 'aA_0' for c in 'aA_0'], ctx.scale(15, 21))
    return sorted(u), ctx.scale(3, 4)


def write_tables(path, tables, exhaustive=None):
    with open(path, 'w') as f:
        for t in tables:
            f.write('T %d\n%s' % (len(t['names']), ''.join(n + '\n' for n in t['names'])))
            f.write('Q %d\n%s' % (len(t['queries']), ''.join('%d %s\n' % (i, x) for i, x in t['queries'])))
        if exhaustive:
            f.write('T %d\n%s' % (len(exhaustive[0]), ''.join(n + '\n' for n in exhaustive[0])))
            f.write('E %d\n' % exhaustive[1])


R_BAD = re.compile(r'^BAD (\S+) table=(\d+) got=(-?\d+) expected=(-?\d+) key=(\S*?)(?: subset=(\S+))?$')
R_DONE = re.compile(r'^DONE tables=(\d+) subsets=(\d+) calls=(\d+) found=(\d+) absent=(\d+) '
                    r'parses=(\d+) bad=(\d+)$', re.M)


def run_harness(ctx, tables, exhaustive=None, tag='tables'):
    """returns a function that records the harness run into ctx (called in the main thread)"""
    exe = harness_exe()
    path = os.path.join(ctx.tmp, tag + '.txt')
    write_tables(path, tables, exhaustive)
    try:
        r = subprocess.run([exe, path], env=san_env(), stdout=subprocess.PIPE, stderr=subprocess.PIPE,
                           timeout=900)
    except subprocess.TimeoutExpired:
        return lambda: ctx.inconclusive('search harness: watchdog fired')
    out, errt = r.stdout.decode(errors='replace'), r.stderr.decode(errors='replace')

    def record():
        m = R_DONE.search(out)
        for line in out.splitlines():
            b = R_BAD.match(line)
            if not b:
                continue
            what, tno, got, exp, key, subset = b.groups()
            names = subset.split(',') if subset else tables[int(tno)]['names'] \
                if int(tno) < len(tables) else exhaustive[0]
            ctx.violation(what + (':found-absent' if int(exp) < 0 else ':not-found' if int(got) < 0
                                  else ':wrong-index'),
                          '%s of key %r in the sorted table of %d names %r gives %s, expected %s' %
                          (what, key, len(names), names if len(names) <= 12 else
                           names[:12] + ['...'], got, exp),
                          {'op': 'table', 'names': names, 'queries': [[int(exp), key]]})
        ctx.sanitizer(errt, {'op': 'table', 'file': 'see message'}, deciding=True)
        if not m:
            ctx.inconclusive('search harness did not finish (rc=%s): %s' % (r.returncode, errt[-600:]))
            return
        for t in tables:
            ctx.case(('table', t['names']), nontrivial=len(t['names']) > 1,
                     sample={'table of': len(t['names']), 'first': t['names'][:6]})
        for k, v in zip(('tables', 'exhaustive_subsets', 'search_calls', 'keys_present',
                         'keys_absent', 'parse_c_type_calls'), m.groups()):
            ctx.count('harness_' + k, int(v))
        ctx.evaluations += int(m.group(4)) + int(m.group(5))
    return record


# ---- libFuzzer (thorough tier) ------------------------------------------------------

def run_fuzz(ctx, seconds):
    exe = harness_exe(fuzz=True)
    d = os.path.join(ctx.tmp, 'fuzz')
    os.makedirs(os.path.join(d, 'corpus'), exist_ok=True)
    rng = ctx.rng('fuzz')
    for i in range(40):
        with open(os.path.join(d, 'corpus', 'seed%d' % i), 'w') as f:
            f.write(' '.join(gen_pool(rng, rng.randint(1, 40))))
    cmd = [exe, '-max_total_time=%d' % seconds, '-max_len=600', '-timeout=20', '-print_final_stats=1',
           '-seed=%d' % (rng.getrandbits(31) | 1), '-artifact_prefix=' + d + os.sep,
           os.path.join(d, 'corpus')]
    try:
        r = subprocess.run(cmd, env=san_env(), cwd=d, stdout=subprocess.PIPE, stderr=subprocess.STDOUT,
                           timeout=seconds + 300)
    except subprocess.TimeoutExpired:
        ctx.inconclusive('libFuzzer run: watchdog fired')
        return
    out = r.stdout.decode(errors='replace')
    m = re.search(r'stat::number_of_executed_units:\s*(\d+)', out)
    ctx.count('fuzz_executions', int(m.group(1)) if m else 0)
    if r.returncode == 0:
        return
    arts = sorted(x for x in os.listdir(d) if x.startswith(('crash-', 'timeout-', 'oom-')))
    data = b''
    if arts:
        with open(os.path.join(d, arts[-1]), 'rb') as f:
            data = f.read()
    rc = {'op': 'fuzz', 'hex': data.hex()}
    if any(a.startswith(('timeout-', 'oom-')) for a in arts):
        note(ctx, 'libFuzzer stopped on a timeout/oom unit')
    elif 'C25-HARNESS:' in out:
        bl = [l for l in out.splitlines() if l.startswith('BAD ')][:3]
        ctx.violation('fuzz:lookup-differs', 'libFuzzer input %r: %s' % (data[:300], '; '.join(bl)), rc)
    else:
        n0 = len(ctx.violations) + len(ctx.known_hits)
        ctx.sanitizer(out, rc, deciding=True)
        if len(ctx.violations) + len(ctx.known_hits) == n0:
            ctx.violation('fuzz:target-died', 'libFuzzer target ended rc=%s on %r\n%s' %
                          (r.returncode, data[:300], out[-1200:]), rc)


# ---- driver -----------------------------------------------------------------------

def api_avoid(ctx):
    """identifier tokens that an API module cannot declare: everything in the preprocessed
    output of a generated module (Python.h, libc headers, cffi's wrapper code) + macros"""
    spec = {'name': '_c25probe', 'kind': 'api', 'dir': os.path.join(ctx.tmp, 'probe'),
            'emit_only': True, 'cdef': 'extern "Python" int Zq1(int); int Zq2(void); extern int Zq3;'
            ' static const double Zq4; \n#define Zq5 5\n enum Zq6 { Zq7 = 1 }; typedef char Zq8[1];'
            ' struct Zq9 { char f_[1]; };',
            'source': 'int Zq2(void) { return 0; } int Zq3; static const double Zq4 = 0; '
            'enum { Zq5 = 5 }; enum Zq6 { Zq7 = 1 }; typedef char Zq8[1]; struct Zq9 { char f_[1]; };'}
    res = modbuild.build_modules(ctx, [spec])['_c25probe']
    if not res['ok']:
        raise core.Inconclusive('probe module: ' + res['error'])
    inc = build.pyconf()['inc']
    toks = set()
    for args in (['-E', '-dD', res['path']], ['-E', '-dM', '-x', 'c', os.devnull]):
        r = subprocess.run(['gcc', '-pthread', '-I' + inc] + args, stdout=subprocess.PIPE,
                           stderr=subprocess.DEVNULL)
        toks.update(re.findall(r'[A-Za-z_][A-Za-z0-9_]*', r.stdout.decode(errors='replace')))
    if len(toks) < 1000:
        raise core.Inconclusive('could not preprocess the probe module')
    return toks - set('Zq%d' % i for i in range(1, 10))


def note(ctx, msg):
    ctx.note(msg)
    if os.environ.get('VERIF_DEBUG'):
        sys.stderr.write('[c25] %s\n' % msg)


def build_all(ctx, moddir, api_groups, emit_cases):
    """API modules through modbuild (gcc), ABI modules through emit_python_code in plain children.
    api_groups: lists of plans in build order (a module's C source declares the types of
    everything it includes, as a real '#include' would)"""
    def api():
        specs = []
        for grp in api_groups:
            r = dict((p['name'], render(p)) for p in grp)
            for p in grp:
                inc = [q['name'] for q in closure(grp, p)[:-1]]
                specs.append({'name': p['name'], 'kind': 'api', 'cdef': r[p['name']][0], 'dir': moddir,
                              'includes': p['includes'],
                              'source': '\n'.join([r[x][1] for x in inc] + list(r[p['name']][1:]))})
        res = modbuild.build_modules(ctx, specs, cflags='-O0 -g0 -w') if specs else {}
        note(ctx, '%d API modules built after %.1fs' % (len(specs), ctx.elapsed()))
        return [(n, r) for n, r in res.items() if not r['ok']]

    def abi():
        obs = core.run_cases(ctx, 'c25', {'dir': moddir}, emit_cases, variant='plain',
                             nproc=min(8, core.NPROC))
        note(ctx, '%d ABI emit cases done after %.1fs' % (len(emit_cases), ctx.elapsed()))
        return [(p['name'], o) for c, o in zip(emit_cases, obs) for p in c['plans']
                if not (isinstance(o, dict) and o.get('ok'))]
    with cf.ThreadPoolExecutor(2) as ex:
        fa, fb = ex.submit(api), ex.submit(abi)
        return fa.result(), fb.result()


def group_cases(rng, mods):
    """lookups through the module that includes all the others, and through an inner one for
    which the names of the modules it does not include are undeclared"""
    inner = rng.choice(mods[:-1])
    cl = closure(mods, inner)
    return [lookup_case(rng, cl, others=[m for m in mods if m not in cl]), lookup_case(rng, mods)]


def run(ctx):
    rng = ctx.rng('modules')
    moddir = os.path.join(ctx.tmp, 'mods')
    os.makedirs(moddir)
    nmod = ctx.scale(54, 1500)
    napi = ctx.scale(6, 36)
    napigroups = ctx.scale(1, 8)
    with cf.ThreadPoolExecutor(2) as ex:
        fh = ex.submit(lambda: run_harness(ctx, gen_tables(ctx), universe(ctx)))
        avoid = api_avoid(ctx)
        note(ctx, 'API avoid set (%d tokens) after %.1fs' % (len(avoid), ctx.elapsed()))
        api_groups, emit_cases, cases, emit_groups = [], [], [], []
        k = 0
        while k < nmod:
            name = '_c25m%d' % k
            if len(api_groups) < napi:
                big = ctx.thorough and len(api_groups) % 6 == 5
                p = plan_module(rng, name, 'api', 400 if big else 60, avoid)
                if big:     # bulk kinds only: wrappers for 400 functions take gcc minutes
                    for g in p['globals']:
                        g[1] = 'macro' if g[1] != 'enumerator' else g[1]
                api_groups.append([p])
                cases.append(lookup_case(rng, [p]))
                k += 1
            elif len(api_groups) < napi + napigroups:
                # compiled modules that include each other: the lib of the including module gives
                # the functions and variables of the included ones too
                shape = SHAPE_CYCLE[(len(api_groups) - napi) % len(SHAPE_CYCLE)]
                n = len(SHAPES[shape])
                mods = split_group(rng, plan_module(rng, name, 'api', 150, avoid, lo=16),
                                   ['_c25m%d' % (k + j) for j in range(n)], shape)
                api_groups.append(mods)
                cases += group_cases(rng, mods)
                k += n
            elif k % 5 == 0 and k + 4 <= nmod:
                shape = SHAPE_CYCLE[len(emit_groups) % len(SHAPE_CYCLE)]
                emit_groups.append(shape)
                n = len(SHAPES[shape])
                mods = split_group(rng, plan_module(rng, name, 'abi', 400),
                                   ['_c25m%d' % (k + j) for j in range(n)], shape)
                emit_cases.append({'op': 'emit', 'plans': mods})
                cases += group_cases(rng, mods)
                k += n
            else:
                p = plan_module(rng, name, 'abi', 400)
                emit_cases.append({'op': 'emit', 'plans': [p]})
                cases.append(lookup_case(rng, [p]))
                k += 1
        failed_api, failed_abi = build_all(ctx, moddir, api_groups, emit_cases)
        for n, r in failed_api:
            ctx.inconclusive('API module %s does not build: %s %s' % (n, r['error'][-300:],
                                                                      r.get('log', '')[-600:]))
        for n, o in failed_abi:
            ctx.inconclusive('ABI module %s was not emitted: %s' % (n, json.dumps(o)[-800:]))
        broken = set(n for n, _ in failed_api + failed_abi)
        cases = [c for c in cases if not any(p['name'] in broken for p in c['plans'])]
        ctx.count('modules_api_built', sum(len(g) for g in api_groups) - len(failed_api))
        ctx.count('modules_abi_emitted', sum(len(c['plans']) for c in emit_cases) - len(failed_abi))
        note(ctx, 'modules planned and built after %.1fs' % ctx.elapsed())
        obs = core.run_cases(ctx, 'c25', {'dir': moddir}, cases, variant='asan', timeout=1800)
        note(ctx, 'lookups done after %.1fs' % ctx.elapsed())
        for c, o in zip(cases, obs):
            judge(ctx, None, c, o)
        fh.result()()
        note(ctx, 'harness done after %.1fs' % ctx.elapsed())
    if ctx.thorough:
        run_fuzz(ctx, 60)


LOOKUP_CODE = re.compile(r'parse_c_type\.c|search_sorted|search_in_')


def judge(ctx, setup, case, obs):
    if isinstance(obs, dict) and obs.get('_san'):
        # reports located in the lookup code decide; others (e.g. the decoding of the ABI
        # module's tables at import) are outside the statement and only recorded
        for kind, frame, block in core.split_reports(obs.pop('_san')):
            ctx.sanitizer(block, dict(case, only=None), deciding=bool(LOOKUP_CODE.search(block)))
    if isinstance(obs, dict) and '_crash' in obs and 'lost a struct/union' in obs.get('_stderr', ''):
        # cffi's own fatal error for a table key that the lazy completion of a struct does not find
        ctx.count('child_crashes')
        ctx.violation('lazy-struct:lost', 'completing a struct/union of module %s: the lookup of its '
                      'own table key fails\n%s' % (case['plans'][-1]['name'], obs['_stderr'][-900:]),
                      dict(case, only=None))
        return
    if core.std_obs_check(ctx, case, obs):
        core.absorb(ctx, case, obs, lambda d: dict(case, only=d))


def replay(ctx, data):
    case = data['case']
    if case['op'] == 'table':
        run_harness(ctx, [case], tag='replay')()
    elif case['op'] == 'fuzz':
        p = os.path.join(ctx.tmp, 'unit')
        with open(p, 'wb') as f:
            f.write(bytes.fromhex(case['hex']))
        r = subprocess.run([harness_exe(fuzz=True), p], env=san_env(), stdout=subprocess.PIPE,
                           stderr=subprocess.STDOUT, timeout=300)
        out = r.stdout.decode(errors='replace')
        print(out[-3000:])
        if 'C25-HARNESS:' in out:
            ctx.violation('fuzz:lookup-differs', out[-1500:], case)
        else:
            ctx.sanitizer(out, case, deciding=True)
    else:
        moddir = os.path.join(ctx.tmp, 'mods')
        os.makedirs(moddir)
        top = case['plans'][-1]
        fa, fb = build_all(ctx, moddir, [case['plans']] if top['mode'] == 'api' else [],
                           [{'op': 'emit', 'plans': case['plans']}] if top['mode'] == 'abi' else [])
        if fa or fb:
            print('replay: the module does not build: %r' % (fa + fb,))
            return
        obs = core.run_cases(ctx, 'c25', {'dir': moddir}, [case], variant='asan', nproc=1)
        print('observation:', json.dumps(obs[0], default=repr)[:3000])
        judge(ctx, None, case, obs[0])
