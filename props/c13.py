"""C13 -- all call paths to a C function agree.

Per generated module: ~40 C functions over the supported argument/return
types; each folds its arguments into the return value, writes through pointer
arguments and sets errno from the arguments.  The same source is built as an
API-mode module and the shared object is also dlopen()ed in-line and through
an out-of-line ABI module.  For each argument tuple the four calls
  lib.f(...)  /  ffi.addressof(lib,'f')(...)  /  in-line dlopen  /  out-of-line ABI dlopen
run on fresh copies of the pointed-to buffers; compared: return value (bit
pattern for floats) or exception class, buffers afterwards, ffi.errno.
"""
import os, sys, random, struct
from vlib import core, modbuild, gen

RULE = ("case = (function signature, argument tuple); signatures over all integer sizes/signs, "
        "_Bool, char, float, double, pointers to int/char/struct, structs by value and return, "
        "variadic long long; tuples mix in-range, boundary and out-of-range ints, wrong Python "
        "types, lists/bytes/NULL/wrongly typed cdata for pointer parameters; distinct = "
        "(signature, tuple); non-trivial = at least one argument")
ASSUMPTIONS = ["signatures that hit a defect of the system libffi 3.4.4 (second by-value INTEGER+SSE struct taking the last general register; reproduced through ctypes) are not generated",
               "exception *classes* are compared, not messages",
               "pointer results are compared as 'which argument buffer they point into'"]

INTS = [('signed char', 1, True), ('unsigned char', 1, False), ('short', 2, True),
        ('unsigned short', 2, False), ('int', 4, True), ('unsigned int', 4, False),
        ('long', 8, True), ('unsigned long', 8, False), ('long long', 8, True),
        ('unsigned long long', 8, False), ('int8_t', 1, True), ('uint16_t', 2, False),
        ('int32_t', 4, True), ('uint64_t', 8, False), ('size_t', 8, False), ('ssize_t', 8, True)]
ARGT = [t[0] for t in INTS] + ['_Bool', 'char', 'float', 'double', 'int *', 'char *',
                               'struct pt *', 'struct pt', 'long *', 'struct pa', 'struct pd',
                               'struct pb']
RETT = [t[0] for t in INTS] + ['_Bool', 'char', 'float', 'double', 'void', 'int *', 'struct pt']
STRUCT = ('struct pt { int a; short b; double c; }; struct pa { float a[2][2]; }; '
          'struct pd { int a[2][2]; }; struct pb { char c[3]; short s; };')
SMALL = {'struct pa': '(long long)(%s.a[0][0] + 2 * %s.a[0][1] + 3 * %s.a[1][0] + 4 * %s.a[1][1])',
         'struct pd': '(long long)(%s.a[0][0] + 2LL * %s.a[0][1] + 3LL * %s.a[1][0] + 4LL * %s.a[1][1])',
         'struct pb': '(long long)(%s.c[0] + 2 * %s.c[1] + 3 * %s.c[2] + 4 * %s.s)'}


def gen_module(seed, nfun):
    rnd = random.Random(seed)
    funcs = []
    for i in range(nfun):
        na = rnd.choice([0, 1, 1, 2, 2, 3, 4, 6])
        args = [rnd.choice(ARGT) for _ in range(na)]
        ret = rnd.choice(RETT)
        if ret == 'int *' and 'int *' not in args:
            args.append('int *')
        while platform_libffi_bug(args):
            args.remove('struct pt')
        funcs.append({'name': 'f%d' % i, 'args': args, 'ret': ret})
    funcs.append({'name': 'vsum', 'args': ['int'], 'ret': 'long long', 'variadic': True})
    return funcs


def platform_libffi_bug(args):
    """The system libffi (3.4.4, also through ctypes) passes a wrong SSE half when
    a second mixed INTEGER+SSE struct argument takes the 6th (last) general
    register: double k(long,long,long,long, struct pt a, struct pt b) receives
    a.c == b.c.  Not cffi code: such signatures are not generated."""
    gpr, structs = 0, 0
    for a in args:
        if a in ('float', 'double'):
            continue
        if a in ('struct pd',):
            gpr += 2 if gpr + 2 <= 6 else 0
            continue
        if a == 'struct pb':
            gpr += 1 if gpr < 6 else 0
            continue
        if a == 'struct pa':
            continue
        if a == 'struct pt':
            if gpr + 1 <= 6:
                gpr += 1
                structs += 1
                if gpr == 6 and structs >= 2:
                    return True
            continue
        if gpr < 6:
            gpr += 1
    return False


def c_body(f):
    if f.get('variadic'):
        return ('long long vsum(int n, ...) { va_list ap; long long s = 0; int i; va_start(ap, n); '
                'for (i = 0; i < n; i++) s = s * 3 + va_arg(ap, long long); va_end(ap); '
                'errno = (int)(s & 0x7fff) + 1; return s; }')
    params, st = [], ['long long acc = 7;']
    for i, a in enumerate(f['args']):
        n = 'a%d' % i
        params.append('%s %s' % (a, n) if not a.endswith('*') else '%s%s' % (a, n))
        if a in ('float', 'double'):
            st.append('acc = acc * 31 + (long long)(%s * 4.0);' % n)
        elif a == 'int *':
            st.append('if (%s) { acc = acc * 31 + %s[0]; %s[0] = (int)(acc & 0xffff); '
                      '%s[1] ^= 0x55; }' % (n, n, n, n))
        elif a == 'long *':
            st.append('if (%s) { acc = acc * 31 + %s[0]; %s[0] = acc; }' % (n, n, n))
        elif a == 'char *':
            st.append('if (%s) { acc = acc * 31 + (unsigned char)%s[0]; }' % (n, n))
        elif a == 'struct pt *':
            st.append('if (%s) { acc = acc * 31 + %s->a + %s->b + (long long)%s->c; %s->a += 1; '
                      '%s->c = %s->c * 2; }' % (n, n, n, n, n, n, n))
        elif a == 'struct pt':
            st.append('acc = acc * 31 + %s.a + %s.b + (long long)%s.c;' % (n, n, n))
        elif a in SMALL:
            st.append('acc = acc * 31 + %s;' % (SMALL[a] % (n, n, n, n)))
        else:
            st.append('acc = acc * 31 + (long long)%s;' % n)
    st.append('errno = (int)(acc & 0x7fff) + 1;')
    r = f['ret']
    if r == 'void':
        pass
    elif r == '_Bool':
        st.append('return (acc & 1) != 0;')
    elif r in ('float', 'double'):
        st.append('return (%s)((double)(acc %% 4096) * 0.5);' % r)
    elif r == 'int *':
        k = [i for i, a in enumerate(f['args']) if a == 'int *'][0]
        st.append('return a%d;' % k)
    elif r == 'struct pt':
        st.append('{ struct pt r; r.a = (int)acc; r.b = (short)(acc >> 3); r.c = (double)(acc % '
                  '1000); return r; }')
    else:
        st.append('return (%s)acc;' % r)
    return '%s %s(%s) { %s }' % (r if not r.endswith('*') else r, f['name'],
                                 ', '.join(params) or 'void', ' '.join(st))


def c_decl(f):
    if f.get('variadic'):
        return 'long long vsum(int n, ...);'
    return '%s %s(%s);' % (f['ret'], f['name'], ', '.join(f['args']) or 'void')


def module_spec(d, seed, nfun, name):
    funcs = gen_module(seed, nfun)
    cdef = STRUCT + '\n' + '\n'.join(c_decl(f) for f in funcs)
    src = ('#include <errno.h>\n#include <stdarg.h>\n#include <stdint.h>\n#include <sys/types.h>\n'
           + STRUCT + '\n' + '\n'.join(c_body(f) for f in funcs))
    return {'name': name, 'kind': 'api', 'cdef': cdef, 'source': src, 'dir': d}, funcs, cdef


def gen_arg(rnd, a):
    """JSON-able descriptor of one argument"""
    r = rnd.random()
    for (T, size, signed) in INTS:
        if a == T:
            lo, hi = gen.int_range(size, signed)
            if r < 0.65:
                return {'k': 'int', 'v': rnd.choice([lo, hi, 0, 1, -1 if signed else 2,
                                                     rnd.randint(lo, hi)])}
            if r < 0.85:
                return {'k': 'int', 'v': rnd.choice([lo - 1, hi + 1, 2 ** 64, -2 ** 63 - 1,
                                                     2 ** 100])}
            return rnd.choice([{'k': 'str'}, {'k': 'none'}, {'k': 'float', 'v': (1.5).hex()},
                               {'k': 'bool', 'v': True}])
    if a == '_Bool':
        return rnd.choice([{'k': 'int', 'v': 0}, {'k': 'int', 'v': 1}, {'k': 'bool', 'v': True},
                           {'k': 'int', 'v': 2}, {'k': 'int', 'v': -1}, {'k': 'str'}])
    if a == 'char':
        return rnd.choice([{'k': 'bytes', 'v': bytes([rnd.randrange(256)]).hex()},
                           {'k': 'bytes', 'v': b'ab'.hex()}, {'k': 'int', 'v': 65}, {'k': 'str'}])
    if a in ('float', 'double'):
        if r < 0.8:
            return {'k': 'float', 'v': rnd.choice([0.0, 1.5, -2.25, 1e10, 3.0e38, 1e300,
                                                   rnd.uniform(-1e6, 1e6)]).hex()}
        return rnd.choice([{'k': 'int', 'v': 3}, {'k': 'str'}, {'k': 'none'}])
    if a in ('int *', 'long *'):
        vals = [rnd.randint(-1000, 1000) for _ in range(rnd.choice([2, 3]))]
        return rnd.choice([{'k': 'buf', 't': a[:-2], 'vals': vals}, {'k': 'buf', 't': a[:-2], 'vals': vals},
                           {'k': 'list', 'vals': vals}, {'k': 'null'}, {'k': 'wrongptr'},
                           {'k': 'int', 'v': 5}, {'k': 'none'}])
    if a == 'char *':
        s = bytes(rnd.randrange(1, 256) for _ in range(rnd.choice([1, 3, 8])))
        return rnd.choice([{'k': 'bytes', 'v': s.hex()}, {'k': 'cbuf', 'v': s.hex()},
                           {'k': 'null'}, {'k': 'wrongptr'}, {'k': 'str'}, {'k': 'list', 'vals': list(s)}])
    if a == 'struct pt *':
        sv = [rnd.randint(-100, 100), rnd.randint(-100, 100), rnd.choice([1.5, -3.0, 100.25])]
        return rnd.choice([{'k': 'structptr', 'v': sv}, {'k': 'structptr', 'v': sv},
                           {'k': 'null'}, {'k': 'wrongptr'}, {'k': 'structlist', 'v': sv},
                           {'k': 'partial', 'v': [{'a': sv[0]}]},
                           {'k': 'partial', 'v': [[sv[0]], {'b': sv[1]}]},
                           {'k': 'partial', 'v': [{'b': sv[1]}] * 20}])
    if a == 'struct pa':
        v = [[[rnd.choice([1.5, -2.0, 100.25, 0.0]) for _ in range(2)] for _ in range(2)]]
        return rnd.choice([{'k': 'sval', 't': a, 'v': v}, {'k': 'sval', 't': a, 'v': v},
                           {'k': 'rawlist', 'v': v}, {'k': 'int', 'v': 1}])
    if a == 'struct pd':
        v = [[[rnd.randint(-1000, 1000) for _ in range(2)] for _ in range(2)]]
        return rnd.choice([{'k': 'sval', 't': a, 'v': v}, {'k': 'sval', 't': a, 'v': v},
                           {'k': 'rawlist', 'v': v}, {'k': 'none'}])
    if a == 'struct pb':
        v = [[rnd.randint(-100, 100) % 256 for _ in range(3)], rnd.randint(-30000, 30000)]
        return rnd.choice([{'k': 'sval', 't': a, 'v': [bytes(v[0]).hex(), v[1]]},
                           {'k': 'str'}])
    if a == 'struct pt':
        sv = [rnd.randint(-100, 100), rnd.randint(-100, 100), rnd.choice([1.5, -3.0, 100.25])]
        return rnd.choice([{'k': 'struct', 'v': sv}, {'k': 'struct', 'v': sv},
                           {'k': 'structptr', 'v': sv}, {'k': 'int', 'v': 1},
                           {'k': 'dict', 'v': sv}])
    raise ValueError(a)


def generate(ctx):
    rng = ctx.rng('gen')
    nmod = ctx.scale(3, 120)
    nfun = 40
    ntup = ctx.scale(40, 60)
    d = os.path.join(ctx.tmp, 'mods')
    specs, cases = [], []
    for m in range(nmod):
        seed = rng.getrandbits(40)
        name = '_c13_%d' % m
        spec, funcs, cdef = module_spec(d, seed, nfun, name)
        specs.append(spec)
        tuples = {}
        for f in funcs:
            tl = []
            for _ in range(ntup):
                if f.get('variadic'):
                    n = rng.choice([0, 1, 2, 5])
                    tl.append([{'k': 'int', 'v': n}] +
                              [{'k': 'castll', 'v': rng.randint(-2 ** 40, 2 ** 40)} for _ in range(n)])
                else:
                    tl.append([gen_arg(rng, a) for a in f['args']])
            tuples[f['name']] = tl
        cases.append({'mod': name, 'seed': seed, 'nfun': nfun, 'tuples': tuples})
    res = modbuild.build_modules(ctx, specs)
    for c in cases:
        r = res[c['mod']]
        if not r['ok']:
            raise core.Inconclusive('module build failed: ' + r['error'] + r.get('log', '')[-1500:])
    return {'dir': d}, cases


def child_setup(setup, wd):
    import warnings
    warnings.simplefilter('ignore')
    sys.path.insert(0, setup['dir'])
    sys.path.insert(0, wd)
    return {'dir': setup['dir'], 'wd': wd}


def make_arg(ffi, d, keep):
    k = d['k']
    if k == 'int':
        return d['v']
    if k == 'float':
        return float.fromhex(d['v'])
    if k == 'bool':
        return d['v']
    if k == 'str':
        return 'a string'
    if k == 'none':
        return None
    if k == 'bytes':
        return bytes.fromhex(d['v'])
    if k == 'null':
        return ffi.NULL
    if k == 'list':
        return list(d['vals'])
    if k == 'wrongptr':
        p = ffi.new('short[4]')
        keep.append(('wrong', p))
        return p
    if k == 'buf':
        p = ffi.new(d['t'] + '[]', d['vals'])
        keep.append(('buf', p))
        return p
    if k == 'cbuf':
        p = ffi.new('char[]', bytes.fromhex(d['v']))
        keep.append(('buf', p))
        return p
    if k in ('structptr', 'struct'):
        p = ffi.new('struct pt *', d['v'])
        keep.append(('buf', p))
        return p if k == 'structptr' else p[0]
    if k == 'structlist':
        return list(d['v'])
    if k in ('partial', 'rawlist'):
        return d['v']        # list of partial struct initializers / raw nested list
    if k == 'sval':
        v = d['v']
        if d['t'] == 'struct pb':
            v = [bytes.fromhex(v[0]), v[1]]
        p = ffi.new(d['t'] + ' *', v)
        keep.append(('buf', p))
        return p[0]
    if k == 'dict':
        return {'a': d['v'][0], 'b': d['v'][1], 'c': d['v'][2]}
    if k == 'castll':
        return ffi.cast('long long', d['v'])
    raise ValueError(k)


def norm_ret(ffi, r, keep):
    if isinstance(r, float):
        return ('float', struct.pack('<d', r).hex())
    if isinstance(r, ffi.CData):
        t = ffi.typeof(r)
        if t.kind == 'pointer':
            a = int(ffi.cast('uintptr_t', r))
            for i, (kind, p) in enumerate(keep):
                if int(ffi.cast('uintptr_t', p)) == a:
                    return ('ptr-to-arg-buffer', i)
            return ('ptr', 'NULL' if a == 0 else 'other')
        if t.kind == 'struct':
            return ('struct', bytes(ffi.buffer(ffi.addressof(r))).hex())
        return ('cdata', repr(r))
    return (type(r).__name__, r)


def one_call(ffi, fn, descs):
    keep = []
    try:
        args = [make_arg(ffi, d, keep) for d in descs]
    except Exception as e:
        return ('harness', type(e).__name__ + str(e))
    ffi.errno = 12345
    try:
        r = fn(*args)
        out = ('ok', norm_ret(ffi, r, keep), ffi.errno)
    except Exception as e:
        out = ('exc', type(e).__name__)
    bufs = tuple(bytes(ffi.buffer(p)).hex() for kind, p in keep)
    return out + (bufs,)


def child_case(st, case):
    import importlib
    from cffi import FFI
    rep = core.ChildRep()
    mod = importlib.import_module(case['mod'])
    ffi, lib = mod.ffi, mod.lib
    spec, funcs, cdef = module_spec(st['dir'], case['seed'], case['nfun'], case['mod'])
    affi = FFI()
    affi.cdef(cdef)
    alib = affi.dlopen(mod.__file__)
    ob = FFI()
    ob.cdef(cdef)
    oname = case['mod'] + '_abi'
    ob.set_source(oname, None)
    ob.emit_python_code(os.path.join(st['wd'], oname + '.py'))
    om = importlib.import_module(oname)
    offi = om.ffi
    olib = offi.dlopen(mod.__file__)
    for f in funcs:
        name = f['name']
        paths = [('api', ffi, getattr(lib, name)), ('libffi', ffi, ffi.addressof(lib, name)),
                 ('inline-abi', affi, getattr(alib, name)), ('outofline-abi', offi, getattr(olib, name))]
        sig = c_decl(f)
        for descs in case['tuples'][name]:
            outs = [(pn, one_call(pf, fn, descs)) for pn, pf, fn in paths]
            rep.case((sig, repr(descs)), nontrivial=len(descs) > 0,
                     sample={'signature': sig, 'args': repr(descs)[:200], 'api_outcome': repr(outs[0][1])[:120]})
            rep.stat('calls', 4)
            ref = outs[0][1]
            rep.stat('outcome_' + ref[0])
            for pn, o in outs[1:]:
                if o != ref:
                    what = 'outcome'
                    if o[0] == ref[0] == 'ok':
                        what = 'return-value' if o[1] != ref[1] else ('errno' if o[2] != ref[2]
                                                                      else 'buffers')
                    elif o[0] != ref[0]:
                        what = 'accept-vs-raise'
                    else:
                        what = 'exception-class' if o[1] != ref[1] else 'buffers-after-exception'
                    rep.bad('%s:api-vs-%s' % (what, pn), '%s with %r: api -> %r, %s -> %r' %
                            (sig, descs, ref, pn, o), [name, descs])
    return rep.result()


def judge(ctx, setup, case, obs):
    def rp(detail):
        c = dict(case)
        c['tuples'] = {k: [] for k in case['tuples']}
        c['tuples'][detail[0]] = [detail[1]]
        return c
    core.absorb(ctx, case, obs, rp)


def replay_setup(ctx, case):
    d = os.path.join(ctx.tmp, 'mods')
    spec, funcs, cdef = module_spec(d, case['seed'], case['nfun'], case['mod'])
    res = modbuild.build_modules(ctx, [spec])
    if not res[case['mod']]['ok']:
        raise core.Inconclusive('module build failed')
    return {'dir': d}
