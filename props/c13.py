"""C13 -- all call paths to a C function agree.

Per generated module: 32 random C functions over the supported argument/return
types (0..10 parameters), a family of array-walking functions f(T *p, long n)
and two variadic functions.  Each function folds errno-at-entry and its
arguments into the return value, writes through pointer arguments and sets
errno from the arguments.  The same source is built as an API-mode module and
the shared object is also dlopen()ed in-line and through an out-of-line ABI
module.  For each argument tuple the four calls
  lib.f(...)  /  ffi.addressof(lib,'f')(...)  /  in-line dlopen  /  out-of-line ABI dlopen
run on fresh copies of the pointed-to buffers with the same preset ffi.errno;
compared: return value (bit pattern for floats, field-wise for structs) or
exception class, buffers afterwards, ffi.errno afterwards (also after an
exception).  Variadic calls and array-walking calls (whose four paths share
most of cdata_call) are in addition compared with a Python model of the C
function body.

Known finding kept under its own classifier key
'partial-struct-arg:indeterminate-fields': a by-value struct parameter given a
list initializer that names fewer fields than the struct has is converted into
an uninitialised local (generated _cffi_f_ wrapper) / uninitialised exchange
buffer (cdata_call); convert_struct_from_object() writes the named fields only,
so the callee sees indeterminate bytes in the others and the paths disagree.
"""
import os, sys, random, struct
from vlib import core, modbuild, gen

RULE = ("case = (function signature, argument tuple, errno preset, call form); signatures of 0..10 "
        "parameters over all integer sizes/signs, _Bool, char, wchar_t/char16_t/char32_t, float, double, "
        "pointers to int/long/double/char/unsigned char/void/struct, array-typed and function-pointer "
        "parameters, structs by value (register classes INTEGER, SSE, mixed, MEMORY, nested) and every one "
        "of them as return type; array walkers f(T*, n) with list/tuple/bytes/cdata arguments of 0..5000 "
        "bytes around the 512/640-byte temporary-storage thresholds; variadic calls with promoted cdata "
        "of every class; tuples are all-valid (60%), one hostile argument (25%) or free mix, where hostile "
        "= boundary/out-of-range ints, wrong Python types, cdata of another type, int-like/float-like "
        "objects, lists/bytes/NULL/wrongly typed cdata for pointers; call forms: exact arity, one "
        "argument missing, one extra, keyword argument; distinct = (signature, tuple); non-trivial = "
        "at least one argument")
ASSUMPTIONS = ["signatures that hit a defect of the system libffi 3.4.4 (a by-value INTEGER+SSE struct whose first eightbyte takes the last general register overwrites the value already assigned to xmm0; reproduced through ctypes) are not generated; by-value structs only appear in signatures of at most 7 parameters",
               "exception *classes* are compared, not messages",
               "pointer results are compared as 'which argument buffer they point into'",
               "struct results are compared field by field (padding bytes are not part of the outcome)",
               "<cdata 'float'> is not passed in the variadic part: cffi hands it to libffi unpromoted and the callee's va_arg(double) reads indeterminate bits (same on all paths; outside 'same outcome')",
               "the Python model of the variadic / array-walking C bodies states only what the C source in this file computes from the C-level argument values"]

INTS = [('signed char', 1, True), ('unsigned char', 1, False), ('short', 2, True),
        ('unsigned short', 2, False), ('int', 4, True), ('unsigned int', 4, False),
        ('long', 8, True), ('unsigned long', 8, False), ('long long', 8, True),
        ('unsigned long long', 8, False), ('int8_t', 1, True), ('uint16_t', 2, False),
        ('int32_t', 4, True), ('uint64_t', 8, False), ('size_t', 8, False), ('ssize_t', 8, True)]
INTD = dict((t[0], t) for t in INTS)
WCH = {'wchar_t': 0x10FFFF, 'char16_t': 0xFFFF, 'char32_t': 0x10FFFF}
FNPTR = 'int (*)(int)'
PTRITEM = {'int *': 'int', 'long *': 'long', 'double *': 'double', 'int[3]': 'int'}
STRUCTS = ['struct pt', 'struct pa', 'struct pd', 'struct pb', 'struct big', 'struct nest']
SCALARS = [t[0] for t in INTS] + ['_Bool', 'char', 'float', 'double', 'wchar_t', 'char16_t', 'char32_t']
POINTERS = ['int *', 'char *', 'struct pt *', 'long *', 'double *', 'unsigned char *', 'void *',
            'int[3]', FNPTR]
ARGT = SCALARS + POINTERS + ['struct pt', 'struct pt'] + STRUCTS
RETT = SCALARS + ['void', 'int *', 'char *', 'void *', 'struct pt *'] + ['struct pt'] + STRUCTS
STRUCT = ('struct pt { int a; short b; double c; }; struct pa { float a[2][2]; }; '
          'struct pd { int a[2][2]; }; struct pb { char c[3]; short s; }; '
          'struct big { long a; double b; signed char c[5]; long long d; }; '
          'struct in { short x; signed char y; }; struct nest { struct in p; int q; };')
SMALL = {'struct pa': '(long long)(%s.a[0][0] + 2 * %s.a[0][1] + 3 * %s.a[1][0] + 4 * %s.a[1][1])',
         'struct pd': '(long long)(%s.a[0][0] + 2LL * %s.a[0][1] + 3LL * %s.a[1][0] + 4LL * %s.a[1][1])',
         'struct pb': '(long long)(%s.c[0] + 2 * %s.c[1] + 3 * %s.c[2] + 4 * %s.s)',
         'struct big': '(long long)(%s.a + (long long)(%s.b * 2.0) + %s.c[0] + 2 * %s.c[4] + %s.d)',
         'struct nest': '(long long)(%s.p.x + 2 * %s.p.y + 3LL * %s.q)'}
# array walkers: tag -> (item type, item size, writes back)
ARR = {'int': ('int', 4, True), 'long': ('long', 8, True), 'short': ('short', 2, True),
       'double': ('double', 8, True), 'char': ('char', 1, False),
       'uchar': ('unsigned char', 1, False), 'pt': ('struct pt', 16, True),
       'pb': ('struct pb', 6, False)}
NFIELDS = {'struct pt': 3, 'struct pa': 1, 'struct pd': 1, 'struct pb': 2, 'struct big': 4, 'struct nest': 2}
M64 = (1 << 64) - 1


def s64(v):
    v &= M64
    return v - (1 << 64) if v >> 63 else v


def gen_module(seed, nfun):
    rnd = random.Random(seed)
    funcs = []
    for i in range(nfun):
        na = rnd.choice([0, 1, 1, 2, 2, 3, 4, 6, 8, 10])
        pool = ARGT if na <= 6 else SCALARS + POINTERS
        args = [rnd.choice(pool) for _ in range(na)]
        ret = rnd.choice(RETT)
        if ret in ('int *', 'char *', 'void *', 'struct pt *') and ret not in args:
            args.append(ret)
        while platform_libffi_bug(args, ret):
            args.remove('struct pt')
        funcs.append({'name': 'f%d' % i, 'args': args, 'ret': ret})
    for tag in sorted(ARR):
        funcs.append({'name': 'arr_' + tag, 'args': [ARR[tag][0] + ' *', 'long'], 'ret': 'long long',
                      'arr': tag})
    funcs.append({'name': 'arr2', 'args': ['int *', 'long', 'long *', 'long'], 'ret': 'long long',
                  'arr': '2'})
    funcs.append({'name': 'vsum', 'args': ['int'], 'ret': 'long long', 'variadic': 'sum'})
    funcs.append({'name': 'vmix', 'args': ['const char *'], 'ret': 'long long', 'variadic': 'mix'})
    return funcs


def platform_libffi_bug(args, ret=None):
    """The system libffi (3.4.4, also through ctypes) copies the whole 16 bytes of a
    mixed INTEGER+SSE struct to the slot of its first eightbyte; when that slot is
    the 6th (last) general register the copy runs over into the slot of xmm0, so
    an SSE value assigned earlier is replaced by the struct's double:
    double k(long,long,long,long, struct pt a, struct pt b) receives a.c == b.c and
    f(void*, long, struct pd, double x, int, struct pt p) receives x == p.c.
    Not cffi code: such signatures are not generated."""
    gpr, sse = 0, 0
    if ret == 'struct big':
        gpr = 1                     # MEMORY-class result: the hidden result pointer takes rdi
    for a in args:
        if a in ('float', 'double'):
            sse += 1 if sse < 8 else 0
            continue
        if a in ('struct pd',):
            gpr += 2 if gpr + 2 <= 6 else 0
            continue
        if a in ('struct pb', 'struct nest'):
            gpr += 1 if gpr < 6 else 0
            continue
        if a == 'struct pa':                      # two SSE eightbytes
            sse += 2 if sse + 2 <= 8 else 0
            continue
        if a == 'struct big':                     # MEMORY class
            continue
        if a == 'struct pt':
            if gpr + 1 <= 6 and sse + 1 <= 8:
                if gpr == 5 and sse > 0:
                    return True
                gpr += 1
                sse += 1
            continue
        if gpr < 6:
            gpr += 1
    return False


VSUM_C = ('long long vsum(int n, ...) { va_list ap; unsigned long long s = 0; int i; va_start(ap, n); '
          'for (i = 0; i < n; i++) s = s * 3 + (unsigned long long)va_arg(ap, long long); va_end(ap); '
          'errno = (int)(s & 0x7fff) + 1; return (long long)s; }')
VMIX_C = r'''long long vmix(const char *fmt, ...) {
  va_list ap; unsigned long long s = 5; const char *f; va_start(ap, fmt);
  for (f = fmt; *f; f++) { switch (*f) {
    case 'i': s = s * 3 + (unsigned long long)(long long)va_arg(ap, int); break;
    case 'u': s = s * 3 + (unsigned long long)va_arg(ap, unsigned int); break;
    case 'l': s = s * 3 + (unsigned long long)va_arg(ap, long long); break;
    case 'd': s = s * 3 + (unsigned long long)(long long)(va_arg(ap, double) * 4.0); break;
    case 'p': { int *p = va_arg(ap, int *);
                if (p) { s = s * 3 + (unsigned long long)(long long)p[0]; p[0] += 1; } else s = s * 3 + 1;
                break; }
    case 's': { char *p = va_arg(ap, char *); s = s * 3 + (p ? (unsigned long long)(unsigned char)p[0] : 2); break; }
    case 't': { struct pt t = va_arg(ap, struct pt);
                s = s * 3 + (unsigned long long)((long long)t.a + t.b + (long long)t.c); break; }
  } }
  va_end(ap); errno = (int)(s & 0x7fff) + 1; return (long long)s; }'''


def arr_body(f):
    tag = f['arr']
    if tag == '2':
        return ('long long arr2(int *p, long n, long *q, long m) { unsigned long long s = 11 + (errno & 0xff); '
                'long i; for (i = 0; i < n; i++) s = s * 131 + (unsigned long long)(long long)p[i]; '
                'for (i = 0; i < m; i++) { s = s * 131 + (unsigned long long)q[i]; q[i] += i + 1; } '
                'errno = (int)(s & 0x7fff) + 1; return (long long)s; }')
    T, size, wr = ARR[tag]
    if tag == 'pt':
        item = '(unsigned long long)((long long)p[i].a + 5LL * p[i].b + (long long)(p[i].c * 4.0))'
        write = 'p[i].a += (int)i + 1;'
    elif tag == 'pb':
        item = '(unsigned long long)(long long)(p[i].c[0] + 2 * p[i].c[1] + 3 * p[i].c[2] + 4 * p[i].s)'
        write = ''
    elif tag == 'double':
        item = '(unsigned long long)(long long)(p[i] * 4.0)'
        write = 'p[i] = p[i] + 1.0;'
    elif tag == 'uchar':
        item = '(unsigned long long)p[i]'
        write = ''
    else:
        item = '(unsigned long long)(long long)p[i]'
        write = 'p[i] = (%s)(p[i] + i + 1);' % T if wr else ''
    return ('long long %s(%s *p, long n) { unsigned long long s = 11 + (errno & 0xff); long i; '
            'for (i = 0; i < n; i++) { s = s * 131 + %s; %s } '
            'errno = (int)(s & 0x7fff) + 1; return (long long)s; }' % (f['name'], T, item, write))


def c_param(a, n):
    if a == FNPTR:
        return 'int (*%s)(int)' % n
    if a == 'int[3]':
        return 'int %s[3]' % n
    if a.endswith('*'):
        return a + n
    return '%s %s' % (a, n)


def c_body(f):
    if f.get('variadic') == 'sum':
        return VSUM_C
    if f.get('variadic') == 'mix':
        return VMIX_C
    if f.get('arr'):
        return arr_body(f)
    # the value of errno at entry is part of the result: every path has to
    # restore the saved errno before the call
    params, st = [], ['long long acc = 7 + (errno & 0xff);']
    for i, a in enumerate(f['args']):
        n = 'a%d' % i
        params.append(c_param(a, n))
        if a in ('float', 'double'):
            st.append('acc = acc * 31 + (long long)(%s * 4.0);' % n)
        elif a in ('int *', 'int[3]'):
            st.append('if (%s) { acc = acc * 31 + %s[0]; %s[0] = (int)(acc & 0xffff); '
                      '%s[1] ^= 0x55; }' % (n, n, n, n))
        elif a == 'long *':
            st.append('if (%s) { acc = acc * 31 + %s[0]; %s[0] = acc; }' % (n, n, n))
        elif a == 'double *':
            st.append('if (%s) { acc = acc * 31 + (long long)(%s[0] * 4.0); %s[0] = %s[0] * 0.5 + 1.0; '
                      '%s[1] = -%s[1]; }' % (n, n, n, n, n, n))
        elif a == 'char *':
            st.append('if (%s) { acc = acc * 31 + (unsigned char)%s[0]; }' % (n, n))
        elif a == 'unsigned char *':
            st.append('if (%s) { acc = acc * 31 + %s[0]; }' % (n, n))
        elif a == 'void *':
            st.append('acc = acc * 31 + (%s != 0);' % n)
        elif a == FNPTR:
            st.append('acc = acc * 31 + (%s ? %s(3) : -5);' % (n, n))
        elif a == 'struct pt *':
            st.append('if (%s) { acc = acc * 31 + %s->a + %s->b + (long long)%s->c; %s->a += 1; '
                      '%s->c = %s->c * 2; }' % (n, n, n, n, n, n, n))
        elif a == 'struct pt':
            st.append('acc = acc * 31 + %s.a + %s.b + (long long)%s.c;' % (n, n, n))
        elif a in SMALL:
            st.append('acc = acc * 31 + %s;' % (SMALL[a] % ((n,) * SMALL[a].count('%s'))))
        else:
            st.append('acc = acc * 31 + (long long)%s;' % n)
    st.append('errno = (int)(acc & 0x7fff) + 1;')
    r = f['ret']
    if r == 'void':
        pass
    elif r == '_Bool':
        st.append('return (acc & 1) != 0;')
    elif r in ('float', 'double'):
        st.append('return (%s)((double)(acc %% 4096) * 0.5);' % r)
    elif r in ('wchar_t', 'char32_t'):
        st.append('return (%s)(acc & 0x1fffff);' % r)      # sometimes > 0x10FFFF
    elif r in ('int *', 'char *', 'void *', 'struct pt *'):
        k = [i for i, a in enumerate(f['args']) if a == r][0]
        st.append('return a%d;' % k)
    elif r == 'struct pt':
        st.append('{ struct pt r; r.a = (int)acc; r.b = (short)(acc >> 3); r.c = (double)(acc % '
                  '1000); return r; }')
    elif r == 'struct pa':
        st.append('{ struct pa r; r.a[0][0] = (float)(acc % 100) * 0.5f; r.a[0][1] = (float)(acc % 7); '
                  'r.a[1][0] = -1.5f; r.a[1][1] = (float)(acc % 1000); return r; }')
    elif r == 'struct pd':
        st.append('{ struct pd r; r.a[0][0] = (int)acc; r.a[0][1] = (int)(acc >> 7); '
                  'r.a[1][0] = (int)(acc >> 13); r.a[1][1] = 42; return r; }')
    elif r == 'struct pb':
        st.append('{ struct pb r; r.c[0] = (char)acc; r.c[1] = (char)(acc >> 8); r.c[2] = (char)(acc >> 16); '
                  'r.s = (short)(acc >> 5); return r; }')
    elif r == 'struct big':
        st.append('{ struct big r; memset(&r, 0, sizeof(r)); r.a = (long)acc; r.b = (double)(acc % 512) * 0.25; '
                  'r.c[0] = (signed char)acc; r.c[4] = (signed char)(acc >> 9); r.d = acc ^ 0x5555; return r; }')
    elif r == 'struct nest':
        st.append('{ struct nest r; r.p.x = (short)acc; r.p.y = (signed char)(acc >> 4); r.q = (int)(acc >> 2); '
                  'return r; }')
    else:
        st.append('return (%s)acc;' % r)
    return '%s %s(%s) { %s }' % (r, f['name'], ', '.join(params) or 'void', ' '.join(st))


def c_decl(f):
    if f.get('variadic') == 'sum':
        return 'long long vsum(int n, ...);'
    if f.get('variadic') == 'mix':
        return 'long long vmix(const char *fmt, ...);'
    return '%s %s(%s);' % (f['ret'], f['name'], ', '.join(f['args']) or 'void')


def module_spec(d, seed, nfun, name):
    funcs = gen_module(seed, nfun)
    cdef = STRUCT + '\nint cbfn(int);\n' + '\n'.join(c_decl(f) for f in funcs)
    src = ('#include <errno.h>\n#include <stdarg.h>\n#include <stdint.h>\n#include <string.h>\n'
           '#include <sys/types.h>\n#include <wchar.h>\n#include <uchar.h>\n'
           + STRUCT + '\nint cbfn(int x) { return x * 7 + 1; }\n' + '\n'.join(c_body(f) for f in funcs))
    return {'name': name, 'kind': 'api', 'cdef': cdef, 'source': src, 'dir': d}, funcs, cdef


# ---------------------------------------------------------------------------
# argument descriptors (JSON-able)

CINT_T = ['long long', 'short', 'unsigned char', '_Bool', 'char', 'unsigned long long', 'int',
          'signed char', 'uint16_t']


def cint_desc(rnd, a):
    t = rnd.choice([a, a, 'long long'] + CINT_T) if a in INTD else rnd.choice(CINT_T)
    if t == '_Bool':
        return {'k': 'cint', 't': t, 'v': rnd.choice([0, 1])}
    if t == 'char':
        return {'k': 'cint', 't': t, 'v': rnd.randrange(0, 128)}
    if t in INTD:
        lo, hi = gen.int_range(INTD[t][1], INTD[t][2])
    else:
        lo, hi = 0, 0xffff
    return {'k': 'cint', 't': t, 'v': rnd.choice([lo, hi, 0, 1, rnd.randint(lo, hi)])}


def struct_init(rnd, a):
    if a == 'struct pt':
        return [rnd.randint(-100, 100), rnd.randint(-100, 100), rnd.choice([1.5, -3.0, 100.25])]
    if a == 'struct pa':
        return [[[rnd.choice([1.5, -2.0, 100.25, 0.0]) for _ in range(2)] for _ in range(2)]]
    if a == 'struct pd':
        return [[[rnd.randint(-1000, 1000) for _ in range(2)] for _ in range(2)]]
    if a == 'struct pb':
        return [bytes(rnd.randrange(256) for _ in range(3)).hex(), rnd.randint(-30000, 30000)]
    if a == 'struct big':
        return [rnd.randint(-10 ** 6, 10 ** 6), rnd.choice([1.5, -2.25, 1000.5, 0.0]),
                [rnd.randint(-128, 127) for _ in range(5)], rnd.randint(-10 ** 9, 10 ** 9)]
    if a == 'struct nest':
        return [[rnd.randint(-30000, 30000), rnd.randint(-128, 127)], rnd.randint(-10 ** 6, 10 ** 6)]
    raise ValueError(a)


def gen_arg(rnd, a, good):
    """JSON-able descriptor of one argument; good=True: an argument every path
    is expected to accept, good=False: hostile (mostly refused)."""
    r = rnd.random()
    if a in INTD:
        T, size, signed = INTD[a]
        lo, hi = gen.int_range(size, signed)
        if good:
            if r < 0.7:
                return {'k': 'int', 'v': rnd.choice([lo, hi, 0, 1, -1 if signed else 2, lo + 1, hi - 1,
                                                     rnd.randint(lo, hi), rnd.randint(lo, hi)])}
            if r < 0.85:
                d = cint_desc(rnd, a)
                return d
            if r < 0.9:
                return {'k': 'bool', 'v': rnd.choice([True, False])}
            if r < 0.95:
                return {'k': 'intsub', 'v': rnd.randint(lo, hi)}
            return {'k': 'intonly', 'v': rnd.randint(lo, hi)}
        if r < 0.5:
            return {'k': 'int', 'v': rnd.choice([lo - 1, hi + 1, 2 ** 64, -2 ** 63 - 1, 2 ** 100,
                                                 2 ** 63, 2 ** 32, -2 ** 31 - 1, -1, 2 ** 64 - 1])}
        if r < 0.65:
            return {'k': 'cint', 't': rnd.choice(['long long', 'unsigned long long']),
                    'v': rnd.choice([lo - 1, hi + 1, -1, 2 ** 63 - 1, -2 ** 63]) % 2 ** 64}
        return rnd.choice([{'k': 'str'}, {'k': 'none'}, {'k': 'float', 'v': (1.5).hex()},
                           {'k': 'float', 'v': (2.0).hex()}, {'k': 'index', 'v': 5},
                           {'k': 'cfloat', 't': 'double', 'v': (2.0).hex()},
                           {'k': 'intonly', 'v': hi + 1}, {'k': 'bytes', 'v': b'a'.hex()},
                           {'k': 'cptr'}, {'k': 'list', 'vals': [1]}])
    if a == '_Bool':
        if good:
            return rnd.choice([{'k': 'int', 'v': 0}, {'k': 'int', 'v': 1}, {'k': 'bool', 'v': True},
                               {'k': 'bool', 'v': False}, {'k': 'cint', 't': '_Bool', 'v': 1},
                               {'k': 'cint', 't': 'int', 'v': rnd.choice([0, 1])},
                               {'k': 'intonly', 'v': 1}])
        return rnd.choice([{'k': 'int', 'v': 2}, {'k': 'int', 'v': -1}, {'k': 'str'}, {'k': 'none'},
                           {'k': 'int', 'v': 2 ** 100}, {'k': 'float', 'v': (1.0).hex()},
                           {'k': 'cint', 't': 'int', 'v': 2}, {'k': 'index', 'v': 1},
                           {'k': 'cfloat', 't': 'double', 'v': (1.0).hex()}, {'k': 'int', 'v': 256}])
    if a == 'char':
        if good:
            return rnd.choice([{'k': 'bytes', 'v': bytes([rnd.randrange(256)]).hex()},
                               {'k': 'bytes', 'v': bytes([rnd.choice([0, 127, 128, 255])]).hex()},
                               {'k': 'cint', 't': 'char', 'v': rnd.randrange(256)}])
        return rnd.choice([{'k': 'bytes', 'v': b'ab'.hex()}, {'k': 'int', 'v': 65}, {'k': 'str'},
                           {'k': 'bytes', 'v': ''}, {'k': 'ustr', 'v': 'a'}, {'k': 'none'},
                           {'k': 'cint', 't': 'int', 'v': 65}, {'k': 'cint', 't': 'wchar_t', 'v': 65},
                           {'k': 'bytearray', 'v': b'a'.hex()}, {'k': 'bool', 'v': True}])
    if a in WCH:
        top = WCH[a]
        if good:
            c = rnd.choice([0, 0x41, 0xff, 0x100, 0xd7ff, 0xe000, 0xffff, rnd.randrange(0x10000),
                            min(top, rnd.choice([0x10000, 0x10ffff, rnd.randrange(0x10000, 0x110000)]))])
            if r < 0.8:
                return {'k': 'ustr', 'v': chr(c) if not 0xd800 <= c < 0xe000 else 'z'}
            return {'k': 'cint', 't': a, 'v': c}
        return rnd.choice([{'k': 'ustr', 'v': chr(0x10000)}, {'k': 'ustr', 'v': chr(0x10ffff)},
                           {'k': 'ustr', 'v': '\ud800'}, {'k': 'ustr', 'v': '\udfff'},
                           {'k': 'ustr', 'v': 'ab'}, {'k': 'ustr', 'v': ''}, {'k': 'bytes', 'v': b'a'.hex()},
                           {'k': 'int', 'v': 65}, {'k': 'none'},
                           {'k': 'cint', 't': rnd.choice([t for t in sorted(WCH) if t != a]), 'v': 0x42},
                           {'k': 'cint', 't': 'char', 'v': 65}, {'k': 'cint', 't': 'int', 'v': 65},
                           {'k': 'ustr', 'v': 'é'}])
    if a in ('float', 'double'):
        if good:
            if r < 0.7:
                return {'k': 'float', 'v': rnd.choice([0.0, 1.5, -2.25, 1e10, 0.1, -0.0, 16777217.0,
                                                       rnd.uniform(-1e6, 1e6)]).hex()}
            if r < 0.8:
                return {'k': 'cfloat', 't': rnd.choice(['float', 'double']),
                        'v': rnd.choice([1.5, -2.25, 0.1, 1e10]).hex()}
            return rnd.choice([{'k': 'int', 'v': 3}, {'k': 'int', 'v': -2 ** 40}, {'k': 'bool', 'v': True},
                               {'k': 'floatobj', 'v': (2.5).hex()}, {'k': 'cint', 't': 'int', 'v': 12},
                               {'k': 'index', 'v': 7}])
        return rnd.choice([{'k': 'str'}, {'k': 'none'}, {'k': 'int', 'v': 2 ** 2000},
                           {'k': 'float', 'v': (3.0e38).hex()}, {'k': 'float', 'v': (1e300).hex()},
                           {'k': 'float', 'v': 'inf'}, {'k': 'float', 'v': '-inf'},
                           {'k': 'bytes', 'v': b'1'.hex()}, {'k': 'cptr'}, {'k': 'list', 'vals': [1]},
                           {'k': 'cint', 't': 'char', 'v': 65}])
    if a in PTRITEM:
        it = PTRITEM[a]
        n = rnd.choice([3, 3, 4, 8])
        if it == 'double':
            vals = [rnd.choice([1.5, -2.25, 100.0, 0.0, 7.75]) for _ in range(n)]
        else:
            vals = [rnd.randint(-1000, 1000) for _ in range(n)]
        if good:
            return rnd.choice([{'k': 'buf', 't': it, 'vals': vals}, {'k': 'buf', 't': it, 'vals': vals},
                               {'k': 'buf', 't': it, 'vals': vals, 'as': 'ptr'},
                               {'k': 'buf', 't': it, 'vals': vals, 'as': 'void'},
                               {'k': 'buf', 't': it, 'vals': vals, 'as': 'frombuf'},
                               {'k': 'list', 'vals': vals}, {'k': 'tuple', 'vals': vals}, {'k': 'null'}])
        return rnd.choice([{'k': 'wrongptr'}, {'k': 'int', 'v': 5}, {'k': 'int', 'v': 0}, {'k': 'none'},
                           {'k': 'str'}, {'k': 'bytes', 'v': b'abcdefgh'.hex()},
                           {'k': 'list', 'vals': vals[:2] + ['x']},
                           {'k': 'list', 'vals': [2 ** 70 if it != 'double' else 'y'] + vals},
                           {'k': 'bytearray', 'v': (b'\0' * 32).hex()}, {'k': 'float', 'v': (1.0).hex()},
                           {'k': 'buf', 't': 'unsigned ' + it if it != 'double' else 'float', 'vals': [1, 2, 3]},
                           {'k': 'fn'}])
    if a in ('char *', 'unsigned char *'):
        s = bytes(rnd.randrange(1, 256) for _ in range(rnd.choice([1, 3, 8])))
        if good:
            return rnd.choice([{'k': 'bytes', 'v': s.hex()}, {'k': 'bytes', 'v': s.hex()},
                               {'k': 'cbuf', 't': a[:-2], 'v': s.hex()},
                               {'k': 'cbuf', 't': a[:-2], 'v': s.hex(), 'as': 'ptr'},
                               {'k': 'cbuf', 't': a[:-2], 'v': s.hex(), 'as': 'void'},
                               {'k': 'cbuf', 't': a[:-2], 'v': s.hex(), 'as': 'frombuf'},
                               {'k': 'null'},
                               {'k': 'hexlist', 'vals': [bytes([c]).hex() for c in s], 'list': True}
                               if a == 'char *' else {'k': 'list', 'vals': list(s)},
                               {'k': 'hexlist', 'vals': [bytes([c]).hex() for c in s]} if a == 'char *'
                               else {'k': 'tuple', 'vals': list(s)}])
        return rnd.choice([{'k': 'wrongptr'}, {'k': 'str'}, {'k': 'none'}, {'k': 'int', 'v': 0},
                           {'k': 'list', 'vals': list(s)} if a == 'char *' else {'k': 'list', 'vals': [256, 1]},
                           {'k': 'bytearray', 'v': s.hex()},
                           {'k': 'cbuf', 't': 'unsigned char' if a == 'char *' else 'char', 'v': s.hex()},
                           {'k': 'cbuf', 't': 'signed char', 'v': s.hex()}, {'k': 'ustr', 'v': 'abc'},
                           {'k': 'list', 'vals': [-1]}])
    if a == 'void *':
        s = bytes(rnd.randrange(1, 256) for _ in range(4))
        if good:
            return rnd.choice([{'k': 'buf', 't': 'int', 'vals': [1, 2, 3]},
                               {'k': 'buf', 't': 'int', 'vals': [1, 2, 3], 'as': 'void'},
                               {'k': 'buf', 't': 'long', 'vals': [4, 5], 'as': 'ptr'},
                               {'k': 'cbuf', 't': 'char', 'v': s.hex()}, {'k': 'null'},
                               {'k': 'bytes', 'v': s.hex()}, {'k': 'structptr', 'v': [1, 2, 1.5]},
                               {'k': 'fn'}])
        return rnd.choice([{'k': 'int', 'v': 0}, {'k': 'int', 'v': 4096}, {'k': 'none'}, {'k': 'str'},
                           {'k': 'list', 'vals': [1, 2]}, {'k': 'bytearray', 'v': s.hex()},
                           {'k': 'float', 'v': (1.0).hex()}, {'k': 'cint', 't': 'long', 'v': 64},
                           {'k': 'struct', 'v': [1, 2, 1.5]}])
    if a == FNPTR:
        if good:
            return rnd.choice([{'k': 'fn'}, {'k': 'fn'}, {'k': 'fn', 'as': 'void'}, {'k': 'null'}])
        return rnd.choice([{'k': 'fn', 'as': 'wrong'}, {'k': 'int', 'v': 0}, {'k': 'none'}, {'k': 'str'},
                           {'k': 'buf', 't': 'int', 'vals': [1, 2, 3]}, {'k': 'bytes', 'v': b'ab'.hex()},
                           {'k': 'list', 'vals': [1]}, {'k': 'pyfunc'}])
    if a == 'struct pt *':
        sv = struct_init(rnd, 'struct pt')
        if good:
            return rnd.choice([{'k': 'structptr', 'v': sv}, {'k': 'structptr', 'v': sv},
                               {'k': 'structptr', 'v': sv, 'as': 'void'},
                               {'k': 'structarr', 'v': [sv, struct_init(rnd, 'struct pt')]},
                               {'k': 'null'}, {'k': 'structlist', 'v': sv},
                               {'k': 'partial', 'v': [{'a': sv[0]}]},
                               {'k': 'partial', 'v': [[sv[0]], {'b': sv[1]}]},
                               {'k': 'partial', 'v': [{'b': sv[1]}] * 20},
                               {'k': 'partial', 'v': [{'c': sv[2]}] * rnd.choice([32, 33, 40, 41, 70])}])
        return rnd.choice([{'k': 'wrongptr'}, {'k': 'struct', 'v': sv}, {'k': 'none'}, {'k': 'int', 'v': 0},
                           {'k': 'dict', 'v': sv}, {'k': 'partial', 'v': [{'zz': 1}]},
                           {'k': 'partial', 'v': [{'a': 1}] * 50 + [{'a': 2 ** 40}]},
                           {'k': 'sval', 't': 'struct pd', 'v': struct_init(rnd, 'struct pd'), 'as': 'ptr'},
                           {'k': 'str'}, {'k': 'bytes', 'v': (b'\1' * 16).hex()}])
    if a in STRUCTS:
        v = struct_init(rnd, a)
        if good:
            if r < 0.04 and NFIELDS[a] > 1 and a != 'struct pb':
                return {'k': 'rawlist', 'v': v[:1]}       # partial initializer
            if a == 'struct pt':
                return rnd.choice([{'k': 'struct', 'v': v}, {'k': 'struct', 'v': v}, {'k': 'dict', 'v': v},
                                   {'k': 'rawlist', 'v': v}])
            if a == 'struct pb':
                return {'k': 'sval', 't': a, 'v': v}
            return rnd.choice([{'k': 'sval', 't': a, 'v': v}, {'k': 'sval', 't': a, 'v': v},
                               {'k': 'rawlist', 'v': v}])
        other = rnd.choice([s for s in STRUCTS if s != a])
        return rnd.choice([{'k': 'int', 'v': 1}, {'k': 'none'}, {'k': 'str'},
                           {'k': 'sval', 't': other, 'v': struct_init(rnd, other)},
                           {'k': 'sval', 't': a, 'v': v, 'as': 'ptr'}, {'k': 'rawlist', 'v': v + [1, 2, 3]},
                           {'k': 'rawlist', 'v': ['x']}, {'k': 'partial', 'v': {'nofield': 1}},
                           {'k': 'bytes', 'v': (b'\0' * 16).hex()}])
    raise ValueError(a)


def arr_lengths(size):
    return [0, 1, 2, 3, 5, 512 // size - 1, 512 // size, 512 // size + 1, 576 // size,
            640 // size, 640 // size + 1, 1024 // size, 5000 // size]


def arr_items(rnd, tag, n):
    if tag in ('int', 'long'):
        return [rnd.randint(-10 ** 6, 10 ** 6) for _ in range(n)]
    if tag == 'short':
        return [rnd.randint(-30000, 30000) for _ in range(n)]
    if tag == 'double':
        return [rnd.choice([1.5, -2.25, 100.0, 0.0, 7.75, 3.0]) for _ in range(n)]
    if tag in ('char', 'uchar'):
        return [rnd.randrange(256) for _ in range(n)]
    if tag == 'pt':
        out = []
        for _ in range(n):
            sv = struct_init(rnd, 'struct pt')
            out.append(rnd.choice([sv, sv, sv[:1], sv[:2], {'b': sv[1]}, {'c': sv[2], 'a': sv[0]}, {}]))
        return out
    if tag == 'pb':
        out = []
        for _ in range(n):
            sv = struct_init(rnd, 'struct pb')
            out.append(rnd.choice([sv, sv, {'s': sv[1]}, sv[:1]]))
        return out
    raise ValueError(tag)


def gen_arr_arg(rnd, tag, n):
    """(descriptor of the array argument, number of items the callee may walk)"""
    vals = arr_items(rnd, tag, n)
    r = rnd.random()
    if tag in ('char', 'uchar') and r < 0.25:
        return {'k': 'bytes', 'v': bytes(vals).hex()}, n
    if r < 0.45:
        return {'k': 'arrlist', 'tag': tag, 'vals': vals}, n
    if r < 0.6:
        return {'k': 'arrlist', 'tag': tag, 'vals': vals, 'tuple': True}, n
    if r < 0.85:
        return {'k': 'arrbuf', 'tag': tag, 'vals': vals,
                'as': rnd.choice(['arr', 'arr', 'ptr', 'void'])}, n
    if r < 0.9:
        return {'k': 'null'}, 0
    # a hostile item somewhere in the list: refused after the temporary was obtained
    bad = list(vals)
    bad.insert(rnd.randrange(n + 1),
               rnd.choice(['x', 2 ** 70 if tag not in ('double', 'pt', 'pb') else 'y',
                           None if tag != 'pt' else {'nofield': 3}]))
    return {'k': 'arrlist', 'tag': tag, 'vals': bad, 'hostile': True}, n


VAR_KINDS = [('i', 'int'), ('i', 'short'), ('i', 'signed char'), ('i', 'unsigned char'),
             ('i', 'unsigned short'), ('i', 'char'), ('i', '_Bool'), ('i', 'int8_t'), ('i', 'wchar_t'),
             ('u', 'unsigned int'), ('u', 'char32_t'), ('i', 'char16_t'),
             ('l', 'long'), ('l', 'long long'), ('l', 'unsigned long'), ('l', 'ssize_t'),
             ('l', 'unsigned long long'), ('d', 'double'), ('d', 'double'),
             ('p', 'arr'), ('p', 'ptr'), ('p', 'null'), ('s', 'arr'), ('s', 'ptr'), ('t', 'struct')]


def gen_var_arg(rnd):
    f, t = rnd.choice(VAR_KINDS)
    if f in 'iul':
        if t == '_Bool':
            v = rnd.choice([0, 1])
        elif t == 'char':
            v = rnd.randrange(0, 128)
        elif t in ('wchar_t', 'char32_t'):
            v = rnd.choice([0x41, 0x10ffff, 0xffff, rnd.randrange(0x110000)])
        elif t == 'char16_t':
            v = rnd.choice([0x41, 0xffff, 0xd800, rnd.randrange(0x10000)])
        else:
            T, size, signed = INTD[t]
            lo, hi = gen.int_range(size, signed)
            v = rnd.choice([lo, hi, 0, -1 if signed else 1, rnd.randint(lo, hi)])
        return {'k': 'vc', 'f': f, 't': t, 'v': v}
    if f == 'd':
        return {'k': 'vc', 'f': f, 't': t, 'v': rnd.choice([1.5, -2.25, 0.0, 1e6, 0.1, 12345.75]).hex()}
    if f == 'p':
        return {'k': 'vc', 'f': f, 't': t, 'v': [rnd.randint(-10 ** 6, 10 ** 6), rnd.randint(0, 9)]}
    if f == 's':
        return {'k': 'vc', 'f': f, 't': t, 'v': bytes(rnd.randrange(1, 256) for _ in range(3)).hex()}
    return {'k': 'vc', 'f': f, 't': t, 'v': struct_init(rnd, 'struct pt')}


HOSTILE_VAR = [{'k': 'int', 'v': 3}, {'k': 'none'}, {'k': 'float', 'v': (1.5).hex()},
               {'k': 'bytes', 'v': b'ab'.hex()}, {'k': 'str'}, {'k': 'list', 'vals': [1]},
               {'k': 'bool', 'v': True}]


def gen_tuple(rng, f):
    e = rng.choice([0, 1, 2, 34, 255, rng.randrange(1, 4000)])
    if f.get('variadic') == 'sum':
        n = rng.choice([0, 1, 2, 5, 9])
        va = [{'k': 'vc', 'f': 'l', 't': rng.choice(['long long', 'long', 'ssize_t', 'unsigned long long']),
               'v': rng.choice([rng.randint(-2 ** 40, 2 ** 40), 2 ** 63 - 1, -2 ** 63, -1])} for _ in range(n)]
        for d in va:
            if d['t'].startswith('unsigned'):
                d['v'] %= 2 ** 64
        mode = 'var'
        if n and rng.random() < 0.15:
            va[rng.randrange(n)] = rng.choice(HOSTILE_VAR)
            mode = 'var-hostile'
        return {'a': [{'k': 'int', 'v': n}] + va, 'e': e, 'm': mode}
    if f.get('variadic') == 'mix':
        n = rng.choice([0, 1, 2, 3, 5, 8, 12])
        va = []
        while len(va) < n:
            d = gen_var_arg(rng)
            shape = ['char *'] + [{'d': 'double', 't': 'struct pt'}.get(x['f'], 'long') for x in va + [d]]
            if not platform_libffi_bug(shape):
                va.append(d)
        fmt = ''.join(d['f'] for d in va)
        mode = 'var'
        if n and rng.random() < 0.15:
            va[rng.randrange(n)] = rng.choice(HOSTILE_VAR)
            mode = 'var-hostile'
        return {'a': [{'k': 'bytes', 'v': fmt.encode().hex()}] + va, 'e': e, 'm': mode}
    if f.get('arr'):
        tag = f['arr']
        if tag == '2':
            n1 = rng.choice(arr_lengths(4))
            n2 = rng.choice(arr_lengths(8))
            d1, w1 = gen_arr_arg(rng, 'int', n1)
            d2, w2 = gen_arr_arg(rng, 'long', n2)
            return {'a': [d1, {'k': 'int', 'v': w1}, d2, {'k': 'int', 'v': w2}], 'e': e, 'm': 'arr'}
        n = rng.choice(arr_lengths(ARR[tag][1]))
        d, w = gen_arr_arg(rng, tag, n)
        if w and rng.random() < 0.15:
            w = rng.randrange(w)          # callee walks a prefix only
        return {'a': [d, {'k': 'int', 'v': w}], 'e': e, 'm': 'arr'}
    r = rng.random()
    args = f['args']
    if r < 0.6 or not args:
        descs = [gen_arg(rng, a, True) for a in args]
        mode = 'valid'
    elif r < 0.85:
        descs = [gen_arg(rng, a, True) for a in args]
        k = rng.randrange(len(args))
        descs[k] = gen_arg(rng, args[k], False)
        mode = 'one-hostile'
    else:
        descs = [gen_arg(rng, a, rng.random() < 0.6) for a in args]
        mode = 'mix'
    r = rng.random()
    if r < 0.04 and args:
        mode = 'count-missing'
    elif r < 0.08:
        mode = 'count-extra'
    elif r < 0.10:
        mode = 'keyword'
    return {'a': descs, 'e': e, 'm': mode}


def generate(ctx):
    rng = ctx.rng('gen')
    nmod = ctx.scale(3, 120)
    nfun = 32
    ntup = ctx.scale(24, 40)
    d = os.path.join(ctx.tmp, 'mods')
    specs, cases = [], []
    for m in range(nmod):
        seed = rng.getrandbits(40)
        name = '_c13_%d' % m
        spec, funcs, cdef = module_spec(d, seed, nfun, name)
        specs.append(spec)
        tuples = {}
        for f in funcs:
            k = ntup
            if f.get('variadic'):
                k = ntup + 10
            elif f.get('arr'):
                k = max(8, ntup // 2)
            elif not f['args']:
                k = 4
            tuples[f['name']] = [gen_tuple(rng, f) for _ in range(k)]
        cases.append({'mod': name, 'seed': seed, 'nfun': nfun, 'tuples': tuples})
    res = modbuild.build_modules(ctx, specs)
    for c in cases:
        r = res[c['mod']]
        if not r['ok']:
            raise core.Inconclusive('module build failed: ' + r['error'] + r.get('log', '')[-1500:])
    return {'dir': d}, cases


def child_setup(setup, wd):
    import warnings
    warnings.simplefilter('ignore')
    sys.path.insert(0, setup['dir'])
    sys.path.insert(0, wd)
    return {'dir': setup['dir'], 'wd': wd}


class _IntSub(int):
    pass


class _Index(object):
    def __init__(self, v):
        self.v = v

    def __index__(self):
        return self.v


class _IntOnly(object):
    def __init__(self, v):
        self.v = v

    def __int__(self):
        return self.v


class _FloatObj(object):
    def __init__(self, v):
        self.v = v

    def __float__(self):
        return self.v


def _pyfunc(x):
    return x


def _hexfloat(s):
    return float(s) if s in ('inf', '-inf', 'nan') else float.fromhex(s)


def _pb_init(v):
    if isinstance(v, list) and v and isinstance(v[0], str):
        return [bytes.fromhex(v[0])] + v[1:]
    if isinstance(v, list):
        return v
    return v


def _arr_init(tag, vals):
    if tag == 'char':
        return [bytes([c]) if isinstance(c, int) and 0 <= c < 256 else c for c in vals]
    if tag == 'pb':
        return [_pb_init(v) for v in vals]
    return list(vals)


def _shape(ffi, base, how, keep):
    """pass the array cdata 'base' as itself / a pointer / a void pointer"""
    keep.append(('buf', base))
    if how == 'ptr':
        return base + 0
    if how == 'void':
        return ffi.cast('void *', base)
    return base


def make_arg(ffi, d, keep, env):
    k = d['k']
    if k == 'int':
        return d['v']
    if k == 'float':
        return _hexfloat(d['v'])
    if k == 'bool':
        return d['v']
    if k == 'str':
        return 'a string'
    if k == 'ustr':
        return d['v']
    if k == 'none':
        return None
    if k == 'bytes':
        return bytes.fromhex(d['v'])
    if k == 'bytearray':
        return bytearray(bytes.fromhex(d['v']))
    if k == 'null':
        return ffi.NULL
    if k == 'list':
        return list(d['vals'])
    if k == 'tuple':
        return tuple(d['vals'])
    if k == 'hexlist':
        v = [bytes.fromhex(x) for x in d['vals']]
        return v if d.get('list') else tuple(v)
    if k == 'castll':
        return ffi.cast('long long', d['v'])
    if k == 'intsub':
        return _IntSub(d['v'])
    if k == 'index':
        return _Index(d['v'])
    if k == 'intonly':
        return _IntOnly(d['v'])
    if k == 'floatobj':
        return _FloatObj(_hexfloat(d['v']))
    if k == 'pyfunc':
        return _pyfunc
    if k == 'cint':
        return ffi.cast(d['t'], d['v'])
    if k == 'cfloat':
        return ffi.cast(d['t'], _hexfloat(d['v']))
    if k == 'cptr':
        p = ffi.new('int[2]')
        keep.append(('wrong', p))
        return p
    if k == 'wrongptr':
        p = ffi.new('short[4]')
        keep.append(('wrong', p))
        return p
    if k == 'fn':
        how = d.get('as')
        if how == 'wrong':
            return ffi.cast('long(*)(long)', env['fnaddr'])
        if how == 'void':
            return ffi.cast('void *', env['fnaddr'])
        return ffi.cast('int(*)(int)', env['fnaddr'])
    if k == 'buf':
        how = d.get('as')
        if how == 'frombuf':
            ba = bytearray(bytes(ffi.buffer(ffi.new(d['t'] + '[]', d['vals']))))
            p = ffi.from_buffer(d['t'] + '[]', ba)
            keep.append(('buf', p))
            return p
        return _shape(ffi, ffi.new(d['t'] + '[]', d['vals']), how, keep)
    if k == 'cbuf':
        how = d.get('as')
        t = d.get('t', 'char')
        raw = bytes.fromhex(d['v'])
        if how == 'frombuf':
            p = ffi.from_buffer(t + '[]', bytearray(raw + b'\0'))
            keep.append(('buf', p))
            return p
        p = ffi.new(t + '[]', len(raw) + 1)
        ffi.buffer(p)[0:len(raw)] = raw
        return _shape(ffi, p, how, keep)
    if k in ('structptr', 'struct'):
        p = ffi.new('struct pt *', d['v'])
        keep.append(('buf', p))
        if k == 'struct':
            return p[0]
        return ffi.cast('void *', p) if d.get('as') == 'void' else p
    if k == 'structarr':
        p = ffi.new('struct pt[]', d['v'])
        keep.append(('buf', p))
        return p
    if k == 'structlist':
        return list(d['v'])
    if k in ('partial', 'rawlist'):
        return d['v']        # list of partial struct initializers / raw nested list
    if k == 'sval':
        v = d['v']
        if d['t'] == 'struct pb':
            v = _pb_init(v)
        p = ffi.new(d['t'] + ' *', v)
        keep.append(('buf', p))
        return p if d.get('as') == 'ptr' else p[0]
    if k == 'dict':
        return {'a': d['v'][0], 'b': d['v'][1], 'c': d['v'][2]}
    if k == 'arrlist':
        v = _arr_init(d['tag'], d['vals'])
        return tuple(v) if d.get('tuple') else v
    if k == 'arrbuf':
        T = ARR[d['tag']][0]
        return _shape(ffi, ffi.new(T + '[]', _arr_init(d['tag'], d['vals'])), d.get('as'), keep)
    if k == 'vc':
        f, t, v = d['f'], d['t'], d['v']
        if f in 'iul':
            return ffi.cast(t, v)
        if f == 'd':
            return ffi.cast(t, _hexfloat(v))
        if f == 'p':
            if t == 'null':
                return ffi.cast('int *', 0)
            return _shape(ffi, ffi.new('int[]', v), 'ptr' if t == 'ptr' else None, keep)
        if f == 's':
            return _shape(ffi, ffi.new('char[]', bytes.fromhex(v)), 'ptr' if t == 'ptr' else None, keep)
        p = ffi.new('struct pt *', v)
        keep.append(('buf', p))
        return p[0]
    raise ValueError(k)


def unpack(ffi, v):
    """field-wise Python value of a cdata (struct / array / primitive)"""
    if isinstance(v, float):
        return ('f', struct.pack('<d', v).hex())
    if not isinstance(v, ffi.CData):
        return v
    t = ffi.typeof(v)
    if t.kind == 'struct':
        return [(name, unpack(ffi, getattr(v, name))) for name, fld in t.fields]
    if t.kind == 'array':
        return [unpack(ffi, v[i]) for i in range(len(v))]
    return repr(v)


def norm_ret(ffi, r, keep):
    if isinstance(r, float):
        return ('float', struct.pack('<d', r).hex())
    if isinstance(r, ffi.CData):
        t = ffi.typeof(r)
        if t.kind == 'pointer':
            a = int(ffi.cast('uintptr_t', r))
            for i, (kind, p) in enumerate(keep):
                if int(ffi.cast('uintptr_t', p)) == a:
                    return ('ptr-to-arg-buffer', i)
            return ('ptr', 'NULL' if a == 0 else 'other')
        if t.kind == 'struct':
            return ('struct', repr(unpack(ffi, r)))
        return ('cdata', repr(r))
    return (type(r).__name__, r)


def one_call(ffi, fn, tup, env):
    keep = []
    try:
        args = [make_arg(ffi, d, keep, env) for d in tup['a']]
    except Exception as e:
        return ('harness', type(e).__name__ + str(e))
    kw = {}
    m = tup['m']
    if m == 'count-missing':
        args = args[:-1]
    elif m == 'count-extra':
        args = args + [0]
    elif m == 'keyword':
        kw = {'x0': 1}
    ffi.errno = tup['e']
    try:
        r = fn(*args, **kw)
        out = ('ok', norm_ret(ffi, r, keep), ffi.errno)
    except Exception as e:
        out = ('exc', type(e).__name__, ffi.errno)
    bufs = tuple(bytes(ffi.buffer(p)).hex() for kind, p in keep)
    return out + (bufs,)


# ---------------------------------------------------------------------------
# reference models of the C bodies whose four paths share cdata_call's code

def model_var(f, tup):
    """(return value, errno, {index in keep: expected int at [0]}) of vsum / vmix for an
    all-cdata tuple; None if the tuple is not a plain valid one."""
    if tup['m'] != 'var':
        return None
    descs = tup['a']
    if f['variadic'] == 'sum':
        s = 0
        for d in descs[1:]:
            s = (s * 3 + d['v']) & M64
        return s64(s), (s & 0x7fff) + 1, {}
    s = 5
    nkeep = 0
    expect = {}
    for d in descs[1:]:
        fch, t, v = d['f'], d['t'], d['v']
        if fch == 'i':
            if t in INTD:
                size, signed = INTD[t][1], INTD[t][2]
                lo, hi = gen.int_range(size, signed)
                assert lo <= v <= hi
            x = v
            if t in ('wchar_t',):
                x = v        # 32-bit, <= 0x10ffff: same as int
            s = (s * 3 + x) & M64
        elif fch == 'u':
            s = (s * 3 + v) & M64
        elif fch == 'l':
            s = (s * 3 + v) & M64
        elif fch == 'd':
            s = (s * 3 + int(_hexfloat(v) * 4.0)) & M64
        elif fch == 'p':
            if t == 'null':
                s = (s * 3 + 1) & M64
            else:
                s = (s * 3 + v[0]) & M64
                expect[nkeep] = v[0] + 1
                nkeep += 1
        elif fch == 's':
            s = (s * 3 + bytes.fromhex(v)[0]) & M64
            nkeep += 1
        elif fch == 't':
            s = (s * 3 + v[0] + v[1] + int(v[2])) & M64
            nkeep += 1
    return s64(s), (s & 0x7fff) + 1, expect


def _item_value(tag, it):
    """value the arr_<tag> walker adds for one (possibly partial) initializer"""
    if tag in ('int', 'long', 'short', 'uchar'):
        return it
    if tag == 'char':
        return it - 256 if it >= 128 else it          # plain char is signed on this platform
    if tag == 'double':
        return int(it * 4.0)
    if tag == 'pt':
        a = b = 0
        c = 0.0
        if isinstance(it, dict):
            a, b, c = it.get('a', 0), it.get('b', 0), it.get('c', 0.0)
        else:
            vals = list(it) + [0, 0, 0.0][len(it):]
            a, b, c = vals
        return a + 5 * b + int(c * 4.0)
    if tag == 'pb':
        c = b'\0\0\0'
        sh = 0
        if isinstance(it, dict):
            sh = it.get('s', 0)
        else:
            c = bytes.fromhex(it[0])
            if len(it) > 1:
                sh = it[1]
        cs = [x - 256 if x >= 128 else x for x in c]
        return cs[0] + 2 * cs[1] + 3 * cs[2] + 4 * sh
    raise ValueError(tag)


def model_arr(f, tup):
    """expected return value and errno of an array walker for a valid tuple"""
    descs = tup['a']
    s = 11 + (tup['e'] & 0xff)
    pairs = [(f['arr'], descs[0], descs[1])] if f['arr'] != '2' else \
        [('int', descs[0], descs[1]), ('long', descs[2], descs[3])]
    for tag, d, nd in pairs:
        if d.get('hostile'):
            return None
        n = nd['v']
        if d['k'] == 'null':
            continue
        if d['k'] == 'bytes':
            vals = list(bytes.fromhex(d['v']))
        else:
            vals = d['vals']
        for it in vals[:n]:
            s = (s * 131 + _item_value(tag, it)) & M64
    return s64(s), (s & 0x7fff) + 1


def partial_struct_arg(f, tup):
    """a by-value struct parameter receives an initializer list that names fewer
    fields than the struct has"""
    if f.get('variadic') or f.get('arr'):
        return False
    for a, d in zip(f['args'], tup['a']):
        if a in STRUCTS and d['k'] == 'rawlist' and isinstance(d['v'], list) and len(d['v']) < NFIELDS[a]:
            return True
    return False


def arg_stats(rep, f, tup):
    rep.stat('mode_' + tup['m'])
    for d in tup['a']:
        k = d['k']
        if d.get('as'):
            k += '-as-' + d['as']
        rep.stat('arg_' + k)
        if k == 'vc':
            rep.stat('variadic_cdata_' + d['f'] + '_' + d['t'].replace(' ', '_'))
        if d['k'] in ('arrlist', 'list', 'tuple', 'partial', 'hexlist') and \
                isinstance(d.get('vals', d.get('v')), list):
            n = len(d.get('vals', d.get('v')))
            if d['k'] == 'arrlist':
                size = n * ARR[d['tag']][1]
            elif d['k'] == 'partial':
                size = n * 16
            else:
                size = None
            if size is not None:
                rep.stat('temp_array_le512' if size <= 512 else
                         ('temp_array_513_640' if size <= 640 else 'temp_array_gt640'))
                if d.get('hostile'):
                    rep.stat('temp_array_hostile_item')


def child_case(st, case):
    import importlib
    from cffi import FFI
    rep = core.ChildRep()
    mod = importlib.import_module(case['mod'])
    ffi, lib = mod.ffi, mod.lib
    spec, funcs, cdef = module_spec(st['dir'], case['seed'], case['nfun'], case['mod'])
    affi = FFI()
    affi.cdef(cdef)
    alib = affi.dlopen(mod.__file__)
    ob = FFI()
    ob.cdef(cdef)
    oname = case['mod'] + '_abi'
    ob.set_source(oname, None)
    ob.emit_python_code(os.path.join(st['wd'], oname + '.py'))
    om = importlib.import_module(oname)
    offi = om.ffi
    olib = offi.dlopen(mod.__file__)
    env = {'fnaddr': int(ffi.cast('uintptr_t', ffi.addressof(lib, 'cbfn')))}
    for f in funcs:
        name = f['name']
        if not case['tuples'].get(name):
            continue
        paths = [('api', ffi, getattr(lib, name)), ('libffi', ffi, ffi.addressof(lib, name)),
                 ('inline-abi', affi, getattr(alib, name)), ('outofline-abi', offi, getattr(olib, name))]
        sig = c_decl(f)
        rep.stat('functions')
        rep.stat('functions_nargs_%s' % ('0' if not f['args'] else '1' if len(f['args']) == 1 else
                                         '2-6' if len(f['args']) <= 6 else 'gt6'))
        rep.stat('ret_' + ('struct' if f['ret'] in STRUCTS else 'pointer' if f['ret'].endswith('*')
                           else 'wchar' if f['ret'] in WCH else 'scalar'))
        for tup in case['tuples'][name]:
            if isinstance(tup, list):          # replay files of the previous format
                tup = {'a': tup, 'e': 12345, 'm': 'mix'}
            outs = [(pn, one_call(pf, fn, tup, env)) for pn, pf, fn in paths]
            rep.case((sig, repr(tup)), nontrivial=len(tup['a']) > 0,
                     sample={'signature': sig, 'args': repr(tup)[:200], 'api_outcome': repr(outs[0][1])[:120]})
            rep.stat('calls', 4)
            arg_stats(rep, f, tup)
            ref = outs[0][1]
            rep.stat('outcome_' + ref[0])
            partial = partial_struct_arg(f, tup)
            if partial:
                rep.stat('partial_struct_by_value_initializer')
            if ref[0] == 'harness':
                rep.bad('harness', 'argument construction failed for %s %r: %r' % (sig, tup, ref), [name, tup])
                continue
            for pn, o in outs[1:]:
                if o != ref:
                    what = 'outcome'
                    if o[0] == ref[0] == 'ok':
                        what = 'return-value' if o[1] != ref[1] else ('errno' if o[2] != ref[2]
                                                                      else 'buffers')
                    elif o[0] != ref[0]:
                        what = 'accept-vs-raise'
                    else:
                        what = 'exception-class' if o[1] != ref[1] else (
                            'errno-after-exception' if o[2] != ref[2] else 'buffers-after-exception')
                    mech = '%s:api-vs-%s' % (what, pn)
                    if partial:
                        # one classifier key for the whole class: the unnamed fields of the
                        # by-value struct are not zeroed on any path (convert_struct_from_object
                        # writes the named fields only into an uninitialised local / exchange buffer)
                        mech = 'partial-struct-arg:indeterminate-fields'
                    rep.bad(mech, '%s with %r: api -> %r, %s -> %r' %
                            (sig, tup, ref, pn, o), [name, tup])
            # reference model (variadic and array walkers)
            exp = None
            if f.get('variadic'):
                exp = model_var(f, tup)
                kind = 'variadic'
            elif f.get('arr'):
                exp = model_arr(f, tup)
                kind = 'array-walker'
            if exp is not None:
                rep.stat('model_checked_' + kind)
                if ref[0] != 'ok':
                    rep.bad('%s-vs-model:raised' % kind, '%s with %r: api -> %r, C semantics -> %r' %
                            (sig, tup, ref, exp), [name, tup])
                elif ref[1] != ('int', exp[0]):
                    rep.bad('%s-vs-model:return-value' % kind, '%s with %r: api -> %r, C semantics -> %r' %
                            (sig, tup, ref, exp), [name, tup])
                elif ref[2] != exp[1]:
                    rep.bad('%s-vs-model:errno' % kind, '%s with %r: api -> %r, C semantics -> %r' %
                            (sig, tup, ref, exp), [name, tup])
                elif len(exp) > 2:
                    for i, want in exp[2].items():
                        got = struct.unpack('<i', bytes.fromhex(ref[3][i])[:4])[0]
                        if got != want:
                            rep.bad('%s-vs-model:buffers' % kind,
                                    '%s with %r: api -> %r, C semantics -> buffer %d starts with %d' %
                                    (sig, tup, ref, i, want), [name, tup])
    return rep.result()


def judge(ctx, setup, case, obs):
    def rp(detail):
        c = dict(case)
        c['tuples'] = {k: [] for k in case['tuples']}
        c['tuples'][detail[0]] = [detail[1]]
        return c
    core.absorb(ctx, case, obs, rp)


def replay_setup(ctx, case):
    d = os.path.join(ctx.tmp, 'mods')
    spec, funcs, cdef = module_spec(d, case['seed'], case['nfun'], case['mod'])
    res = modbuild.build_modules(ctx, [spec])
    if not res[case['mod']]['ok']:
        raise core.Inconclusive('module build failed')
    return {'dir': d}
