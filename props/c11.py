"""C11 -- the out-of-line ABI module is equivalent to the in-line FFI.

Differential (second cffi path): the same generated cdef is given to an
in-line FFI and emitted with emit_python_code() / compile(), imported, and
both are compared item by item; functions and globals through dlopen() of a
gcc-built library that defines them.  The decoding path runs on the
ASan/UBSan backend.

On top of the shared declaration generator (vlib/gen_cdef.py) this check adds
its own declaration forms (class Extras) and seed-level modes (modes()):
wide / anonymous / typedef'd enums, anonymous typedef'd structs, named
pointers to anonymous structs, tagged typedef'd aggregates, empty and opaque
aggregates, self- and mutually-referential structs, large array lengths,
qualifiers, variadic functions, functions returning / taking function
pointers and structs by value, globals of open-array / function-pointer /
pointer / struct-array / long double type with non-zero initial values,
negative #defines, constants without a value (readable only out-of-line),
cdef(packed=True / pack=N), ffi.include() of a base module, the compile()
entry point, more than 255 type-table slots, shuffled access order.

cdefs with self-/mutually-referential or opaque aggregates are compared one
per process on the plain (gcc, assert-enabled) backend (finalize()): their
out-of-line realization can trip assertions of the backend, which must not
take the other cdefs of a case with it.  Mechanisms that classify defects
reproduced while writing this check (each computed from what was observed):
  abort:assert:<function>           an assertion of the backend failed
  ool-eager-completion:...          out-of-line typeof() of a struct raises
                                    'has incomplete type', in-line it works
  include-anonymous-name-collision  included and including cdef both have
                                    anonymous aggregates ('$1' twice); with
                                    ':fatal-lost-struct' when it ends in
                                    Py_FatalError("lost a struct/union!")
  aggregate-identity-split:enum-of-included-ffi
"""
import os, sys, random
from vlib import core, cc, gen_cdef as GC

RULE = ("case = one generated cdef (about 14 declarations: typedef chains, nested/anonymous "
        "aggregates with bitfields, enums, #define/static const constants, functions, globals, "
        "optionally FILE*; plus 0-3 groups of extra forms: 8-byte/unsigned/anonymous/typedef'd "
        "enums, anonymous typedef'd structs, named pointers, tagged typedef'd aggregates, empty/"
        "opaque/self-referential aggregates, array lengths up to 2**31-1, qualifiers, variadic "
        "functions, function-pointer/struct-by-value signatures, open-array/fn-pointer/pointer/"
        "struct-array globals, negative #defines, value-less constants) under a seed-level mode "
        "(packed/pack=N, ffi.include() split into base+derived module, compile() instead of "
        "emit_python_code(), >255 type slots, shuffled access order, lib before types, dlopen "
        "flags; cdefs with self-referential/opaque aggregates run one per process on the plain "
        "backend); compared: every typedef/struct/union/enum (identity for non-aggregates; kind, "
        "name, size, alignment, fields with offset/bitshift/bitsize for aggregates; one ctype "
        "object per aggregate), constants and enumerators (in-line lib, out-of-line lib and "
        "integer_const), list_types(), and functions/globals of the dlopen()ed library (type "
        "identity, address, value read, write visible on the other side, dir()); distinct = cdef "
        "text + mode; non-trivial = cdef has an aggregate or typedef chain")
ASSUMPTIONS = ["the gcc-built shared object defines every declared function and global",
               "sanitizer reports in the decoding path are recorded as observations (the statement does not speak about them)",
               "when emit_python_code()/compile() refuses loudly with its documented NotImplementedError "
               "for cdef(pack=N>1) no module is written and nothing is compared (counted as "
               "emit_refused_pack_gt_1 and noted)",
               "a declaration that the in-line lib refuses to read (NotImplementedError: value-less / "
               "non-integer constant in dlopen mode) is not compared, only read out-of-line",
               "when realizing a declared type raises on both sides the outcome is equal (exception "
               "types are not compared)"]
SAN_DECIDES = False


# ---------------------------------------------------------------------------
# seed-level modes

def modes(seed):
    r = random.Random(seed ^ 0x5EED5EED)
    m = {}
    m['pack'] = r.choice([None] * 19 + ['packed', 'packed', 1, 1, r.choice([2, 4, 8])])
    m['include'] = r.random() < 0.2
    m['compile'] = r.random() < 0.15
    m['shuffle'] = r.random() < 0.5
    m['lib_first'] = r.random() < 0.4
    m['dlflags'] = r.random() < 0.25
    m['many'] = r.random() < 0.015
    m['split'] = r.random()
    m['order'] = r.getrandbits(32)
    return m


def cdef_kw(md):
    if md['pack'] == 'packed':
        return {'packed': True}
    if md['pack']:
        return {'pack': md['pack']}
    return {}


# ---------------------------------------------------------------------------
# extra declaration forms

XPRIMS = ['int', 'char', 'short', 'long long', 'double', 'unsigned char', 'float', 'uint32_t',
          'long double', 'void *', 'char *', 'unsigned long', '_Bool', 'wchar_t', 'int16_t']
XQUAL = ['const int', 'volatile short', 'const char *', 'char *const', 'const void *const',
         'volatile unsigned long long', 'const double', 'int *restrict', 'const unsigned char *']
BIGLEN = [255, 256, 257, 65535, 65536, 65537, 2 ** 24 - 1, 2 ** 24, 2 ** 24 + 1, 2 ** 31 - 1,
          0x01020304, 0x00800000, 0x00008000]
MIDLEN = [255, 256, 257, 300, 4096, 65535, 65536, 65537, 70000]
WIDE_U = [2 ** 31, 2 ** 32 - 1, 2 ** 32, 2 ** 40 + 3, 2 ** 63 - 1, 2 ** 63, 2 ** 64 - 1, 0, 255,
          2 ** 31 - 1]
WIDE_S = [-2 ** 31, -2 ** 31 - 1, -2 ** 40, -(2 ** 63 - 1), 2 ** 31, 2 ** 32, 2 ** 62, 0, -1,
          2 ** 31 - 1]
SMALL = [0, 1, 2, 5, -1, -128, 127, 255, 256, 1000, -32768, 65535]


class Extras(object):
    def __init__(self, c, rng):
        self.c, self.r = c, rng
        self.n = 0
        self.fn = 0
        self.group = 0
        c.xtdnames = set()
        self.cplt = [a for a in c.g.decls if a['name'] and not a['flex']]
        self.structs = [a for a in self.cplt if a['kind'] == 'struct']

    def nm(self, stem):
        self.n += 1
        return '%sx%s%d' % (self.c.p, stem, self.n)

    def add(self, d):
        d['group'] = 'x%d' % self.group
        self.c.items.append(d)

    def xtype(self, form, text, typeexprs, tdnames=(), values=()):
        self.c.xtdnames.update(tdnames)
        d = {'kind': 'xtype', 'form': form, 'name': form, 'text': text,
             'typeexprs': list(typeexprs), 'values': list(values)}
        if values:
            # no function or global uses the extra enums: they are left out of
            # the C source (gcc rejects some value sequences cffi accepts)
            d['ctext'] = ''
        self.add(d)

    def func(self, name, proto, body):
        self.add({'kind': 'func', 'name': name, 'text': proto + ';',
                  'cdef': '%s { %s }' % (proto, body), 'form': 'x'})

    def glob(self, name, decl, init):
        self.add({'kind': 'glob', 'name': name, 'type': {'k': 'x'}, 'text': 'extern %s;' % decl,
                  'cdef': '%s = %s;' % (decl, init)})

    def fields(self, nmax=4, allow_bits=True):
        r = self.r
        out = []
        for _ in range(r.randint(1, nmax)):
            self.fn += 1
            f = 'xf%d' % self.fn
            k = r.random()
            if k < 0.3:
                out.append('%s %s;' % (r.choice(XPRIMS), f))
            elif k < 0.45:
                out.append('%s %s;' % (r.choice(XQUAL), f))
            elif k < 0.6 and allow_bits:
                T, w = r.choice(GC.G.BF_TYPES)
                out.append('%s %s : %d;' % (T, f, r.randint(1, w)))
            elif k < 0.72:
                out.append('%s %s[%d];' % (r.choice(['char', 'short', 'int', 'double']), f,
                                           r.choice(MIDLEN)))
            elif k < 0.84 and self.cplt:
                a = r.choice(self.cplt)
                out.append('%s %s %s%s;' % (a['kind'], a['name'], r.choice(['', '*', '**']), f))
            elif k < 0.92 and self.c.enums:
                out.append('enum %s %s;' % (r.choice(self.c.enums)['name'], f))
            else:
                out.append('void (*%s)(int, ...);' % f)
        return ' '.join(out)

    # ---- enums -----------------------------------------------------------
    def f_enum(self):
        r = self.r
        pool = r.choice([WIDE_U, WIDE_S, WIDE_U, WIDE_S, SMALL])
        vals = r.sample(pool, r.choice([1, 2, 3]))
        tag = self.nm('e')
        names, values = [], []
        for i, v in enumerate(vals):
            en = ('%s_%d' % (tag, i)).upper()
            lit = ('0x%X' % v) if (v >= 0 and r.random() < 0.4) else '%d' % v
            names.append('%s = %s' % (en, lit))
            values.append((en, v))
        if r.random() < 0.3 and vals[-1] not in (2 ** 63 - 1, 2 ** 64 - 1):
            en = ('%s_N' % tag).upper()
            names.append(en)
            values.append((en, vals[-1] + 1))
        body = '{ %s }' % ', '.join(names)
        style = r.choice(['tag', 'anon-typedef', 'tag-typedef', 'anon'])
        wide = 'wide-' if pool is not SMALL else ''
        if style == 'tag':
            self.xtype(wide + 'enum-tag', 'enum %s %s;' % (tag, body), ['enum ' + tag],
                       values=values)
        elif style == 'anon-typedef':
            td = self.nm('t')
            self.xtype(wide + 'enum-anon-typedef', 'typedef enum %s %s;' % (body, td), [td],
                       [td], values)
        elif style == 'tag-typedef':
            td = self.nm('t')
            self.xtype(wide + 'enum-tag-typedef', 'typedef enum %s %s %s;' % (tag, body, td),
                       ['enum ' + tag, td], [td], values)
        else:
            self.xtype(wide + 'enum-anon', 'enum %s;' % body, [], values=values)

    # ---- aggregates ------------------------------------------------------
    def f_anon_typedef(self):
        td = self.nm('t')
        kind = self.r.choice(['struct', 'struct', 'union'])
        self.xtype('anon-typedef-' + kind, 'typedef %s { %s } %s;' % (kind, self.fields(), td),
                   [td], [td])
        if self.r.random() < 0.5:
            g = self.nm('g')
            self.add({'kind': 'glob', 'name': g, 'type': {'k': 'x'},
                      'text': 'extern %s %s;' % (td, g), 'cdef': '%s %s;' % (td, g)})

    def f_named_pointer(self):
        td = self.nm('t')
        kind = self.r.choice(['struct', 'struct', 'union'])
        self.xtype('named-pointer', 'typedef %s { %s } *%s;' % (kind, self.fields(), td),
                   [td], [td])
        if self.r.random() < 0.5:
            f = self.nm('f')
            self.func(f, '%s %s(%s a0, int a1)' % (td, f, td), 'return a0;')

    def f_tag_typedef(self):
        tag, td, tdp = self.nm('s'), self.nm('t'), self.nm('t')
        kind = self.r.choice(['struct', 'struct', 'union'])
        self.xtype('tag-typedef-' + kind, 'typedef %s %s { %s } %s, *%s;' %
                   (kind, tag, self.fields(), td, tdp),
                   ['%s %s' % (kind, tag), td, tdp], [td, tdp])

    def f_empty(self):
        tag = self.nm('s')
        kind = self.r.choice(['struct', 'struct', 'union'])
        self.xtype('empty-' + kind, '%s %s { };' % (kind, tag), ['%s %s' % (kind, tag)])
        if self.r.random() < 0.5:
            tag2 = self.nm('s')
            self.xtype('holds-empty', 'struct %s { char xa; %s %s xe; int xb; };' %
                       (tag2, kind, tag), ['struct ' + tag2])

    def f_opaque(self):
        r = self.r
        t1, t2, t3 = self.nm('s'), self.nm('s'), self.nm('s')
        td2, td3, f = self.nm('t'), self.nm('t'), self.nm('f')
        k1, k2 = r.choice(['struct', 'union']), r.choice(['struct', 'union'])
        self.xtype('opaque', '%s %s;\ntypedef %s %s %s;\ntypedef struct %s *%s;' %
                   (k1, t1, k2, t2, td2, t3, td3),
                   ['%s %s' % (k1, t1), '%s %s' % (k2, t2), td2, 'struct ' + t3, td3],
                   [td2, td3])
        self.func(f, '%s *%s(%s %s *a0, %s a1)' % (td2, f, k1, t1, td3), 'return 0;')
        if r.random() < 0.5:
            g = self.nm('g')
            self.glob(g, '%s %s *%s' % (k1, t1, g), '(void *)0x1230')

    def f_selfref(self):
        r = self.r
        a, b = self.nm('s'), self.nm('s')
        style = r.choice(['self', 'mutual', 'typedef-self'])
        if style == 'self':
            self.xtype('self-ref', 'struct %s { struct %s *next; int v; struct %s *arr[2]; '
                       'struct %s **pp; };' % (a, a, a, a), ['struct ' + a])
        elif style == 'mutual':
            self.xtype('mutual-ref', 'struct %s;\nstruct %s { struct %s *pa; int x; };\n'
                       'struct %s { struct %s vb; struct %s *pb; struct %s *self; '
                       'int (*cb)(struct %s *, struct %s); };' % (a, b, a, a, b, b, a, a, b),
                       ['struct ' + a, 'struct ' + b])
        else:
            td = self.nm('t')
            self.xtype('typedef-self-ref', 'typedef struct %s %s;\nstruct %s { %s *next; '
                       '%s *(*get)(%s *); short v; };' % (a, td, a, td, td, td),
                       ['struct ' + a, td], [td])
        if r.random() < 0.5:
            f = self.nm('f')
            self.func(f, 'struct %s *%s(struct %s *a0)' % (a, f, a), 'return a0;')

    def f_big_array(self):
        r = self.r
        td, td2, tag = self.nm('t'), self.nm('t'), self.nm('s')
        n1, n2, n3 = r.choice(BIGLEN), r.choice(MIDLEN), r.choice(MIDLEN)
        et = r.choice(['char', 'unsigned char', 'signed char'])
        self.xtype('big-array', 'typedef %s %s[%d];\ntypedef short %s[3][%d];\n'
                   'struct %s { char xa; short xb[%d]; int xc; %s *xd; };' %
                   (et, td, n1, td2, n2, tag, n3, td),
                   [td, td2, 'struct ' + tag], [td, td2])

    def f_qualified(self):
        r = self.r
        t1, t2, t3, tag = self.nm('t'), self.nm('t'), self.nm('t'), self.nm('s')
        q = r.sample(XQUAL, 3)
        self.xtype('qualified', 'typedef %s %s;\ntypedef %s %s;\ntypedef %s %s[2];\n'
                   'struct %s { %s }; ' % (q[0], t1, q[1], t2, q[2], t3, tag,
                                           self.fields(3, allow_bits=False)),
                   [t1, t2, t3, 'struct ' + tag], [t1, t2, t3])

    def f_fnptr_typedef(self):
        r = self.r
        t1, t2, t3 = self.nm('t'), self.nm('t'), self.nm('t')
        if self.structs:
            s = r.choice(self.structs)
            arg = 'struct %s' % s['name']
        else:
            arg = 'double'
        en = ('enum %s' % r.choice(self.c.enums)['name']) if self.c.enums else 'int'
        self.xtype('fnptr-typedef', 'typedef int (*%s)(%s, ...);\ntypedef %s (*%s)(%s, %s *);\n'
                   'typedef %s %s[2];' % (t1, arg, en, t2, t1, arg, t1, t3),
                   [t1, t2, t3], [t1, t2, t3])

    # ---- functions -------------------------------------------------------
    def f_variadic(self):
        r = self.r
        f = self.nm('f')
        proto = r.choice(['int %s(int a0, ...)', 'double %s(const char *a0, double a1, ...)',
                          'void *%s(void *a0, unsigned long a1, short a2, ...)',
                          'long long %s(long long a0, ...)']) % f
        self.func(f, proto, 'return 0;')

    def f_func_shapes(self):
        r = self.r
        for _ in range(r.choice([1, 2])):
            f = self.nm('f')
            k = r.choice(['ret-fnptr', 'byval', 'array-arg', 'fnptr-arg', 'enum', 'qual'])
            if k == 'ret-fnptr':
                self.func(f, 'void (*%s(int a0))(void)' % f, 'return 0;')
            elif k == 'byval' and self.structs:
                s = 'struct %s' % r.choice(self.structs)['name']
                self.func(f, '%s %s(%s a0, int a1)' % (s, f, s), 'return a0;')
            elif k == 'array-arg':
                self.func(f, 'int %s(int a0[3], char a1[], double a2[2][4])' % f, 'return 0;')
            elif k == 'fnptr-arg':
                self.func(f, 'int %s(int (*a0)(int, int), void (*a1)(void *, ...))' % f,
                          'return 0;')
            elif k == 'enum' and self.c.enums:
                e = 'enum %s' % r.choice(self.c.enums)['name']
                self.func(f, '%s %s(%s a0, %s *a1)' % (e, f, e, e), 'return a0;')
            else:
                self.func(f, 'const char *%s(const char *a0, char *const a1, '
                          'const void *restrict a2)' % f, 'return a0;')

    # ---- globals ---------------------------------------------------------
    def f_glob_shapes(self):
        r = self.r
        for _ in range(r.choice([1, 2, 3])):
            g = self.nm('g')
            k = r.choice(['open', 'open2', 'fnptr', 'str', 'ld', 'agg-array', 'pp', '2d',
                          'big', 'ptr-array'])
            if k == 'open':
                self.add({'kind': 'glob', 'name': g, 'type': {'k': 'x'}, 'nowrite': True,
                          'text': 'extern int %s[];' % g, 'cdef': 'int %s[4] = {1, 2, 3, 4};' % g})
            elif k == 'open2':
                self.add({'kind': 'glob', 'name': g, 'type': {'k': 'x'}, 'nowrite': True,
                          'text': 'extern double %s[][2];' % g,
                          'cdef': 'double %s[3][2] = {{1.5, 2}, {3, 4}, {5, 6}};' % g})
            elif k == 'fnptr':
                self.glob(g, 'int (*%s)(int, char *)' % g, '(int (*)(int, char *))0x4321')
            elif k == 'str':
                self.glob(g, 'const char *%s' % g, '"x%d"' % self.n)
            elif k == 'ld':
                self.glob(g, 'long double %s' % g, '1.5L')
            elif k == 'agg-array' and self.cplt:
                a = r.choice(self.cplt)
                self.add({'kind': 'glob', 'name': g, 'type': {'k': 'x'},
                          'text': 'extern %s %s %s[2];' % (a['kind'], a['name'], g),
                          'cdef': '%s %s %s[2];' % (a['kind'], a['name'], g)})
            elif k == 'pp':
                self.glob(g, 'char **%s' % g, '(char **)0x7770')
            elif k == '2d':
                self.glob(g, 'short %s[2][3]' % g, '{{1, 2, 3}, {4, 5, 6}}')
            elif k == 'big':
                self.glob(g, 'unsigned char %s[300]' % g, '{7, 8, 9}')
            else:
                self.glob(g, 'const char *const %s[3]' % g, '{"a", "bb", "ccc"}')

    def f_valueless_const(self):
        r = self.r
        for _ in range(r.choice([1, 2])):
            k = self.nm('K').upper()
            text, cdef = r.choice([
                ('static const int %s;', 'const int %s = 99;'),
                ('static const long long %s;', 'const long long %s = -5000000000LL;'),
                ('static const double %s;', 'const double %s = 2.5;'),
                ('static char *const %s;', 'char *const %s = "hello";'),
                ('extern const int %s;', 'const int %s = 42;'),
                ('static const unsigned char %s;', 'const unsigned char %s = 200;')])
            self.add({'kind': 'xconst', 'name': k, 'text': text % k, 'cdef': cdef % k})

    def f_neg_const(self):
        r = self.r
        for _ in range(r.choice([1, 2])):
            k = self.nm('K').upper()
            v = r.choice([-1, -5, -255, -2 ** 31, -2 ** 31 - 1, -2 ** 32, -(2 ** 63 - 1), -2 ** 63,
                          2 ** 32, 2 ** 40 + 1, 2 ** 62])
            if r.random() < 0.6:
                lit = '%d' % v if (v < 0 or r.random() < 0.5) else '0x%x' % v
                text = '#define %s %s' % (k, lit)
            else:
                v = max(v, -(2 ** 63 - 1))
                text = 'static const long long %s = %d;' % (k, v)
            self.add({'kind': 'const', 'name': k, 'value': v, 'form': 'x', 'text': text,
                      'ctext': text})

    # ---- many type-table slots (index > 255 in the 4-byte opcodes) --------
    def f_many(self, count=150):
        names = []
        lines = []
        for i in range(count):
            td = self.nm('t')
            names.append(td)
            lines.append('typedef short %s[%d];' % (td, 300 + i))
        tag, f, g = self.nm('s'), self.nm('f'), self.nm('g')
        lines.append('struct %s { %s xa; %s *xb; int xc : 3; %s xd; };' %
                     (tag, names[-1], names[-2], names[-3]))
        last = self.nm('t')
        lines.append('typedef struct %s *%s;' % (tag, last))
        self.xtype('many-types', '\n'.join(lines), names + ['struct ' + tag, last],
                   names + [last])
        self.func(f, '%s *%s(%s *a0, %s a1)' % (names[-4], f, names[-5], last), 'return 0;')
        self.add({'kind': 'glob', 'name': g, 'type': {'k': 'x'},
                  'text': 'extern %s %s;' % (names[-6], g), 'cdef': '%s %s = {3, 1, 4};' %
                  (names[-6], g)})

    FORMS = ['f_enum', 'f_enum', 'f_enum', 'f_anon_typedef', 'f_anon_typedef', 'f_named_pointer',
             'f_named_pointer', 'f_tag_typedef', 'f_empty', 'f_empty', 'f_opaque', 'f_selfref',
             'f_big_array', 'f_big_array', 'f_qualified', 'f_fnptr_typedef', 'f_variadic',
             'f_variadic', 'f_func_shapes', 'f_func_shapes', 'f_glob_shapes', 'f_glob_shapes',
             'f_valueless_const', 'f_neg_const']

    def run(self, md):
        r = self.r
        for _ in range(r.choice([0, 1, 1, 2, 2, 3])):
            self.group += 1
            getattr(self, r.choice(self.FORMS))()
        if md['many']:
            self.group += 1
            self.f_many(MANY_COUNT)


MANY_COUNT = 150


def make_ctx(seed):
    rnd = random.Random(seed)
    c = GC.Ctx(rnd, prefix='m%d_' % seed, nd=rnd.choice([6, 10, 14, 20]))
    Extras(c, random.Random(seed ^ 0xE87A5)).run(modes(seed))
    return c


def c_source(c):
    """definitions matching the cdef, for the dlopen()ed shared object (the
    shared generator's c_source() does not know the extra kinds)"""
    out = ['#include <stdint.h>', '#include <stddef.h>', '#include <sys/types.h>',
           '#include <wchar.h>', '#include <uchar.h>']
    for d in c.items:
        k = d['kind']
        if k in ('typedef', 'agg', 'enum', 'xtype'):
            out.append(d.get('ctext', d['text']))
        elif k == 'const':
            out.append(d['ctext'])
        elif k in ('func', 'glob', 'xconst'):
            out.append(d['cdef'])
    return '\n'.join(out) + '\n'


def use_file(seed):
    return seed % 7 == 0


def file_decl(seed):
    return 'int m%d_usefile(FILE *f);\n' % seed


def file_csrc(seed):
    return '#include <stdio.h>\nint m%d_usefile(FILE *f) { return f != 0; }' % seed


def split_point(c, md):
    """index where the item list is cut into an included base and a derived
    cdef: never inside a group of extra declarations (a forward declaration
    completed later must stay in one ffi)"""
    items = c.items
    pts = [i for i in range(1, len(items))
           if items[i].get('group') is None or items[i].get('group') != items[i - 1].get('group')]
    if not pts:
        return None
    return pts[int(md['split'] * len(pts)) % len(pts)]


def case_source(seed):
    src = [c_source(make_ctx(seed))]
    if use_file(seed):
        src.append(file_csrc(seed))
    return '\n'.join(src)


def generate(ctx):
    rng = ctx.rng('gen')
    n = ctx.scale(360, 8000)
    per = 24
    seeds = [rng.getrandbits(40) for _ in range(n)]
    # cdefs with self-/mutually-referential or opaque aggregates are compared
    # one per process on the plain (gcc, assert-enabled) backend, see finalize()
    rseeds = [s for s in seeds if risky(s)]
    seeds = [s for s in seeds if not risky(s)]
    cases = [{'seeds': seeds[i:i + per], 'no': i // per} for i in range(0, len(seeds), per)]
    import concurrent.futures as cf

    def build(case):
        case['so'] = cc.build_so(ctx.tmp, '\n'.join(case_source(s) for s in case['seeds']),
                                 'c11_%d.so' % case['no'])
    rcases = []
    if rseeds:
        rall = {'seeds': rseeds, 'no': 100000}
        with cf.ThreadPoolExecutor(8) as ex:
            list(ex.map(build, cases + [rall]))
        rcases = [{'seeds': [s], 'no': 100001 + i, 'so': rall['so'], 'isolated': True}
                  for i, s in enumerate(rseeds)]
    else:
        with cf.ThreadPoolExecutor(8) as ex:
            list(ex.map(build, cases))
    setup = {'isolated_cases': rcases}
    if rcases:
        # started now, collected in finalize(): runs beside the sanitized children
        import threading
        _ISO['obs'] = None

        def run_iso():
            try:
                _ISO['obs'] = core.run_cases(ctx, 'c11', setup, rcases, variant='plain', nproc=4,
                                             timeout=3600 if ctx.thorough else 900)
            except Exception as e:
                _ISO['error'] = repr(e)
        _ISO['thread'] = threading.Thread(target=run_iso)
        _ISO['thread'].start()
    return setup, cases


_ISO = {}


def child_setup(setup, wd):
    import warnings
    warnings.simplefilter('ignore')
    sys.path.insert(0, wd)
    return {'wd': wd}


def describe(ffi, t, depth=0, acc=None):
    """comparable description of an aggregate ctype"""
    d = {'kind': t.kind, 'cname': t.cname}
    if acc is not None:
        acc.setdefault((t.kind, t.cname), set()).add(id(t))
    if t.kind in ('struct', 'union'):
        opaque = False
        try:
            d['size'], d['align'] = ffi.sizeof(t), ffi.alignof(t)
        except Exception as e:
            d['size'] = 'exc'         # opaque: the exception classes differ by design
            opaque = True
        if opaque and id(ffi) in DEFERRED:
            # .fields of an opaque out-of-line aggregate is read in a forked
            # process (probe_deferred): on an assert-enabled backend it aborts
            if id(t) not in DEFERRED[id(ffi)]:
                DEFERRED[id(ffi)][id(t)] = t
            fields = None
        else:
            fields = t.fields
        fl = []
        if fields is not None:
            for name, f in fields:
                ft = f.type
                fd = tdesc(ffi, ft, depth + 1, acc)
                fl.append((name, f.offset, f.bitshift, f.bitsize, f.flags, fd))
        d['fields'] = fl if fields is not None else None
    elif t.kind == 'enum':
        d['size'] = ffi.sizeof(t)
        d['elements'] = sorted(t.elements.items())
        d['relements'] = sorted(t.relements.items())
        d['signed'] = int(ffi.cast(t, -1)) < 0
    return d


DEFERRED = {}      # id(out-of-line ffi) -> {id(ctype): ctype} whose .fields is still to be read


def abort_mechanism(status_or_rc, err):
    """(mechanism, description) of a process killed while comparing: the
    failed assertion's function when there is one"""
    import re
    m = re.search(r"\.[ch]:\d+: (.*?): Assertion `(.*?)' failed", err)
    if m:
        fn = m.group(1)
        if '(' in fn:
            fn = fn[:fn.index('(')]
        fn = (re.findall(r'\w+', fn) or ['?'])[-1]
        return 'abort:assert:' + fn, "assertion `%s' failed in %s" % (m.group(2), fn)
    m = re.search(r"Fatal Python error: (\w+): (.+)", err)
    if m:
        return 'abort:fatal:' + m.group(1), "Py_FatalError in %s: %s" % (m.group(1), m.group(2))
    return 'abort:rc=%s' % status_or_rc, 'process died (%s): %s' % (status_or_rc, err[-800:])


def probe_deferred(pending, rep, wd, fork):
    """pending: [(seed, ffi2, ctype)]: read .fields of the opaque out-of-line
    aggregates (the in-line value is None); in a forked process when asked
    (on an assert-enabled backend the read can abort)"""
    if not pending:
        return
    if not fork:
        for seed, ffi, t in pending:
            rep.stat('opaque_fields_read')
            if t.fields is not None:
                rep.bad('aggregate-differs', '%s is opaque in-line (fields None), out-of-line '
                        '.fields is a list :: cdef seed %d' % (t.cname, seed), seed)
        return
    import tempfile
    rep.stat('opaque_fields_read_in_fork', len(pending))
    r, w = os.pipe()
    errf = tempfile.NamedTemporaryFile(dir=wd, prefix='probe-', suffix='.err', delete=False)
    sys.stdout.flush()
    sys.stderr.flush()
    pid = os.fork()
    if pid == 0:
        try:
            os.close(r)
            os.dup2(errf.fileno(), 2)
            for i, (seed, ffi, t) in enumerate(pending):
                os.write(w, ('S %d\n' % i).encode())
                v = t.fields
                os.write(w, ('R %d %s\n' % (i, 'None' if v is None else 'list')).encode())
        finally:
            os._exit(0)
    os.close(w)
    data = b''
    while True:
        chunk = os.read(r, 65536)
        if not chunk:
            break
        data += chunk
    os.close(r)
    status = os.waitpid(pid, 0)[1]
    errf.close()
    with open(errf.name, 'rb') as f:
        err = f.read().decode(errors='replace')
    os.unlink(errf.name)
    started, results = set(), {}
    for line in data.decode().splitlines():
        f = line.split()
        if f[0] == 'S':
            started.add(int(f[1]))
        else:
            results[int(f[1])] = f[2]
    for i, v in sorted(results.items()):
        if v != 'None':
            seed, ffi, t = pending[i]
            rep.bad('aggregate-differs', '%s is opaque in-line (fields None), out-of-line '
                    '.fields is a list :: cdef seed %d' % (t.cname, seed), seed)
    if os.WIFSIGNALED(status):
        i = max(started) if started else 0
        seed, ffi, t = pending[i]
        mech, what = abort_mechanism('signal %d' % os.WTERMSIG(status), err)
        rep.bad(mech, "reading .fields of the out-of-line ctype '%s' (opaque aggregate; the "
                "in-line ctype's .fields is None): %s :: cdef seed %d" % (t.cname, what, seed),
                seed)
    elif len(results) != len(pending):
        rep.bad('harness-fork-probe', 'forked probe returned %d of %d results (status %r): %s' %
                (len(results), len(pending), status, err[-300:]), pending[0][0])


def tdesc(ffi, t, depth=0, acc=None):
    """comparable description of any ctype: identity for non-aggregate types
    that do not involve an aggregate, structure otherwise"""
    if t.kind in ('struct', 'union', 'enum'):
        if depth < 5:
            return describe(ffi, t, depth, acc)
        return {'kind': t.kind, 'cname': t.cname}
    if not over_aggregate(t):
        return ('id', id(t))
    if t.kind in ('pointer', 'array'):
        return (t.kind, getattr(t, 'length', None), tdesc(ffi, t.item, depth + 1, acc))
    if t.kind == 'function':
        return ('function', [tdesc(ffi, a, depth + 1, acc) for a in t.args],
                tdesc(ffi, t.result, depth + 1, acc), t.ellipsis, t.abi)
    return ('other', t.kind, t.cname)


def strip_cnames(d):
    if isinstance(d, dict):
        return {k: strip_cnames(v) for k, v in d.items() if k != 'cname'}
    if isinstance(d, (list, tuple)):
        return [strip_cnames(x) for x in d]
    return d


def cname_only(ffi1, t1, ffi2, t2, c):
    """classifier of the recorded finding: the two aggregates agree on everything
    but the display name, and the in-line name is that of a typedef of it"""
    if t1.kind != t2.kind:
        return None
    d1, d2 = tdesc(ffi1, t1), tdesc(ffi2, t2)
    if strip_cnames(d1) == strip_cnames(d2):
        tdnames = set(d['name'] for d in c.typedefs) | getattr(c, 'xtdnames', set())
        if has_typedef_cname(d1, tdnames):
            return 'aggregate-cname-forced-by-typedef'
    return None


def has_typedef_cname(d, names):
    if isinstance(d, dict):
        if d.get('cname') in names:
            return True
        return any(has_typedef_cname(v, names) for v in d.values())
    if isinstance(d, (list, tuple)):
        return any(has_typedef_cname(x, names) for x in d)
    return False


def over_aggregate(t):
    k = t.kind
    if k in ('struct', 'union', 'enum'):
        return True
    if k in ('pointer', 'array'):
        return over_aggregate(t.item)
    if k == 'function':
        return over_aggregate(t.result) or any(over_aggregate(a) for a in t.args)
    return False


def outcome(fn):
    try:
        return True, fn()
    except Exception as e:
        return False, '%s: %s' % (type(e).__name__, e)


def gvalue(ffi, v):
    """comparable value of what reading a global gave"""
    if not isinstance(v, ffi.CData):
        return ('py', v)
    k = ffi.typeof(v).kind
    if k in ('pointer', 'function'):
        return ('ptr', int(ffi.cast('uintptr_t', v)))
    if k == 'array':
        return ('array', int(ffi.cast('uintptr_t', v)), len(v))
    if k in ('struct', 'union'):
        return ('ref', int(ffi.cast('uintptr_t', ffi.addressof(v))))
    if k == 'primitive':
        try:
            return ('prim', float(v))
        except Exception:
            return ('prim', repr(v))
    return ('other', k)


def emit_module(ffib, modname, wd, use_compile):
    ffib.set_source(modname, None)
    path = os.path.join(wd, modname + '.py')
    if use_compile:
        ffib.compile(tmpdir=wd)
    else:
        ffib.emit_python_code(path)
    if not os.path.exists(path):
        raise RuntimeError('no module file written at %s' % path)


class Pair(object):
    """one seed: the in-line ffi (ffi1) and the imported out-of-line one (ffi2)"""

    def __init__(self, st, case, seed, rep):
        self.st, self.case, self.seed, self.rep = st, case, seed, rep
        self.c = make_ctx(seed)
        self.md = modes(seed)
        self.acc1, self.acc2 = {}, {}
        self.tainted = False
        self.anon_both = False

    TYPE_MECHS = ('typedef-differs', 'aggregate-differs', 'enum-differs', 'xtype-differs:',
                  'function-type-differs', 'global-type-differs', 'typeof-outcome-differs:',
                  'layout-outcome-differs', 'aggregate-identity-split', 'compare-raised:',
                  'lib-compare-raised:', 'function-outcome-differs')

    def bad(self, mech, msg):
        if self.anon_both and mech.startswith(self.TYPE_MECHS) and \
                mech != 'aggregate-identity-split:enum-of-included-ffi':
            # classifier of a reproduced defect: the included and the including
            # cdef both number their anonymous aggregates from '$1'; the
            # out-of-line module looks aggregates up by name and mixes them up,
            # which also changes (or breaks) every type that contains one of them
            mech = 'include-anonymous-name-collision'
        self.rep.bad(mech, msg + ' :: cdef seed %d' % self.seed, self.seed)

    # ---- construction ------------------------------------------------------
    def build(self):
        import importlib
        from cffi import FFI
        c, md, seed, rep = self.c, self.md, self.seed, self.rep
        kw = cdef_kw(md)
        items = c.items
        k = split_point(c, md) if md['include'] else None
        base_text = ''.join(d['text'] + '\n' for d in items[:k]) if k else ''
        text = ''.join(d['text'] + '\n' for d in items[k or 0:])
        if use_file(seed):
            text += file_decl(seed)
        self.text = base_text + '/* derived */\n' + text if k else text
        self.nbase = k or 0
        modname = '_c11_%d' % seed
        try:
            ffi1 = FFI()
            ffib = FFI()
            if k:
                ffi1b = FFI()
                ffi1b.cdef(base_text, **kw)
                ffi1.include(ffi1b)
                ffibb = FFI()
                ffibb.cdef(base_text, **kw)
                ffib.include(ffibb)
            ffi1.cdef(text, **kw)
            ffib.cdef(text, **kw)
        except Exception as e:
            import traceback
            rep.bad('harness-cdef-raised', 'generated cdef not accepted in-line: %s :: %s' %
                    (traceback.format_exc()[-400:], self.text[:300]), seed)
            return False
        self.ffi1 = ffi1
        if not self.inline_accepts():
            # the in-line FFI refuses a declaration when it is first used (e.g.
            # a bitfield layout 'packed' cannot express): not a cdef accepted
            # in-line, outside the statement
            rep.stat('cdef_refused_inline_on_first_use')
            return False
        # anonymous aggregates are numbered per cdef parser ('$1', '$2', ...)
        self.anon_both = bool(k and ffi1b._parser._anonymous_counter and
                              ffi1._parser._anonymous_counter)
        try:
            if k:
                emit_module(ffibb, modname + '_b', self.st['wd'], md['compile'])
            emit_module(ffib, modname, self.st['wd'], md['compile'])
            m = importlib.import_module(modname)
            ffi2 = m.ffi
        except Exception as e:
            import traceback
            if isinstance(e, NotImplementedError) and isinstance(md['pack'], int) and \
                    md['pack'] > 1 and "'pack=" in str(e):
                rep.stat('emit_refused_pack_gt_1')
                return False
            rep.bad('setup-raised:' + type(e).__name__, 'emit/import failed: %s :: %s' %
                    (traceback.format_exc()[-500:], self.text[:300]), seed)
            return False
        self.ffi1, self.ffi2 = ffi1, ffi2
        DEFERRED[id(ffi2)] = {}
        nontriv = any(d['kind'] in ('agg', 'typedef', 'xtype') for d in c.items)
        rep.case(self.text + repr(sorted((a, b) for a, b in md.items()
                                          if a in ('pack', 'include', 'compile'))),
                 nontrivial=nontriv, sample={'cdef': self.text[:500], 'mode': {
                     a: md[a] for a in ('pack', 'include', 'compile', 'shuffle', 'lib_first',
                                        'dlflags', 'many')}})
        if md['pack']:
            rep.stat('mode_pack_%s' % md['pack'])
        if k:
            rep.stat('mode_include')
        if md['compile']:
            rep.stat('mode_compile_entry')
        if md['many']:
            rep.stat('mode_many_type_slots')
        return True

    def declared_type_exprs(self, d):
        k = d['kind']
        if k == 'typedef':
            return [d['name']]
        if k == 'agg':
            return ['%s %s' % (d['agg']['kind'], d['name'])]
        if k == 'enum':
            return ['enum ' + d['name']]
        if k == 'xtype':
            return d['typeexprs']
        return []

    def inline_accepts(self):
        ffi1 = self.ffi1
        for d in self.c.items:
            for expr in self.declared_type_exprs(d):
                try:
                    t = ffi1.typeof(expr)
                    if t.kind in ('struct', 'union'):
                        ffi1.sizeof(t)
                except NotImplementedError:
                    return False
                except Exception:
                    pass          # opaque: no size
        return True

    def differs(self, default, d1, d2):
        return default            # see bad(): seed-level classification

    def dlopen(self):
        so = self.case['so']
        if self.md['dlflags']:
            f1 = self.ffi1.RTLD_NOW | self.ffi1.RTLD_LOCAL
            f2 = self.ffi2.RTLD_NOW | self.ffi2.RTLD_LOCAL
            self.rep.stat('dlopen_with_flags')
            return self.ffi1.dlopen(so, f1), self.ffi2.dlopen(so, f2)
        return self.ffi1.dlopen(so), self.ffi2.dlopen(so)

    def order(self, salt):
        items = list(enumerate(self.c.items))
        if self.md['shuffle']:
            random.Random(self.md['order'] ^ salt).shuffle(items)
        return items

    # ---- types -------------------------------------------------------------
    def typeof_pair(self, what, expr):
        """(t1, t2) or None when both sides refuse equally / a violation was recorded"""
        o1, o2 = outcome(lambda: self.ffi1.typeof(expr)), outcome(lambda: self.ffi2.typeof(expr))
        if o1[0] and o2[0]:
            return o1[1], o2[1]
        if not o1[0] and not o2[0]:
            self.rep.stat('typeof_raises_on_both_sides')
            return None
        # one side is lazier than the other: the side that answered must also
        # be able to lay the type out, otherwise both refuse the declaration
        if o1[0]:
            forced = outcome(lambda: tdesc(self.ffi1, o1[1]))
        else:
            forced = outcome(lambda: tdesc(self.ffi2, o2[1]))
        if not forced[0]:
            self.rep.stat('typeof_raises_on_both_sides_lazily')
            return None
        self.tainted = True
        mech = 'typeof-outcome-differs:' + what
        if o1[0] and ('has incomplete type' in o2[1] or 'invalid result type' in o2[1]) and \
                any(d.get('form') == 'mutual-ref' for d in self.c.items):
            # classifier of a reproduced defect: the out-of-line module completes
            # every struct as soon as it is realized (its size is not in the
            # module), so a struct reached again, by value in a function-pointer
            # signature, while it is being completed is still incomplete
            mech = 'ool-eager-completion:by-value-in-signature-of-mutual-struct'
        self.bad(mech, '%s: in-line %s, out-of-line %s' %
                 (expr, o1[1] if not o1[0] else 'ok', o2[1] if not o2[0] else 'ok'))
        return None

    def same_type(self, t1, t2):
        o1 = outcome(lambda: tdesc(self.ffi1, t1, 0, self.acc1))
        o2 = outcome(lambda: tdesc(self.ffi2, t2, 0, self.acc2))
        if o1[0] and o2[0]:
            return o1[1] == o2[1]
        if not o1[0] and not o2[0]:
            self.rep.stat('layout_raises_on_both_sides')
            return True
        self.bad('layout-outcome-differs', 'describing %r / %r: in-line %s, out-of-line %s' %
                 (t1, t2, o1[1] if not o1[0] else 'ok', o2[1] if not o2[0] else 'ok'))
        return True

    def cname_only(self, t1, t2):
        try:
            return cname_only(self.ffi1, t1, self.ffi2, t2, self.c)
        except Exception:
            return None

    def enumerators(self, values, clib1, clib2):
        ffi2 = self.ffi2
        for en, v in values:
            v1, v2, v3 = getattr(clib1, en), ffi2.integer_const(en), getattr(clib2, en)
            if v1 != v2 or v1 != v or v3 != v:
                self.bad('enumerator-value', '%s: in-line %r, out-of-line integer_const %r, '
                         'lib %r, declared %r' % (en, v1, v2, v3, v))

    def compare_types(self):
        rep, c, ffi1, ffi2 = self.rep, self.c, self.ffi1, self.ffi2
        try:
            clib1, clib2 = self.dlopen()
        except Exception as e:
            self.bad('dlopen-raised', str(e))
            return
        for idx, d in self.order(1):
            k = d['kind']
            try:
                if k == 'typedef':
                    rep.stat('typedefs')
                    tt = self.typeof_pair('typedef', d['name'])
                    if tt is None:
                        continue
                    t1, t2 = tt
                    if not self.same_type(t1, t2):
                        self.bad(self.cname_only(t1, t2) or self.differs(
                            'typedef-differs', tdesc(ffi1, t1), tdesc(ffi2, t2)),
                                 'typedef %s: in-line %r, out-of-line %r (%s)' %
                                 (d['name'], t1, t2, d['text']))
                    elif t1 is t2:
                        rep.stat('typedefs_identical_object')
                elif k == 'agg':
                    rep.stat('aggregates')
                    tag = '%s %s' % (d['agg']['kind'], d['name'])
                    tt = self.typeof_pair('aggregate', tag)
                    if tt is None:
                        continue
                    if not self.same_type(*tt):
                        d1, d2 = tdesc(ffi1, tt[0]), tdesc(ffi2, tt[1])
                        self.bad(self.cname_only(*tt) or self.differs('aggregate-differs', d1, d2),
                                 '%s: in-line %r, out-of-line %r (%s)' %
                                 (tag, d1, d2, d['text'][:300]))
                elif k == 'enum':
                    rep.stat('enums')
                    tag = 'enum ' + d['name']
                    tt = self.typeof_pair('enum', tag)
                    if tt is not None and not self.same_type(*tt):
                        self.bad('enum-differs', '%s: in-line %r, out-of-line %r' %
                                 (tag, tdesc(ffi1, tt[0]), tdesc(ffi2, tt[1])))
                    self.enumerators(d['values'], clib1, clib2)
                elif k == 'xtype':
                    rep.stat('x_' + d['form'])
                    exprs = list(d['typeexprs'])
                    if self.md['shuffle']:
                        exprs.reverse()
                    for expr in exprs:
                        rep.stat('x_types_compared')
                        tt = self.typeof_pair(d['form'], expr)
                        if tt is None:
                            continue
                        if not self.same_type(*tt):
                            d1, d2 = tdesc(ffi1, tt[0]), tdesc(ffi2, tt[1])
                            self.bad(self.cname_only(*tt) or
                                     self.differs('xtype-differs:' + d['form'], d1, d2),
                                     '%s: in-line %r = %r, out-of-line %r = %r (%s)' %
                                     (expr, tt[0], d1, tt[1], d2, d['text'][:300]))
                        elif tt[0] is tt[1]:
                            rep.stat('x_types_identical_object')
                    if d['values']:
                        rep.stat('x_enumerators', len(d['values']))
                        self.enumerators(d['values'], clib1, clib2)
                elif k == 'const':
                    rep.stat('constants')
                    if d['value'] < 0:
                        rep.stat('constants_negative')
                    v1, v2 = getattr(clib1, d['name']), ffi2.integer_const(d['name'])
                    if getattr(clib2, d['name']) != v2:
                        self.bad('constant-value', '%s: lib attribute and integer_const differ' %
                                 d['name'])
                    if v1 != v2 or v1 != d['value']:
                        self.bad('constant-value', '%s: in-line %r, out-of-line %r, declared %r '
                                 '(%s)' % (d['name'], v1, v2, d['value'], d['text']))
            except Exception as e:
                self.bad('compare-raised:' + type(e).__name__, '%s %s: %s' % (k, d['name'], e))
        l1, l2 = ffi1.list_types(), ffi2.list_types()
        rep.stat('list_types_compared')
        if l1 != l2:
            diff1 = [sorted(set(a) - set(b)) for a, b in zip(l1, l2)]
            diff2 = [sorted(set(b) - set(a)) for a, b in zip(l1, l2)]
            if use_file(self.seed) and diff1 == [[], [], []] and \
                    diff2 == [['FILE'], ['_IO_FILE'], []]:
                rep.bad('FILE-in-list_types', 'cdef using FILE: out-of-line list_types() has '
                        'additionally %r' % (diff2,), self.seed)
            else:
                self.bad('list_types-differs', 'only in-line: %r, only out-of-line: %r' %
                         (diff1, diff2))

    def check_identity(self):
        """every aggregate reached while describing (through fields, typedefs,
        signatures) is one ctype object per name out-of-line whenever it is
        in-line: the field / argument types of one ffi refer to that ffi's
        own struct, union and enum types"""
        if self.tainted:
            return            # a realization failed half-way: reported already
        self.rep.stat('aggregate_identity_checked', len(self.acc2))
        base_enums = set()
        for d in self.c.items[:self.nbase]:
            if d['kind'] == 'enum':
                base_enums.add('enum ' + d['name'])
            elif d['kind'] == 'xtype' and d['values']:
                base_enums.update(d['typeexprs'])
        for key, ids in self.acc2.items():
            n1 = len(self.acc1.get(key, ()))
            if len(ids) > 1 and len(ids) > n1:
                mech = self.differs('aggregate-identity-split', None, None)
                if key[0] == 'enum' and key[1] in base_enums:
                    mech = 'aggregate-identity-split:enum-of-included-ffi'
                self.bad(mech, '%s %s: %d distinct ctype objects reachable out-of-line, %d '
                         'in-line' % (key[0], key[1], len(ids), n1))

    # ---- the dlopen()ed library ---------------------------------------------
    def compare_lib(self):
        rep, c, ffi1, ffi2 = self.rep, self.c, self.ffi1, self.ffi2
        try:
            lib1, lib2 = self.dlopen()
        except Exception as e:
            self.bad('dlopen-raised', str(e))
            return
        names = []
        for idx, d in self.order(2):
            included = idx < self.nbase
            try:
                if d['kind'] in ('func', 'glob') and included:
                    # functions and globals of an included ffi: neither lib
                    # gives them (they belong to the included ffi's own lib)
                    rep.stat('included_symbols')
                    o1 = outcome(lambda: getattr(lib1, d['name']))
                    o2 = outcome(lambda: getattr(lib2, d['name']))
                    if o1[0] != o2[0]:
                        self.bad('included-symbol-exposure-differs', '%s %s of the included ffi: '
                                 'in-line %s, out-of-line %s' % (d['kind'], d['name'], o1, o2))
                    continue
                if d['kind'] in ('func', 'glob'):
                    names.append(d['name'])
                if d['kind'] == 'func':
                    rep.stat('functions')
                    if d.get('form') == 'x':
                        rep.stat('x_functions')
                    if '...' in d['text']:
                        rep.stat('functions_variadic')
                    o1 = outcome(lambda: getattr(lib1, d['name']))
                    o2 = outcome(lambda: getattr(lib2, d['name']))
                    if not o1[0] and not o2[0]:
                        rep.stat('function_raises_on_both_sides')
                        continue
                    if o1[0] != o2[0]:
                        self.bad('function-outcome-differs', '%s: in-line %s, out-of-line %s (%s)'
                                 % (d['name'], o1, o2, d['text']))
                        continue
                    f1, f2 = o1[1], o2[1]
                    t1, t2 = ffi1.typeof(f1), ffi2.typeof(f2)
                    if not self.same_type(t1, t2):
                        self.bad(self.cname_only(t1, t2) or self.differs(
                            'function-type-differs', tdesc(ffi1, t1), tdesc(ffi2, t2)),
                                 '%s: %r vs %r' % (d['name'], t1, t2))
                    a0 = int(ffi1.cast('uintptr_t', ffi1.addressof(lib1, d['name'])))
                    a1 = int(ffi1.cast('uintptr_t', f1))
                    a2 = int(ffi2.cast('uintptr_t', f2))
                    a3 = int(ffi2.cast('uintptr_t', ffi2.addressof(lib2, d['name'])))
                    if a0 != a1 or a1 != a2 or a2 != a3:
                        self.bad('function-address-differs', '%s: %#x / %#x / %#x / %#x' %
                                 (d['name'], a0, a1, a2, a3))
                elif d['kind'] == 'glob':
                    rep.stat('globals')
                    p1, p2 = ffi1.addressof(lib1, d['name']), ffi2.addressof(lib2, d['name'])
                    g1, g2 = getattr(lib1, d['name']), getattr(lib2, d['name'])
                    if isinstance(g1, ffi1.CData) != isinstance(g2, ffi2.CData) or (
                            isinstance(g1, ffi1.CData) and not self.same_type(
                                ffi1.typeof(g1), ffi2.typeof(g2))):
                        self.bad((self.cname_only(ffi1.typeof(g1), ffi2.typeof(g2))
                                  if isinstance(g1, ffi1.CData) and isinstance(g2, ffi2.CData) else
                                  None) or self.differs('global-type-differs', g1, g2),
                                 '%s: %r vs %r (%s)' % (d['name'], g1, g2, d['text']))
                    if int(ffi1.cast('uintptr_t', p1)) != int(ffi2.cast('uintptr_t', p2)):
                        self.bad('global-address-differs', d['name'])
                    v1, v2 = gvalue(ffi1, g1), gvalue(ffi2, g2)
                    rep.stat('global_reads_' + v1[0])
                    if v1 != v2:
                        self.bad('global-value-differs', '%s: %r vs %r (%s)' %
                                 (d['name'], v1, v2, d['text']))
                    r = c.resolve(d['type']) if d['type']['k'] != 'x' else d['type']
                    if r['k'] == 'prim' and r['name'] not in ('void',):
                        v1 = g1
                        nv = {'char': b'Q', '_Bool': True, 'float': 2.5,
                              'double': -7.25}.get(r['name'], 77)
                        setattr(lib1, d['name'], nv)
                        if getattr(lib2, d['name']) != nv:
                            self.bad('global-write-not-visible', '%s written in-line, out-of-line '
                                     'reads %r' % (d['name'], getattr(lib2, d['name'])))
                        setattr(lib2, d['name'], v1)
                        if getattr(lib1, d['name']) != v1:
                            self.bad('global-write-not-visible', '%s written out-of-line, in-line '
                                     'reads %r' % (d['name'], getattr(lib1, d['name'])))
                        rep.stat('global_writes')
                    elif v1[0] == 'ptr' and not d.get('nowrite'):
                        # pointer-typed global: write through one lib, read through the other
                        old = g1
                        setattr(lib1, d['name'], ffi1.cast(ffi1.typeof(g1), 0x5550))
                        w = gvalue(ffi2, getattr(lib2, d['name']))
                        setattr(lib2, d['name'], ffi2.cast(ffi2.typeof(g2), v1[1]))
                        back = gvalue(ffi1, getattr(lib1, d['name']))
                        if w != ('ptr', 0x5550) or back != v1:
                            self.bad('global-write-not-visible', '%s (pointer): wrote 0x5550 '
                                     'in-line, out-of-line reads %r; restored out-of-line, '
                                     'in-line reads %r, was %r' % (d['name'], w, back, v1))
                        rep.stat('global_pointer_writes')
                elif d['kind'] == 'xconst':
                    # a constant without a value: the in-line lib refuses it
                    rep.stat('valueless_constants')
                    o1 = outcome(lambda: getattr(lib1, d['name']))
                    o2 = outcome(lambda: getattr(lib2, d['name']))
                    if o1[0]:
                        rep.stat('valueless_constants_readable_inline')
                        if not o2[0] or gvalue(ffi1, o1[1]) != gvalue(ffi2, o2[1]):
                            self.bad('valueless-constant-differs', '%s: in-line %r, out-of-line '
                                     '%r' % (d['name'], o1, o2))
            except Exception as e:
                self.bad('lib-compare-raised:' + type(e).__name__, '%s %s (%s): %s' %
                         (d['kind'], d['name'], d['text'], e))
        try:
            d1, d2 = set(dir(lib1)), set(dir(lib2))
            rep.stat('dir_compared')
            only1 = sorted(n for n in names if n in d1 and n not in d2)
            only2 = sorted(n for n in names if n in d2 and n not in d1)
            miss = sorted(n for n in names if n not in d1 and n not in d2)
            if only1 or only2 or miss:
                self.bad('dir-differs', 'functions/globals only in dir(in-line lib): %r, only in '
                         'dir(out-of-line lib): %r, in neither: %r' % (only1, only2, miss))
        except Exception as e:
            self.bad('lib-compare-raised:' + type(e).__name__, 'dir(): %s' % e)


RISKY_FORMS = ('self-ref', 'mutual-ref', 'typedef-self-ref', 'opaque')


_ANON = None


def anon_collision_prone(seed):
    """ffi.include() mode with an anonymous aggregate / enum in the included
    and in the including cdef (both are numbered from '$1')"""
    global _ANON
    import re
    if _ANON is None:
        _ANON = re.compile(r'\b(struct|union|enum)\s*\{')
    md = modes(seed)
    if not md['include']:
        return False
    c = make_ctx(seed)
    k = split_point(c, md)
    if not k:
        return False
    return any(_ANON.search(d['text']) for d in c.items[:k]) and \
        any(_ANON.search(d['text']) for d in c.items[k:])


def risky(seed):
    """cdefs with self-/mutually-referential or opaque aggregates, or with
    anonymous aggregates on both sides of an ffi.include(), are compared one
    per process: their out-of-line realization can abort the process
    (assertions of an assert-enabled backend, Py_FatalError), which must not
    take the other cdefs of a case with it (and forking an ASan'd interpreter
    is too slow on this VM)"""
    return any(d.get('form') in RISKY_FORMS for d in make_ctx(seed).items) or \
        anon_collision_prone(seed)


def run_seed(st, case, seed, rep):
    """all comparisons of one cdef; returns the opaque out-of-line ctypes whose
    .fields is still to be read"""
    p = Pair(st, case, seed, rep)
    if not p.build():
        return p, []
    if p.md['lib_first']:
        rep.stat('order_lib_before_types')
        p.compare_lib()
        p.compare_types()
    else:
        p.compare_types()
        p.compare_lib()
    if p.md['shuffle']:
        rep.stat('order_shuffled')
    p.check_identity()
    return p, [(seed, p.ffi2, t) for t in DEFERRED.pop(id(p.ffi2)).values()]


def child_case(st, case):
    rep = core.ChildRep()
    pending = []
    keep = []
    for seed in case['seeds']:
        p, pend = run_seed(st, case, seed, rep)
        keep.append(p)
        pending.extend(pend)
    probe_deferred(pending, rep, st['wd'], fork=bool(case.get('isolated')))
    return rep.result()


def judge(ctx, setup, case, obs):
    core.absorb(ctx, case, obs, lambda seed: {'seeds': [seed], 'no': case['no'], 'so': case['so'],
                                              'isolated': bool(case.get('isolated'))})


def finalize(ctx, setup):
    iso = (setup or {}).get('isolated_cases') or []
    if iso:
        if _ISO.get('thread') is not None:
            _ISO['thread'].join()
        obs = _ISO.get('obs')
        if obs is None:
            ctx.inconclusive('isolated cdefs were not run: %s' % _ISO.get('error'))
            obs = []
        for c, o in zip(iso, obs):
            ctx.count('cdefs_run_isolated_on_plain_backend')
            if isinstance(o, dict) and '_crash' in o:
                ctx.count('child_crashes')
                mech, what = abort_mechanism(o['_crash'], o.get('_stderr', ''))
                if mech == 'abort:fatal:do_realize_lazy_struct_lock_held' and \
                        anon_collision_prone(c['seeds'][0]):
                    # the same reproduced defect as 'include-anonymous-name-collision',
                    # ending in Py_FatalError("lost a struct/union!")
                    mech = 'include-anonymous-name-collision:fatal-lost-struct'
                ctx.violation(mech, 'comparing the out-of-line module with the in-line ffi: %s '
                              ':: cdef seed %d' % (what, c['seeds'][0]), c)
            elif core.std_obs_check(ctx, c, o, True, False):
                judge(ctx, setup, c, o)
    n = ctx.counters.get('emit_refused_pack_gt_1')
    if n:
        ctx.note("%d cdefs given with cdef(..., pack=N), N in (2, 4, 8), are accepted in-line but "
                 "emit_python_code()/compile() for set_source(name, None) raises NotImplementedError "
                 "(\"only 0 or 1 are supported in API mode\", recompiler._struct_ctx): no out-of-line "
                 "module can be written for them; nothing was compared" % n)


def replay_setup(ctx, case):
    case['so'] = cc.build_so(ctx.tmp, '\n'.join(case_source(s) for s in case['seeds']),
                             'c11_replay.so')
    return None
