"""C11 -- the out-of-line ABI module is equivalent to the in-line FFI.

Differential (second cffi path): the same generated cdef is given to an
in-line FFI and emitted with emit_python_code(), imported, and both are
compared item by item; functions and globals through dlopen() of a gcc-built
library that defines them.  The decoding path runs on the ASan/UBSan backend.
"""
import os, sys, random
from vlib import core, cc, gen_cdef as GC

RULE = ("case = one generated cdef (about 14 declarations: typedef chains, nested/anonymous "
        "aggregates with bitfields, enums, #define/static const constants, functions, globals, "
        "optionally FILE*) ; compared: every typedef/struct/union/enum (identity for "
        "non-aggregates; kind, name, size, alignment, fields with offset/bitshift/bitsize for "
        "aggregates), constants and enumerators, list_types(), and functions/globals of the "
        "dlopen()ed library (type identity, address, value read, write visible on the other "
        "side); distinct = cdef text; non-trivial = cdef has an aggregate or typedef chain")
ASSUMPTIONS = ["the gcc-built shared object defines every declared function and global",
               "sanitizer reports in the decoding path are recorded as observations (the statement does not speak about them)"]
SAN_DECIDES = False


def make_ctx(seed):
    rnd = random.Random(seed)
    return GC.Ctx(rnd, prefix='m%d_' % seed, nd=rnd.choice([6, 10, 14, 20]))


def use_file(seed):
    return seed % 7 == 0


def generate(ctx):
    rng = ctx.rng('gen')
    n = ctx.scale(400, 12000)
    per = 25
    seeds = [rng.getrandbits(40) for _ in range(n)]
    cases = [{'seeds': seeds[i:i + per], 'no': i // per} for i in range(0, n, per)]
    import concurrent.futures as cf

    def build(case):
        src = []
        for s in case['seeds']:
            c = make_ctx(s)
            src.append(c.c_source())
            if use_file(s):
                src.append('#include <stdio.h>\nint m%d_usefile(FILE *f) { return f != 0; }'
                           % s)
        case['so'] = cc.build_so(ctx.tmp, '\n'.join(src), 'c11_%d.so' % case['no'])
    with cf.ThreadPoolExecutor(8) as ex:
        list(ex.map(build, cases))
    return None, cases


def child_setup(setup, wd):
    import warnings
    warnings.simplefilter('ignore')
    sys.path.insert(0, wd)
    return {'wd': wd}


def describe(ffi, t, depth=0):
    """comparable description of an aggregate ctype"""
    d = {'kind': t.kind, 'cname': t.cname}
    if t.kind in ('struct', 'union'):
        try:
            d['size'], d['align'] = ffi.sizeof(t), ffi.alignof(t)
        except Exception as e:
            d['size'] = 'exc:' + type(e).__name__
        fl = []
        if t.fields is not None:
            for name, f in t.fields:
                ft = f.type
                fd = tdesc(ffi, ft, depth + 1)
                fl.append((name, f.offset, f.bitshift, f.bitsize, f.flags, fd))
        d['fields'] = fl if t.fields is not None else None
    elif t.kind == 'enum':
        d['size'] = ffi.sizeof(t)
        d['elements'] = sorted(t.elements.items())
        d['relements'] = sorted(t.relements.items())
        d['signed'] = int(ffi.cast(t, -1)) < 0
    return d


def tdesc(ffi, t, depth=0):
    """comparable description of any ctype: identity for non-aggregate types
    that do not involve an aggregate, structure otherwise"""
    if t.kind in ('struct', 'union', 'enum'):
        return describe(ffi, t, depth) if depth < 5 else {'kind': t.kind, 'cname': t.cname}
    if not over_aggregate(t):
        return ('id', id(t))
    if t.kind in ('pointer', 'array'):
        return (t.kind, getattr(t, 'length', None), tdesc(ffi, t.item, depth + 1))
    if t.kind == 'function':
        return ('function', [tdesc(ffi, a, depth + 1) for a in t.args],
                tdesc(ffi, t.result, depth + 1), t.ellipsis, t.abi)
    return ('other', t.kind, t.cname)


def same_type(ffi1, t1, ffi2, t2):
    return tdesc(ffi1, t1) == tdesc(ffi2, t2)


def strip_cnames(d):
    if isinstance(d, dict):
        return {k: strip_cnames(v) for k, v in d.items() if k != 'cname'}
    if isinstance(d, (list, tuple)):
        return [strip_cnames(x) for x in d]
    return d


def cname_only(ffi1, t1, ffi2, t2, c):
    """classifier of the recorded finding: the two aggregates agree on everything
    but the display name, and the in-line name is that of a typedef of it"""
    if t1.kind != t2.kind:
        return None
    d1, d2 = tdesc(ffi1, t1), tdesc(ffi2, t2)
    if strip_cnames(d1) == strip_cnames(d2):
        tdnames = set(d['name'] for d in c.typedefs)
        if has_typedef_cname(d1, tdnames):
            return 'aggregate-cname-forced-by-typedef'
    return None


def has_typedef_cname(d, names):
    if isinstance(d, dict):
        if d.get('cname') in names:
            return True
        return any(has_typedef_cname(v, names) for v in d.values())
    if isinstance(d, (list, tuple)):
        return any(has_typedef_cname(x, names) for x in d)
    return False


def over_aggregate(t):
    k = t.kind
    if k in ('struct', 'union', 'enum'):
        return True
    if k in ('pointer', 'array'):
        return over_aggregate(t.item)
    if k == 'function':
        return over_aggregate(t.result) or any(over_aggregate(a) for a in t.args)
    return False


def child_case(st, case):
    import importlib
    from cffi import FFI
    rep = core.ChildRep()
    for seed in case['seeds']:
        c = make_ctx(seed)
        text = c.cdef_text()
        if use_file(seed):
            text += 'int m%d_usefile(FILE *f);\n' % seed
        try:
            ffi1 = FFI()
            ffi1.cdef(text)
            ffib = FFI()
            ffib.cdef(text)
            modname = '_c11_%d' % seed
            ffib.set_source(modname, None)
            ffib.emit_python_code(os.path.join(st['wd'], modname + '.py'))
            m = importlib.import_module(modname)
            ffi2 = m.ffi
        except Exception as e:
            import traceback
            rep.bad('setup-raised:' + type(e).__name__, 'cdef/emit/import failed: %s :: %s' %
                    (traceback.format_exc()[-500:], text[:300]), seed)
            continue
        nontriv = any(d['kind'] in ('agg', 'typedef') for d in c.items)
        rep.case(text, nontrivial=nontriv, sample={'cdef': text[:500]})

        def bad(mech, msg):
            rep.bad(mech, msg + ' :: cdef seed %d' % seed, seed)
        try:
            clib1, clib2 = ffi1.dlopen(case['so']), ffi2.dlopen(case['so'])
        except Exception as e:
            bad('dlopen-raised', str(e))
            continue
        for d in c.items:
            k = d['kind']
            try:
                if k == 'typedef':
                    rep.stat('typedefs')
                    t1, t2 = ffi1.typeof(d['name']), ffi2.typeof(d['name'])
                    if not same_type(ffi1, t1, ffi2, t2):
                        bad(cname_only(ffi1, t1, ffi2, t2, c) or 'typedef-differs',
                            'typedef %s: in-line %r, out-of-line %r (%s)' %
                            (d['name'], t1, t2, d['text']))
                    elif t1 is t2:
                        rep.stat('typedefs_identical_object')
                elif k == 'agg':
                    rep.stat('aggregates')
                    tag = '%s %s' % (d['agg']['kind'], d['name'])
                    d1, d2 = describe(ffi1, ffi1.typeof(tag)), describe(ffi2, ffi2.typeof(tag))
                    if d1 != d2:
                        bad(cname_only(ffi1, ffi1.typeof(tag), ffi2, ffi2.typeof(tag), c) or
                            'aggregate-differs', '%s: in-line %r, out-of-line %r (%s)' %
                            (tag, d1, d2, d['text'][:300]))
                elif k == 'enum':
                    rep.stat('enums')
                    tag = 'enum ' + d['name']
                    d1, d2 = describe(ffi1, ffi1.typeof(tag)), describe(ffi2, ffi2.typeof(tag))
                    if d1 != d2:
                        bad('enum-differs', '%s: in-line %r, out-of-line %r' % (tag, d1, d2))
                    for en, v in d['values']:
                        v1, v2 = getattr(clib1, en), ffi2.integer_const(en)
                        if v1 != v2 or v1 != v:
                            bad('enumerator-value', '%s: in-line %r, out-of-line %r, declared %r'
                                % (en, v1, v2, v))
                elif k == 'const':
                    rep.stat('constants')
                    v1, v2 = getattr(clib1, d['name']), ffi2.integer_const(d['name'])
                    if getattr(clib2, d['name']) != v2:
                        bad('constant-value', '%s: lib attribute and integer_const differ' %
                            d['name'])
                    if v1 != v2 or v1 != d['value']:
                        bad('constant-value', '%s: in-line %r, out-of-line %r, declared %r (%s)' %
                            (d['name'], v1, v2, d['value'], d['text']))
            except Exception as e:
                bad('compare-raised:' + type(e).__name__, '%s %s: %s' % (k, d['name'], e))
        l1, l2 = ffi1.list_types(), ffi2.list_types()
        rep.stat('list_types_compared')
        if l1 != l2:
            extra = set(map(tuple, [l2[0]])) if False else None
            diff1 = [sorted(set(a) - set(b)) for a, b in zip(l1, l2)]
            diff2 = [sorted(set(b) - set(a)) for a, b in zip(l1, l2)]
            if use_file(seed) and diff1 == [[], [], []] and diff2 == [['FILE'], ['_IO_FILE'], []]:
                rep.bad('FILE-in-list_types', 'cdef using FILE: out-of-line list_types() has '
                        'additionally %r' % (diff2,), seed)
            else:
                bad('list_types-differs', 'only in-line: %r, only out-of-line: %r' %
                    (diff1, diff2))
        # the dlopen()ed library
        try:
            lib1, lib2 = ffi1.dlopen(case['so']), ffi2.dlopen(case['so'])
        except Exception as e:
            bad('dlopen-raised', str(e))
            continue
        for d in c.items:
            try:
                if d['kind'] == 'func':
                    rep.stat('functions')
                    f1, f2 = getattr(lib1, d['name']), getattr(lib2, d['name'])
                    t1, t2 = ffi1.typeof(f1), ffi2.typeof(f2)
                    if not same_type(ffi1, t1, ffi2, t2):
                        bad(cname_only(ffi1, t1, ffi2, t2, c) or 'function-type-differs',
                            '%s: %r vs %r' % (d['name'], t1, t2))
                    a1 = int(ffi1.cast('uintptr_t', f1))
                    a2 = int(ffi2.cast('uintptr_t', f2))
                    a3 = int(ffi2.cast('uintptr_t', ffi2.addressof(lib2, d['name'])))
                    if a1 != a2 or a2 != a3:
                        bad('function-address-differs', '%s: %#x / %#x / %#x' %
                            (d['name'], a1, a2, a3))
                elif d['kind'] == 'glob':
                    rep.stat('globals')
                    p1, p2 = ffi1.addressof(lib1, d['name']), ffi2.addressof(lib2, d['name'])
                    g1, g2 = getattr(lib1, d['name']), getattr(lib2, d['name'])
                    if isinstance(g1, ffi1.CData) != isinstance(g2, ffi2.CData) or (
                            isinstance(g1, ffi1.CData) and not same_type(
                                ffi1, ffi1.typeof(g1), ffi2, ffi2.typeof(g2))):
                        bad((cname_only(ffi1, ffi1.typeof(g1), ffi2, ffi2.typeof(g2), c)
                             if isinstance(g1, ffi1.CData) and isinstance(g2, ffi2.CData) else
                             None) or 'global-type-differs', '%s: %r vs %r' % (d['name'], g1, g2))
                    if int(ffi1.cast('uintptr_t', p1)) != int(ffi2.cast('uintptr_t', p2)):
                        bad('global-address-differs', d['name'])
                    r = c.resolve(d['type'])
                    if r['k'] == 'prim' and r['name'] not in ('void',):
                        v1, v2 = getattr(lib1, d['name']), getattr(lib2, d['name'])
                        if v1 != v2:
                            bad('global-value-differs', '%s: %r vs %r' % (d['name'], v1, v2))
                        nv = {'char': b'Q', '_Bool': True, 'float': 2.5,
                              'double': -7.25}.get(r['name'], 77)
                        setattr(lib1, d['name'], nv)
                        if getattr(lib2, d['name']) != nv:
                            bad('global-write-not-visible', '%s written in-line, out-of-line reads '
                                '%r' % (d['name'], getattr(lib2, d['name'])))
                        setattr(lib2, d['name'], v1)
                        if getattr(lib1, d['name']) != v1:
                            bad('global-write-not-visible', '%s written out-of-line, in-line '
                                'reads %r' % (d['name'], getattr(lib1, d['name'])))
                        rep.stat('global_writes')
                    else:
                        getattr(lib1, d['name'])
                        getattr(lib2, d['name'])
            except Exception as e:
                bad('lib-compare-raised:' + type(e).__name__, '%s %s (%s): %s' %
                    (d['kind'], d['name'], d['text'], e))
    return rep.result()


def judge(ctx, setup, case, obs):
    core.absorb(ctx, case, obs, lambda seed: {'seeds': [seed], 'no': case['no'], 'so': case['so']})


def replay_setup(ctx, case):
    src = []
    for s in case['seeds']:
        src.append(make_ctx(s).c_source())
        if use_file(s):
            src.append('#include <stdio.h>\nint m%d_usefile(FILE *f) { return f != 0; }'
                       % s)
    case['so'] = cc.build_so(ctx.tmp, '\n'.join(src), 'c11_replay.so')
    return None
