"""C15 -- character arrays and strings round-trip, including the terminator.

Model: encode a Python string to units of T (bytes; UTF-16 with surrogate
pairs; UTF-32) and decode units back.  ASan red zones decide over-long
writes (ffi.new bodies are malloc'ed).
"""
import sys, os, struct
from vlib import gen, core

MEMCHECK_SAMPLE = 4
RULE = ("case = (character type T in char/signed char/unsigned char/wchar_t/char16_t/char32_t, "
        "operation, string): round-trip new->string, string() with embedded zeros and maxlen on "
        "arrays and pointers, unpack(n), and assignment of a string to a fixed T[N] through "
        "new-initializer / item of T[k][N] / struct field / pointer-to-array, N in len-1..len+3, "
        "over previous non-zero contents; strings over all byte values, BMP, astral, lone "
        "surrogates; distinct = (T, op, string, N); non-trivial = len(s) >= 1")
ASSUMPTIONS = ["for 16-bit types a high surrogate is never generated directly before a low one "
               "(indistinguishable from an astral character in UTF-16)",
               "char32_t/wchar_t memory is only filled with valid code points for decoding checks"]

TYPES = [('char', 1), ('signed char', 1), ('unsigned char', 1), ('wchar_t', 4),
         ('char16_t', 2), ('char32_t', 4)]
FMT = {1: 'B', 2: 'H', 4: 'I'}


def encode(s, size):
    if isinstance(s, bytes):
        return list(s)
    out = []
    for ch in s:
        c = ord(ch)
        if size == 2 and c > 0xFFFF:
            c -= 0x10000
            out.append(0xD800 | (c >> 10))
            out.append(0xDC00 | (c & 0x3FF))
        else:
            out.append(c)
    return out


def decode(units, size):
    if size == 1:
        return bytes(units)
    out = []
    i = 0
    while i < len(units):
        u = units[i]
        if size == 2 and 0xD800 <= u <= 0xDBFF and i + 1 < len(units) and \
                0xDC00 <= units[i + 1] <= 0xDFFF:
            out.append(chr(0x10000 + ((u - 0xD800) << 10) + (units[i + 1] - 0xDC00)))
            i += 2
        else:
            out.append(chr(u))
            i += 1
    return ''.join(out)


def fix16(s):
    """avoid high surrogate directly followed by low surrogate"""
    out = []
    for ch in s:
        if out and 0xD800 <= ord(out[-1]) <= 0xDBFF and 0xDC00 <= ord(ch) <= 0xDFFF:
            out.append('x')
        out.append(ch)
    return ''.join(out)


def generate(ctx):
    rng = ctx.rng('gen')
    n = ctx.scale(1500, 60000)
    cases = []
    for T, size in TYPES:
        for op in ('roundtrip', 'string_maxlen', 'unpack', 'assign'):
            items = []
            for _ in range(n):
                if size == 1:
                    s = gen.rand_bytes(rng)
                    items.append(['b', s.hex(), rng.randrange(-1, 4), rng.getrandbits(30)])
                else:
                    kinds = rng.choice([('ascii',), ('bmp', 'ascii'), ('astral', 'bmp'),
                                        ('surrogate', 'ascii', 'astral'),
                                        ('ascii', 'latin', 'bmp', 'astral', 'surrogate')])
                    s = gen.rand_str(rng, kinds=kinds)
                    if size == 2:
                        s = fix16(s)
                    items.append(['u', [ord(c) for c in s], rng.randrange(-1, 4),
                                  rng.getrandbits(30)])
            cases.append({'T': T, 'size': size, 'op': op, 'items': items})
    return None, cases


def child_setup(setup, wd):
    from cffi import FFI
    ffi = FFI()
    for T, size in TYPES:
        for N in range(0, 60):
            pass
    return {'ffi': ffi, 'structs': {}}


def units_of(ffi, cd, size, count=None):
    b = bytes(ffi.buffer(cd))
    n = len(b) // size if count is None else count
    return list(struct.unpack('<%d%s' % (n, FMT[size]), b[:n * size]))


def fill(ffi, cd, units, size):
    ffi.buffer(cd)[:] = struct.pack('<%d%s' % (len(units), FMT[size]), *units)


def child_case(st, case):
    import random
    ffi = st['ffi']
    T, size, op = case['T'], case['size'], case['op']
    rep = core.ChildRep()
    SENT = 0x55 if T in ('signed char', 'unsigned char') else \
        (bytes([0x55]) if size == 1 else chr(0x55))
    for kind, payload, dn, seed in case['items']:
        rnd = random.Random(seed)
        s = bytes.fromhex(payload) if kind == 'b' else ''.join(chr(c) for c in payload)
        units = encode(s, size)
        L = len(units)
        maxu = (1 << (8 * size)) - 1 if size < 4 else 0x10FFFF
        detail = [kind, payload, dn, seed]
        try:
            if op == 'roundtrip':
                p = ffi.new(T + '[]', s)
                rep.case((T, op, payload), nontrivial=L >= 1,
                         sample={'T': T, 'op': op, 's': repr(s)[:60]})
                if len(p) != L + 1:
                    rep.bad('new-length', "len(ffi.new('%s[]', %r)) = %d, expected %d" %
                            (T, s, len(p), L + 1), detail)
                got = ffi.string(p)
                if got != s:
                    rep.bad('roundtrip', "ffi.string(ffi.new('%s[]', %r)) = %r" % (T, s, got),
                            detail)
                if units_of(ffi, p, size) != units + [0]:
                    rep.bad('stored-units', '%s[] from %r stores %r' % (T, s, units_of(ffi, p, size)),
                            detail)
                # the same through an allocator that hands out dirty memory: the
                # terminator must be written, not inherited from zeroed memory
                keep = []

                def dirty_alloc(nbytes):
                    m = ffi.new('char[]', nbytes + 8)
                    ffi.buffer(m)[:] = b'\xaa' * (nbytes + 8)
                    keep.append(m)
                    return m
                alloc = ffi.new_allocator(alloc=dirty_alloc, free=None,
                                          should_clear_after_alloc=False)
                pa = alloc(T + '[]', s)
                rep.stat('roundtrip_dirty_allocator')
                if len(pa) != L + 1 or units_of(ffi, pa, size) != units + [0] or \
                        ffi.string(pa) != s:
                    rep.bad('roundtrip-dirty-allocator', "allocator('%s[]', %r) on non-zeroed "
                            'memory stores %r, string() = %r' %
                            (T, s, units_of(ffi, pa, size), ffi.string(pa, L + 4)), detail)
                # assignment through a pointer to an open-ended array over old contents
                mem = ffi.new('%s[%d]' % (T, L + 3))
                oldu = [rnd.randrange(1, 100) for _ in range(L + 3)]
                fill(ffi, mem, oldu, size)
                pp = ffi.cast(T + '(*)[]', mem)
                pp[0] = s
                rep.stat('assign_open_array')
                if units_of(ffi, mem, size) != units + [0] + oldu[L + 1:]:
                    rep.bad('assign-terminator:open-array', '%s(*)[] <- %r over %r leaves %r' %
                            (T, s, oldu, units_of(ffi, mem, size)), detail)
                # fixed size exactly L: no terminator, string() stops at the array end
                if L:
                    q = ffi.new('%s[%d]' % (T, L), s)
                    if ffi.string(q) != s:
                        rep.bad('roundtrip-exact-fit', "%s[%d] from %r: string() = %r" %
                                (T, L, s, ffi.string(q)), detail)
                    rep.stat('exact_fit')
            elif op in ('string_maxlen', 'unpack'):
                # memory with embedded zeros
                total = L + 3
                mem = list(units) + [rnd.randrange(1, 100) for _ in range(3)]
                for _ in range(rnd.choice([0, 1, 1, 2])):
                    mem[rnd.randrange(total)] = 0
                if size == 2:
                    mem = encode(fix16(decode(mem, 2)), 2) if 0 not in mem else mem
                    # re-fix pairs created by concatenation
                    for i in range(1, len(mem)):
                        if 0xD800 <= mem[i - 1] <= 0xDBFF and 0xDC00 <= mem[i] <= 0xDFFF:
                            mem[i] = 0x41
                    total = len(mem)
                arr = ffi.new('%s[%d]' % (T, total))
                fill(ffi, arr, mem, size)
                ptr = ffi.cast(T + ' *', arr)
                rep.case((T, op, tuple(mem)), nontrivial=L >= 1,
                         sample={'T': T, 'op': op, 'units': mem[:20]})
                if op == 'string_maxlen':
                    z = mem.index(0) if 0 in mem else total
                    exp = decode(mem[:z], size)
                    got = ffi.string(arr)
                    if got != exp:
                        rep.bad('string-array', '%s[%d] units %r: string() = %r, expected %r' %
                                (T, total, mem, got, exp), detail)
                    # an explicit maxlen is the caller's bound (as in C): values
                    # beyond the array length are outside the statement
                    for ml in sorted({0, 1, z - 1, z, z + 1, total - 1, total,
                                      rnd.randrange(0, total + 1)}):
                        if ml < 0 or ml > total:
                            continue
                        e = decode(mem[:min(z, ml, total)], size)
                        g = ffi.string(arr, ml)
                        rep.stat('string_maxlen_calls')
                        if g != e:
                            rep.bad('string-maxlen-array', '%s[%d] units %r: string(maxlen=%d) = '
                                    '%r, expected %r' % (T, total, mem, ml, g, e), detail)
                        if ml <= total:   # pointers do not know their length
                            g = ffi.string(ptr, ml)
                            if g != e:
                                rep.bad('string-maxlen-pointer', '%s* units %r: string(maxlen=%d)'
                                        ' = %r, expected %r' % (T, mem, ml, g, e), detail)
                    if 0 in mem:
                        g = ffi.string(ptr)
                        if g != exp:
                            rep.bad('string-pointer', '%s* units %r: string() = %r, expected %r'
                                    % (T, mem, g, exp), detail)
                else:
                    for k in sorted({0, 1, L, total, rnd.randrange(0, total + 1)}):
                        cut = mem[:k]
                        if size == 2 and cut and 0xD800 <= cut[-1] <= 0xDBFF:
                            pass
                        e = decode(cut, size)
                        if T == 'signed char':     # an integer type for unpack()
                            e = [u - 256 if u > 127 else u for u in cut]
                        elif T == 'unsigned char':
                            e = list(cut)
                        for src in (arr, ptr):
                            g = ffi.unpack(src, k)
                            rep.stat('unpack_calls')
                            if g != e or len(g if isinstance(g, list) else
                                             encode(g, size)) != k:
                                rep.bad('unpack-length', '%s units %r: unpack(%d) = %r, expected '
                                        '%r' % (T, mem, k, g, e), detail)
            elif op == 'assign':
                N = max(0, L + dn)
                old = [rnd.randrange(1, min(maxu, 0xD7FF)) for _ in range(N)]
                fits = L <= N
                exp_units = (units + ([0] if L < N else []) + old[L + 1:]) if fits else old
                for path in ('new', 'item', 'field', 'ptr'):
                    rep.case((T, op, path, payload, N), nontrivial=L >= 1,
                             sample={'T': T, 'op': op, 'path': path, 's': repr(s)[:40], 'N': N})
                    rep.stat('assign_' + path)
                    if fits and L < N:
                        rep.stat('assign_shorter')
                    exc = None
                    if path == 'new':
                        try:
                            a = ffi.new('%s[%d]' % (T, N), s)
                            now = units_of(ffi, a, size)
                        except Exception as e:
                            exc = type(e).__name__
                        e_units = (units + [0] * (N - L)) if fits else None
                    else:
                        if path == 'item':
                            outer = ffi.new('%s[3][%d]' % (T, N))
                            fill(ffi, outer, [7] * N + old + [9] * N, size)
                            try:
                                outer[1] = s
                            except Exception as e:
                                exc = type(e).__name__
                            allu = units_of(ffi, outer, size)
                            now = allu[N:2 * N]
                            if allu[:N] != [7] * N or allu[2 * N:] != [9] * N:
                                rep.bad('assign-neighbour', '%s[3][%d] item 1 = %r changed '
                                        'neighbours' % (T, N, s), detail)
                        elif path == 'field':
                            key = (T, N)
                            if key not in st['structs']:
                                nm = 's_%s_%d' % (T.replace(' ', '_'), N)
                                ffi.cdef('struct %s { char a; %s f[%d]; %s g; };' % (nm, T, N, T))
                                st['structs'][key] = nm
                            sp = ffi.new('struct %s *' % st['structs'][key])
                            if N:
                                fill(ffi, sp.f, old, size)
                            sp.g = SENT
                            try:
                                sp.f = s
                            except Exception as e:
                                exc = type(e).__name__
                            now = units_of(ffi, sp.f, size) if N else []
                            if sp.g != SENT:
                                rep.bad('assign-neighbour', 'struct field %s f[%d] = %r changed '
                                        'the next field' % (T, N, s), detail)
                        else:
                            a = ffi.new('%s[%d]' % (T, N))
                            if N:
                                fill(ffi, a, old, size)
                            pp = ffi.cast('%s(*)[%d]' % (T, N), a)
                            try:
                                pp[0] = s
                            except Exception as e:
                                exc = type(e).__name__
                            now = units_of(ffi, a, size)
                        e_units = exp_units if fits else None
                    if fits:
                        if exc:
                            rep.bad('assign-raised:' + path, '%s[%d] <- %r raised %s' %
                                    (T, N, s, exc), detail)
                        elif now != e_units:
                            mech = 'assign-terminator' if (L < N and now[:L] == units and
                                                           now[L] != 0) else 'assign-content'
                            rep.bad('%s:%s' % (mech, path), '%s[%d] (old %r) <- %r via %s leaves '
                                    '%r, expected %r' % (T, N, old, s, path, now, e_units), detail)
                    else:
                        if exc != 'IndexError':
                            rep.bad('assign-too-long:' + path, '%s[%d] <- %r (%d units) via %s: '
                                    '%s' % (T, N, s, L, path, exc or 'accepted'), detail)
                        elif path != 'new' and now != old:
                            rep.bad('assign-too-long-changed-memory:' + path,
                                    '%s[%d] <- too long %r changed memory' % (T, N, s), detail)
        except Exception as e:
            import traceback
            rep.bad('harness-exception', traceback.format_exc()[-800:], detail)
    return rep.result()


def judge(ctx, setup, case, obs):
    def rp(detail):
        c = dict(case)
        c['items'] = [detail]
        return c
    core.absorb(ctx, case, obs, rp)
