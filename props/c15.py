"""C15 -- character arrays and strings round-trip, including the terminator.

Model: encode a Python string to units of T (bytes; UTF-16 with surrogate
pairs; UTF-32) and decode units back.  ASan red zones decide over-long
writes (ffi.new bodies are malloc'ed).
"""
import sys, os, struct, operator
from vlib import gen, core

MEMCHECK_SAMPLE = 4
RULE = ("case = (character type T in char/signed char/unsigned char/wchar_t/char16_t/char32_t, "
        "operation, string): round-trip new->string (also through a flexible array member of a "
        "struct and through a T* call argument, which builds a temporary T[] with the same "
        "converter), string() with embedded zeros and maxlen (positional and keyword) and "
        "unpack(n) on arrays created as T[N] / T[] / slice of a larger array / from_buffer / "
        "struct field and on pointers, with surrogate pairs in 16-bit memory and cuts inside a "
        "pair; assignment of a string to a fixed T[N] through new-initializer / item of "
        "T[k][N] / struct field / pointer-to-array / struct initializer (dict and list, on "
        "non-zeroed memory) / slice of T[k][N] / nested list initializer, N in len-1..len+3, "
        "over previous non-zero contents; strings over all byte values, BMP, astral, lone "
        "surrogates, lengths 0..17(40) and a share of long ones (60..700 units); an exception "
        "on an in-scope input is a violation; distinct = (T, op, string, N); "
        "non-trivial = len(s) >= 1")
ASSUMPTIONS = ["for 16-bit types a Python string never has a high surrogate directly before a "
               "low one (indistinguishable from an astral character in UTF-16); memory read "
               "back may contain pairs, they decode to one astral character",
               "char32_t/wchar_t memory is only filled with valid code points for decoding checks",
               "a str/bytes passed for a 'const T *' parameter is converted like ffi.new('T[]', s) "
               "(cffi documentation); bytes for char pointers are passed without a copy"]

TYPES = [('char', 1), ('signed char', 1), ('unsigned char', 1), ('wchar_t', 4),
         ('char16_t', 2), ('char32_t', 4)]
FMT = {1: 'B', 2: 'H', 4: 'I'}


def encode(s, size):
    if isinstance(s, bytes):
        return list(s)
    out = []
    for ch in s:
        c = ord(ch)
        if size == 2 and c > 0xFFFF:
            c -= 0x10000
            out.append(0xD800 | (c >> 10))
            out.append(0xDC00 | (c & 0x3FF))
        else:
            out.append(c)
    return out


def decode(units, size):
    if size == 1:
        return bytes(units)
    out = []
    i = 0
    while i < len(units):
        u = units[i]
        if size == 2 and 0xD800 <= u <= 0xDBFF and i + 1 < len(units) and \
                0xDC00 <= units[i + 1] <= 0xDFFF:
            out.append(chr(0x10000 + ((u - 0xD800) << 10) + (units[i + 1] - 0xDC00)))
            i += 2
        else:
            out.append(chr(u))
            i += 1
    return ''.join(out)


def fix16(s):
    """avoid high surrogate directly followed by low surrogate"""
    out = []
    for ch in s:
        if out and 0xD800 <= ord(out[-1]) <= 0xDBFF and 0xDC00 <= ord(ch) <= 0xDFFF:
            out.append('x')
        out.append(ch)
    return ''.join(out)


LONG_LENGTHS = [60, 127, 128, 129, 255, 256, 257, 300, 511, 512, 513, 700]


def generate(ctx):
    rng = ctx.rng('gen')
    n = ctx.scale(1500, 60000)
    cases = []
    for T, size in TYPES:
        for op in ('roundtrip', 'string_maxlen', 'unpack', 'assign'):
            items = []
            for _ in range(n):
                # a share of long strings: call arguments switch from alloca to malloc
                # above 512 bytes, unicode storage kinds and copy loops see long runs
                ln = rng.choice(LONG_LENGTHS) if rng.random() < 0.015 else None
                if size == 1:
                    s = gen.rand_bytes(rng, ln)
                    items.append(['b', s.hex(), rng.randrange(-1, 4), rng.getrandbits(30)])
                else:
                    kinds = rng.choice([('ascii',), ('bmp', 'ascii'), ('astral', 'bmp'),
                                        ('surrogate', 'ascii', 'astral'),
                                        ('ascii', 'latin', 'bmp', 'astral', 'surrogate')])
                    s = gen.rand_str(rng, ln, kinds=kinds)
                    if size == 2:
                        s = fix16(s)
                    items.append(['u', [ord(c) for c in s], rng.randrange(-1, 4),
                                  rng.getrandbits(30)])
            cases.append({'T': T, 'size': size, 'op': op, 'items': items})
    return None, cases


def child_setup(setup, wd):
    from cffi import FFI
    ffi = FFI()
    # struct with a flexible array member of every character type
    for T, size in TYPES:
        ffi.cdef('struct flex_%s { int n; %s f[]; };' % (T.replace(' ', '_'), T))
    # memory that is handed out dirty: terminators must be written, not inherited
    keep = []

    def dirty_alloc(nbytes):
        m = ffi.new('char[]', nbytes + 8)
        ffi.buffer(m)[:] = b'\xaa' * (nbytes + 8)
        keep.append(m)
        return m
    dirty = ffi.new_allocator(alloc=dirty_alloc, free=None, should_clear_after_alloc=False)
    # one FFI per character type declaring memcpy with a 'const T *' source: the
    # observation point for the temporary array built for a str/bytes argument
    libs = {}
    for T, size in TYPES:
        f = FFI()
        f.cdef('void *memcpy(void *, const %s *, size_t);' % T)
        libs[T] = (f, f.dlopen(None))
    return {'ffi': ffi, 'structs': {}, 'dirty': dirty, 'dirty_keep': keep, 'libs': libs}


def units_of(ffi, cd, size, count=None):
    b = bytes(ffi.buffer(cd))
    n = len(b) // size if count is None else count
    return list(struct.unpack('<%d%s' % (n, FMT[size]), b[:n * size]))


def pack(units, size):
    return struct.pack('<%d%s' % (len(units), FMT[size]), *units)


def fill(ffi, cd, units, size):
    ffi.buffer(cd)[:] = pack(units, size)


def struct_for(st, T, N):
    """struct { char a; T f[N]; T g; } declared once per (T, N)"""
    key = (T, N)
    if key not in st['structs']:
        nm = 's_%s_%d' % (T.replace(' ', '_'), N)
        st['ffi'].cdef('struct %s { char a; %s f[%d]; %s g; };' % (nm, T, N, T))
        st['structs'][key] = nm
    return st['structs'][key]


class Raised(Exception):
    """a cffi operation raised on an input the property covers"""

    def __init__(self, what, exc):
        Exception.__init__(self, what)
        self.what = what
        self.exc = exc


def do(what, fn, *args, **kw):
    try:
        return fn(*args, **kw)
    except Exception as e:
        raise Raised(what, e)


def is_hi(u):
    return 0xD800 <= u <= 0xDBFF


def is_lo(u):
    return 0xDC00 <= u <= 0xDFFF


SOURCE_MODES = ('fixed', 'open', 'slice', 'frombuf', 'field')
TAIL = [0x62, 0x63, 0x64]      # non-zero units behind a view: an overrun shows in the result


def make_source(st, T, size, mem, mode, rnd, SENT):
    """an array cdata of exactly len(mem) units holding mem -> (array, keepalive)"""
    ffi = st['ffi']
    total = len(mem)
    if mode == 'fixed':
        arr = ffi.new('%s[%d]' % (T, total))
        fill(ffi, arr, mem, size)
        return arr, arr
    if mode == 'open':
        arr = ffi.new(T + '[]', total)
        fill(ffi, arr, mem, size)
        return arr, arr
    if mode == 'slice':
        pre = rnd.randrange(0, 3)
        big = ffi.new(T + '[]', pre + total + len(TAIL))
        fill(ffi, big, [0x61] * pre + mem + TAIL, size)
        return big[pre:pre + total], big
    if mode == 'frombuf':
        ba = bytearray(pack(mem + TAIL, size))
        arr = ffi.from_buffer(T + '[]', memoryview(ba)[:total * size])
        return arr, (ba, arr)
    sp = ffi.new('struct %s *' % struct_for(st, T, total))
    fill(ffi, sp.f, mem, size)
    sp.g = SENT
    return sp.f, sp


def child_case(st, case):
    import random
    ffi = st['ffi']
    T, size, op = case['T'], case['size'], case['op']
    rep = core.ChildRep()
    SENT = 0x55 if T in ('signed char', 'unsigned char') else \
        (bytes([0x55]) if size == 1 else chr(0x55))
    DIRTY = int.from_bytes(b'\xaa' * size, 'little')
    flex = 'struct flex_%s *' % T.replace(' ', '_')
    for kind, payload, dn, seed in case['items']:
        rnd = random.Random(seed)
        s = bytes.fromhex(payload) if kind == 'b' else ''.join(chr(c) for c in payload)
        units = encode(s, size)
        L = len(units)
        maxu = (1 << (8 * size)) - 1 if size < 4 else 0x10FFFF
        detail = [kind, payload, dn, seed]
        del st['dirty_keep'][:]
        if L >= 60:
            rep.stat('long_strings')
        try:
            if op == 'roundtrip':
                p = do('new', ffi.new, T + '[]', s)
                rep.case((T, op, payload), nontrivial=L >= 1,
                         sample={'T': T, 'op': op, 's': repr(s)[:60]})
                if len(p) != L + 1:
                    rep.bad('new-length', "len(ffi.new('%s[]', %r)) = %d, expected %d" %
                            (T, s, len(p), L + 1), detail)
                got = do('string', ffi.string, p)
                if got != s:
                    rep.bad('roundtrip', "ffi.string(ffi.new('%s[]', %r)) = %r" % (T, s, got),
                            detail)
                if units_of(ffi, p, size) != units + [0]:
                    rep.bad('stored-units', '%s[] from %r stores %r' % (T, s, units_of(ffi, p, size)),
                            detail)
                # the same through an allocator that hands out dirty memory: the
                # terminator must be written, not inherited from zeroed memory
                pa = do('new', st['dirty'], T + '[]', s)
                rep.stat('roundtrip_dirty_allocator')
                if len(pa) != L + 1 or units_of(ffi, pa, size) != units + [0] or \
                        do('string', ffi.string, pa) != s:
                    rep.bad('roundtrip-dirty-allocator', "allocator('%s[]', %r) on non-zeroed "
                            'memory stores %r, string() = %r' %
                            (T, s, units_of(ffi, pa, size), ffi.string(pa, L + 4)), detail)
                # assignment through a pointer to an open-ended array over old contents
                mem = ffi.new('%s[%d]' % (T, L + 3))
                oldu = [rnd.randrange(1, 100) for _ in range(L + 3)]
                fill(ffi, mem, oldu, size)
                pp = ffi.cast(T + '(*)[]', mem)
                do('assign', operator.setitem, pp, 0, s)
                rep.stat('assign_open_array')
                if units_of(ffi, mem, size) != units + [0] + oldu[L + 1:]:
                    rep.bad('assign-terminator:open-array', '%s(*)[] <- %r over %r leaves %r' %
                            (T, s, oldu, units_of(ffi, mem, size)), detail)
                # fixed size exactly L: no terminator, string() stops at the array end
                if L:
                    q = do('new', ffi.new, '%s[%d]' % (T, L), s)
                    if do('string', ffi.string, q) != s:
                        rep.bad('roundtrip-exact-fit', "%s[%d] from %r: string() = %r" %
                                (T, L, s, ffi.string(q)), detail)
                    rep.stat('exact_fit')
                # a flexible array member initialized with the string: the allocation is
                # sized from the string (+1), the field reads back as an array
                init = [L, s] if rnd.random() < 0.5 else {'f': s}
                pf = do('new', ffi.new, flex, init)
                fa = pf.f
                rep.stat('flex_member_init')
                if len(fa) < L + 1 or units_of(ffi, fa, size, L + 1) != units + [0] or \
                        do('string', ffi.string, fa) != s:
                    rep.bad('roundtrip-flexible-member', "%s f[] initialized with %r: len %d, "
                            'units %r, string() = %r' % (T, s, len(fa), units_of(ffi, fa, size),
                                                         ffi.string(fa, L + 1)), detail)
                else:
                    # and a shorter string assigned to it over non-zero contents
                    t = s[:len(s) // 2]
                    tu = encode(t, size)
                    oldf = [rnd.randrange(1, 100) for _ in range(len(fa))]
                    fill(ffi, fa, oldf, size)
                    do('assign', setattr, pf, 'f', t)
                    rep.stat('flex_member_assign')
                    if units_of(ffi, fa, size) != tu + [0] + oldf[len(tu) + 1:]:
                        rep.bad('assign-terminator:flexible-member', '%s f[] (old %r) <- %r '
                                'leaves %r' % (T, oldf, t, units_of(ffi, fa, size)), detail)
                # the string as a 'const T *' call argument: memcpy copies L+1 units out
                # of whatever the callee receives
                f2, lib = st['libs'][T]
                dst = f2.new(T + '[]', L + 2)
                fill(f2, dst, [0x7e] * (L + 2), size)
                do('call', lib.memcpy, dst, s, (L + 1) * size)
                rep.stat('call_argument')
                if (L + 1) * size > 512:
                    rep.stat('call_argument_over_512_bytes')
                if units_of(f2, dst, size) != units + [0, 0x7e]:
                    rep.bad('call-argument-units', "callee of f(const %s *) given %r sees %r" %
                            (T, s, units_of(f2, dst, size)), detail)
            elif op in ('string_maxlen', 'unpack'):
                # memory with embedded zeros
                total = L + 3
                mem = list(units) + [rnd.randrange(1, 100) for _ in range(3)]
                for _ in range(rnd.choice([0, 1, 1, 2])):
                    mem[rnd.randrange(total)] = 0
                if size == 2 and rnd.random() < 0.5:
                    # a surrogate pair anywhere (also across the end of the string part)
                    c = rnd.choice([0, 0xFFFFF, rnd.randrange(0x100000)])
                    pos = rnd.randrange(total - 1)
                    mem[pos] = 0xD800 | (c >> 10)
                    mem[pos + 1] = 0xDC00 | (c & 0x3FF)
                    rep.stat('memory_surrogate_pair_injected')
                # cut points between the two halves of a pair
                inpair = [i + 1 for i in range(total - 1)
                          if size == 2 and is_hi(mem[i]) and is_lo(mem[i + 1])]
                if inpair:
                    rep.stat('memory_with_surrogate_pair')
                mode = rnd.choice(SOURCE_MODES)
                arr, keepalive = make_source(st, T, size, mem, mode, rnd, SENT)
                rep.stat('source_' + mode)
                if len(arr) != total:
                    rep.bad('harness-exception', 'source %s has length %d != %d' %
                            (mode, len(arr), total), detail)
                ptr = ffi.cast(T + ' *', arr)
                rep.case((T, op, tuple(mem)), nontrivial=L >= 1,
                         sample={'T': T, 'op': op, 'units': mem[:20], 'source': mode})
                if op == 'string_maxlen':
                    z = mem.index(0) if 0 in mem else total
                    exp = decode(mem[:z], size)
                    got = do('string', ffi.string, arr)
                    if z == total:
                        rep.stat('string_array_without_zero_' + mode)
                    if got != exp:
                        rep.bad('string-array', '%s[%d] (%s) units %r: string() = %r, expected %r'
                                % (T, total, mode, mem, got, exp), detail)
                    # an explicit maxlen is the caller's bound (as in C): values
                    # beyond the array length are outside the statement
                    for ml in sorted({0, 1, z - 1, z, z + 1, total - 1, total,
                                      rnd.randrange(0, total + 1)} | set(inpair)):
                        if ml < 0 or ml > total:
                            continue
                        e = decode(mem[:min(z, ml, total)], size)
                        if rnd.random() < 0.5:
                            g = do('string', ffi.string, arr, ml)
                        else:
                            g = do('string', ffi.string, arr, maxlen=ml)
                        rep.stat('string_maxlen_calls')
                        if ml in inpair and ml <= z:
                            rep.stat('maxlen_cuts_surrogate_pair')
                        if g != e:
                            rep.bad('string-maxlen-array', '%s[%d] (%s) units %r: '
                                    'string(maxlen=%d) = %r, expected %r' %
                                    (T, total, mode, mem, ml, g, e), detail)
                        if ml <= total:   # pointers do not know their length
                            g = do('string', ffi.string, ptr, ml)
                            if g != e:
                                rep.bad('string-maxlen-pointer', '%s* units %r: string(maxlen=%d)'
                                        ' = %r, expected %r' % (T, mem, ml, g, e), detail)
                    if 0 in mem:
                        g = do('string', ffi.string, ptr)
                        if g != exp:
                            rep.bad('string-pointer', '%s* units %r: string() = %r, expected %r'
                                    % (T, mem, g, exp), detail)
                else:
                    for k in sorted({0, 1, L, total, rnd.randrange(0, total + 1)} | set(inpair)):
                        cut = mem[:k]
                        if k in inpair:
                            rep.stat('unpack_cuts_surrogate_pair')
                        e = decode(cut, size)
                        if T == 'signed char':     # an integer type for unpack()
                            e = [u - 256 if u > 127 else u for u in cut]
                        elif T == 'unsigned char':
                            e = list(cut)
                        for src in (arr, ptr):
                            g = do('unpack', ffi.unpack, src, k)
                            rep.stat('unpack_calls')
                            if g != e or len(g if isinstance(g, list) else
                                             encode(g, size)) != k:
                                rep.bad('unpack-length', '%s units %r: unpack(%d) = %r, expected '
                                        '%r' % (T, mem, k, g, e), detail)
                del keepalive
            elif op == 'assign':
                N = max(0, L + dn)
                old = [rnd.randrange(1, min(maxu, 0xD7FF)) for _ in range(N)]
                fits = L <= N
                exp_units = (units + ([0] if L < N else []) + old[L + 1:]) if fits else old
                extra = rnd.choice(('structinit', 'sliceitem', 'nestedinit'))
                for path in ('new', 'item', 'field', 'ptr', extra):
                    rep.case((T, op, path, payload, N), nontrivial=L >= 1,
                             sample={'T': T, 'op': op, 'path': path, 's': repr(s)[:40], 'N': N})
                    rep.stat('assign_' + path)
                    if fits and L < N:
                        rep.stat('assign_shorter')
                    exc = None
                    now = None
                    changed = False      # a rejected assignment changed memory
                    if path == 'new':
                        try:
                            a = ffi.new('%s[%d]' % (T, N), s)
                            now = units_of(ffi, a, size)
                        except Exception as e:
                            exc = type(e).__name__
                        e_units = (units + [0] * (N - L)) if fits else None
                    elif path == 'nestedinit':
                        # rows of T[3][N] initialized from a list of strings
                        try:
                            a = ffi.new('%s[3][%d]' % (T, N), [s, s])
                            allu = units_of(ffi, a, size)
                            now = allu[N:2 * N]
                            if allu[:N] != now or allu[2 * N:] != [0] * N:
                                rep.bad('assign-neighbour', '%s[3][%d] from [%r, %r] stores %r'
                                        % (T, N, s, s, allu), detail)
                        except Exception as e:
                            exc = type(e).__name__
                        e_units = (units + [0] * (N - L)) if fits else None
                    elif path == 'structinit':
                        # struct initializer (dict or list) on memory that is not zeroed
                        nm = struct_for(st, T, N)
                        init = {'f': s, 'g': SENT} if rnd.random() < 0.5 else [b'a', s, SENT]
                        try:
                            sp = st['dirty']('struct %s *' % nm, init)
                            now = units_of(ffi, sp.f, size) if N else []
                            if sp.g != SENT or sp.a != b'a' and isinstance(init, list):
                                rep.bad('assign-neighbour', 'struct initializer %s f[%d] = %r '
                                        'changed another field' % (T, N, s), detail)
                        except Exception as e:
                            exc = type(e).__name__
                        e_units = (units + ([0] if L < N else []) +
                                   [DIRTY] * (N - L - 1)) if fits else None
                    else:
                        if path in ('item', 'sliceitem'):
                            outer = ffi.new('%s[3][%d]' % (T, N))
                            fill(ffi, outer, [7] * N + old + [9] * N, size)
                            try:
                                if path == 'item':
                                    outer[1] = s
                                else:
                                    outer[1:2] = [s]
                            except Exception as e:
                                exc = type(e).__name__
                            allu = units_of(ffi, outer, size)
                            now = allu[N:2 * N]
                            if allu[:N] != [7] * N or allu[2 * N:] != [9] * N:
                                rep.bad('assign-neighbour', '%s[3][%d] item 1 = %r changed '
                                        'neighbours' % (T, N, s), detail)
                        elif path == 'field':
                            sp = ffi.new('struct %s *' % struct_for(st, T, N))
                            if N:
                                fill(ffi, sp.f, old, size)
                            sp.g = SENT
                            try:
                                sp.f = s
                            except Exception as e:
                                exc = type(e).__name__
                            now = units_of(ffi, sp.f, size) if N else []
                            if sp.g != SENT:
                                rep.bad('assign-neighbour', 'struct field %s f[%d] = %r changed '
                                        'the next field' % (T, N, s), detail)
                        else:
                            a = ffi.new('%s[%d]' % (T, N))
                            if N:
                                fill(ffi, a, old, size)
                            pp = ffi.cast('%s(*)[%d]' % (T, N), a)
                            try:
                                pp[0] = s
                            except Exception as e:
                                exc = type(e).__name__
                            now = units_of(ffi, a, size)
                        e_units = exp_units if fits else None
                        changed = now != old
                    if fits:
                        if exc:
                            rep.bad('assign-raised:' + path, '%s[%d] <- %r raised %s' %
                                    (T, N, s, exc), detail)
                        elif now != e_units:
                            mech = 'assign-terminator' if (L < N and now[:L] == units and
                                                           now[L] != 0) else 'assign-content'
                            rep.bad('%s:%s' % (mech, path), '%s[%d] (old %r) <- %r via %s leaves '
                                    '%r, expected %r' % (T, N, old, s, path, now, e_units), detail)
                    else:
                        if exc != 'IndexError':
                            rep.bad('assign-too-long:' + path, '%s[%d] <- %r (%d units) via %s: '
                                    '%s' % (T, N, s, L, path, exc or 'accepted'), detail)
                        elif changed:
                            rep.bad('assign-too-long-changed-memory:' + path,
                                    '%s[%d] <- too long %r changed memory' % (T, N, s), detail)
        except Raised as r:
            rep.bad('raised:' + r.what, '%s on an in-scope input (%s, %s, %r) raised %s: %s' %
                    (r.what, T, op, s[:40], type(r.exc).__name__, str(r.exc)[:200]), detail)
        except Exception as e:
            import traceback
            rep.bad('harness-exception', traceback.format_exc()[-800:], detail)
    return rep.result()


def judge(ctx, setup, case, obs):
    def rp(detail):
        c = dict(case)
        c['items'] = [detail]
        return c
    core.absorb(ctx, case, obs, rp)
