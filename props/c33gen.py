"""The (cdef, C source) pair generator of C33: a frozen copy of the agreement generator
of props/c12.py (C33 must not change when the C12 check is extended)."""
import random



FT = [('char', 1), ('short', 2), ('int', 4), ('long', 8), ('long long', 8), ('unsigned char', 1),
      ('unsigned int', 4), ('float', 4), ('double', 8), ('void *', 8), ('int8_t', 1),
      ('uint16_t', 2), ('int64_t', 8)]


ARITH = ['int', 'unsigned int', 'short', 'long', 'unsigned long long', 'signed char', 'double',
         'float', '_Bool', 'uint16_t', 'unsigned char', 'long long', 'unsigned long', 'int8_t']

INT_RANGE = {'int': (4, 1), 'unsigned int': (4, 0), 'short': (2, 1), 'long': (8, 1),
             'unsigned long long': (8, 0), 'signed char': (1, 1), 'uint16_t': (2, 0),
             'unsigned char': (1, 0), 'long long': (8, 1), 'unsigned long': (8, 0), 'int8_t': (1, 1)}


def render_struct(name, fields, dots=False):
    fs = ' '.join('%s %s%s;' % (T, fn, '[%d]' % n if n else '') for fn, (T, sz), n in fields)
    return 'struct %s { %s%s };' % (name, fs, ' ...;' if dots else '')


def gen_source(seed):
    rnd = random.Random(seed)
    items = []
    for i in range(16):
        nf = rnd.choice([1, 2, 3, 3, 4, 6])
        fields = [('f%d' % j, rnd.choice(FT), rnd.choice([0, 0, 0, 3])) for j in range(nf)]
        items.append({'kind': 'struct', 'name': 's%d' % i, 'fields': fields})
    for i in range(8):
        v = rnd.choice([0, 1, 42, 255, 65536, 2 ** 31 - 1, rnd.randint(-10 ** 6, 10 ** 6)])
        form = rnd.choice(['define', 'static'])
        if form == 'define':
            v = abs(v)
        items.append({'kind': 'const', 'name': 'K%d' % i, 'value': v, 'form': form})
    for i in range(4):
        vals = []
        cur = rnd.randint(-5, 5)
        for j in range(rnd.choice([2, 3, 4])):
            vals.append(('E%d_%d' % (i, j), cur))
            cur += rnd.choice([1, 1, 2, 10])
        items.append({'kind': 'enum', 'name': 'e%d' % i, 'values': vals})
    for i in range(10):
        args = [rnd.choice(ARITH) for _ in range(rnd.randrange(0, 4))]
        items.append({'kind': 'func', 'name': 'fn%d' % i, 'args': args, 'ret': rnd.choice(ARITH),
                      'k': rnd.randint(1, 9)})
    for i in range(6):
        items.append({'kind': 'glob', 'name': 'g%d' % i, 'type': rnd.choice(ARITH[:6] + ARITH[10:] + ['double']),
                      'init': rnd.randint(1, 100)})
    return items


def c_source(items, packed=False):
    out = ['#include <stdint.h>', '#include <stddef.h>']
    if packed:
        out.append('#pragma pack(1)')
    for it in items:
        k = it['kind']
        if k == 'struct':
            out.append(render_struct(it['name'], it['fields']))
            out.append('size_t sz_%s(void) { return sizeof(struct %s); }' % (it['name'], it['name']))
            for fn, _, _ in it['fields']:
                out.append('size_t of_%s_%s(void) { return offsetof(struct %s, %s); }' %
                           (it['name'], fn, it['name'], fn))
        elif k == 'const':
            if it['form'] == 'define':
                out.append('#define %s %d' % (it['name'], it['value']))
            else:
                out.append('static const int %s = %d;' % (it['name'], it['value']))
        elif k == 'enum':
            out.append('enum %s { %s };' % (it['name'], ', '.join('%s = %d' % v for v in it['values'])))
        elif k == 'func':
            params = ', '.join('%s a%d' % (a, i) for i, a in enumerate(it['args'])) or 'void'
            terms = ['%dLL' % it['k']] + ['(%d * (long long)a%d)' % (i + 2, i)
                                          for i in range(len(it['args']))]
            body = 'long long acc = %s;' % ' + '.join(terms)
            if it['ret'] == '_Bool':
                body += ' return (acc & 1) != 0;'
            else:
                body += ' return (%s)acc;' % it['ret']
            out.append('%s %s(%s) { %s }' % (it['ret'], it['name'], params, body))
        elif k == 'glob':
            T, n = it['type'], it['name']
            out.append('%s %s = %d;' % (T, n, it['init']))
            out.append('%s get_%s(void) { return %s; }' % (T, n, n))
            out.append('void set_%s(%s v) { %s = v; }' % (n, T, n))
            out.append('void *addr_%s(void) { return &%s; }' % (n, n))
    return '\n'.join(out) + '\n'


def cdef_text(items, mutated=None, dots=False):
    out = []
    for idx, it in enumerate(items):
        k = it['kind']
        m = (mutated or {}).get(idx)
        if k == 'struct':
            fields = m['fields'] if m else it['fields']
            out.append(render_struct(it['name'], fields, dots=dots and bool(m)))
            if not mutated:
                out.append('size_t sz_%s(void);' % it['name'])
                for fn, _, _ in it['fields']:
                    out.append('size_t of_%s_%s(void);' % (it['name'], fn))
        elif k == 'const':
            v = m['value'] if m else it['value']
            if dots and m:
                out.append('#define %s ...' % it['name'] if it['form'] == 'define' else
                           'static const int %s;' % it['name'])
            elif it['form'] == 'define':
                out.append('#define %s %d' % (it['name'], v))
            else:
                out.append('static const int %s = %d;' % (it['name'], v))
        elif k == 'enum':
            vals = m['values'] if m else it['values']
            if dots and m:
                out.append('enum %s { %s, ... };' % (it['name'], ', '.join(
                    '%s = ...' % n if (n, v) not in it['values'] else '%s = %d' % (n, v)
                    for n, v in vals)))
            else:
                out.append('enum %s { %s };' % (it['name'], ', '.join('%s = %d' % v for v in vals)))
        elif k == 'func' and not mutated:
            out.append('%s %s(%s);' % (it['ret'], it['name'], ', '.join(it['args']) or 'void'))
        elif k == 'glob' and not mutated:
            T, n = it['type'], it['name']
            out.append('%s %s; %s get_%s(void); void set_%s(%s v); void *addr_%s(void);' %
                       (T, n, T, n, n, T, n))
    return '\n'.join(out) + '\n'


def argval(rnd, T):
    if T == '_Bool':
        return rnd.choice([True, False])
    if T in ('double', 'float'):
        return float(rnd.randint(-1000, 1000))
    size, signed = INT_RANGE[T]
    lo, hi = (-(1 << (8 * size - 1)), (1 << (8 * size - 1)) - 1) if signed else (0, (1 << 8 * size) - 1)
    return rnd.choice([lo, hi, 0, 1, rnd.randint(lo, hi)])
