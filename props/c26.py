"""C26 -- ffi.init_once runs the initializer once under any interleaving.

Event log + offline checker.  A scenario = 1-6 threads x 1-2 FFI objects x 1-3
tags x 1-3 rounds of ffi.init_once() calls on the Python implementation
(cffi.FFI), the C one (_cffi_backend.FFI) or the ffi object of a compiled
out-of-line module; the unit the property speaks about is a *slot* = (FFI
object, tag).  Scripted initializers: succeed / raise / sleep / yield, and
*nest* (the initializer of slot g calls init_once for slots > g, on the same or
the other FFI object; strictly increasing, so correct code cannot dead-lock).

Input classes (each has a counter in the evidence):
  * tags: one shared object per tag; a fresh equal-but-not-identical object per
    call (str, tuple); numerically equal keys of different types (int / float /
    complex); falsy tags (0, '', (), None, b'', frozenset()); tag objects whose
    __hash__/__eq__ yield (GIL release points inside the dict operations),
    shared or fresh per call; tags that all collide on one hash value;
  * results: unique tuples, None / False / 0 / empty containers, tuples that
    look like a cache entry, an exception *instance* returned normally;
    the returned object is compared by identity with the completed f's result;
  * exceptions: Exception subclasses, KeyError(tag), BaseException subclasses
    (KeyboardInterrupt, SystemExit, GeneratorExit, own), StopIteration,
    MemoryError, ...; the propagated object is compared by identity with the
    one the caller's own f raised; non-callable 'func' (TypeError from the
    call itself, nothing may be cached);
  * entry points: positional, keyword (func=, tag=), mixed, unbound method;
    callables: function, functools.partial, callable object, bound method.

Schedule pressure: 1 us switch interval, sys.monitoring LINE events inside
FFI.init_once() that yield at PRNG-chosen lines (Python version), yielding
tags and sleeping initializers (C version: the real GIL-release points).
Every event goes to one log under one lock with a logical clock; the checker is
a deterministic pass over the log.

"No call blocks forever": decided on logical evidence only.  (a) inside the
child: the log stopped advancing, the last event of every unfinished thread
is 'call' (it is inside init_once itself, not in initializer code), and
every one of these threads is asleep in the kernel (state S) with a CPU time
that does not advance, for 5 s of consecutive samples.  (b) from the parent,
for dead-locks that take the GIL with them (the child's own watchdog cannot
run then): over 8 s of consecutive samples the child's heartbeat counter
(written by its main thread every 50 ms) and the per-thread last-event bytes
(written by the threads themselves) did not change, at least one scenario
thread is inside init_once itself (last event 'call') and asleep in the
kernel with constant CPU time, no thread is asleep anywhere else (e.g. inside
an initializer), and every other thread including the main thread *was
scheduled* (it spent >= 50 ms of CPU time in that window, spinning on the GIL
at the 1 us switch interval) without being able to make a single step - so it
is the GIL they cannot get, not CPU starvation by machine load.  The
wall-clock watchdog alone still gives 'inconclusive'.

A sample of the C-implementation scenarios is repeated on the TSan build
(deciding only for reports with a frame inside ffi_init_once).
"""
import sys, os, time, threading, random, json, glob, signal, functools
from vlib import core

RULE = ("case = one scenario (implementation py|c|cmod, 1-6 threads, 1-2 FFI objects, 1-3 tags, "
        "1-3 rounds, tag class, per call: initializer behaviour (result class / exception class / "
        "nested init_once calls / sleeps), entry point, callable kind; yield-injection seed); "
        "distinct = distinct interleaving signature (sequence of (thread, event, slot) in log "
        "order); non-trivial = at least two threads called init_once for the same (FFI, tag) "
        "while no result was cached")
ASSUMPTIONS = ["'no call blocks forever unless an f does' is decided on logical evidence: a scenario is a deadlock only if every unfinished thread is inside init_once itself (last event 'call': not in initializer code), the log stopped advancing, and all these threads are asleep in the kernel with constant CPU time over 5 s of samples (in-child), or - when the GIL is blocked too - heartbeat and per-thread last events unchanged over 8 s of samples while the threads inside init_once are asleep with constant CPU time and all other threads (main thread included) consumed CPU time without making a step (parent-side monitor); the wall-clock watchdog alone gives 'inconclusive'",
               "initializers nest only towards higher slot numbers, so that a correct implementation (one lock per (FFI, tag)) has no cyclic wait",
               "all interleavings cannot be enumerated by runtime monitoring: reach comes from yield injection, not from a model"]

DEADLOCK_SECS = 5.0       # in-child: consecutive evidence needed
FREEZE_SECS = 8.0         # parent-side: consecutive evidence needed
SCENARIO_WATCHDOG = 30.0


# ---------------------------------------------------------------------------
# /proc helpers (parent and child)

def task_states(pid, tids, missing_ok=False):
    """[(state, utime+stime)] of the given threads; a thread that is gone makes
    the whole result None (or its entry None with missing_ok)"""
    out = []
    for tid in tids:
        try:
            with open('/proc/%s/task/%d/stat' % (pid, tid)) as f:
                s = f.read()
            fields = s[s.rindex(')') + 2:].split()
            out.append((fields[0], int(fields[11]) + int(fields[12])))
        except (OSError, ValueError, IndexError):
            if not missing_ok:
                return None
            out.append(None)
    return out


def task_wchan(pid, tid):
    try:
        with open('/proc/%s/task/%d/wchan' % (pid, tid)) as f:
            return f.read().strip()
    except OSError:
        return '?'


# ---------------------------------------------------------------------------
# parent side

class FreezeMonitor(threading.Thread):
    """Watches the heartbeat files of the children under `root`; decides
    'frozen' on the evidence described in the module docstring, records the
    verdict and kills that one child (it would never finish)."""

    def __init__(self, root):
        threading.Thread.__init__(self, daemon=True)
        self.root = root
        self.verdicts = []
        self.stop_ev = threading.Event()

    def run(self):
        track = {}
        while not self.stop_ev.wait(0.5):
            for hb in glob.glob(os.path.join(self.root, 'run-*', '*.wd', 'c26_hb')):
                try:
                    with open(hb, 'rb') as f:
                        rec = json.loads(f.read(2048).decode().strip())
                    with open(hb[:-2] + 'ts', 'rb') as f:
                        ts = f.read(rec['nthreads'])
                except (OSError, ValueError, KeyError):
                    track.pop(hb, None)
                    continue
                if not rec.get('active') or len(ts) != rec['nthreads']:
                    track.pop(hb, None)
                    continue
                # tids[0] = main thread, tids[1 + t] = scenario thread t
                sts = task_states(rec['pid'], rec['tids'], missing_ok=True)
                if sts[0] is None:
                    track.pop(hb, None)
                    continue
                key = (rec['pid'], rec['seed'], rec['ctr'], ts, tuple(x is None for x in sts))
                now = time.monotonic()
                prev = track.get(hb)
                if prev is None or prev['key'] != key:
                    # something advanced (heartbeat, an event, a thread finished): start over
                    track[hb] = {'key': key, 'cpu0': [x and x[1] for x in sts], 't0': now, 'n': 0,
                                 'asleep': [x is not None and x[0] == 'S' for x in sts]}
                    continue
                prev['n'] += 1
                for i, x in enumerate(sts):
                    if x is not None and not (x[0] == 'S' and x[1] == prev['cpu0'][i]):
                        prev['asleep'][i] = False
                if now - prev['t0'] < FREEZE_SECS or prev['n'] < 10:
                    continue
                # nothing advanced for FREEZE_SECS.  Every thread must be either asleep in the
                # kernel the whole time with constant CPU time, or have been *scheduled* plenty
                # (>= 50 ms of CPU) without being able to log an event / tick the heartbeat: then
                # it is the GIL it cannot get, not the machine's load.  The asleep ones must all
                # be inside init_once itself (last event 'call'), not in initializer code.
                live = [i for i, x in enumerate(sts) if x is not None]
                spun = [i for i in live if not prev['asleep'][i] and
                        sts[i][1] - prev['cpu0'][i] >= 5]
                asleep = [i for i in live if prev['asleep'][i]]
                parked = [i for i in asleep if i >= 1 and ts[i - 1:i] == b'c']
                # ('-' = still at the start gate, waiting for a notify of a thread that spins)
                other_asleep = [i for i in asleep if i >= 1 and ts[i - 1:i] not in (b'c', b'-')]
                if len(spun) + len(asleep) == len(live) and parked and not other_asleep:
                    self.freeze(hb, rec, now - prev['t0'], prev['n'],
                                {'parked_threads': [i - 1 for i in parked],
                                 'threads_scheduled_without_progress':
                                     ['main' if i == 0 else i - 1 for i in spun],
                                 'cpu_ticks_spent': [sts[i][1] - prev['cpu0'][i] for i in live],
                                 'last_events': ts.decode('latin-1')})
                    track.pop(hb, None)
                elif os.environ.get('C26_DEBUG') and prev['n'] % 10 == 0:
                    sys.stderr.write('c26 monitor: no verdict after %.0f s: seed %s ts=%r states=%r '
                                     'asleep=%r cpu0=%r\n' % (now - prev['t0'], rec['seed'], ts, sts,
                                                              prev['asleep'], prev['cpu0']))

    def freeze(self, hb, rec, secs, n, evidence):
        pid = rec['pid']
        try:
            with open('/proc/%d/cmdline' % pid, 'rb') as f:
                cmd = f.read()
        except OSError:
            return
        if b'vlib.child' not in cmd or b'c26' not in cmd:
            return
        wch = [task_wchan(pid, rec['tids'][1 + t]) for t in evidence['parked_threads']]
        stacks = ''
        try:
            with open(os.path.join(os.path.dirname(hb), 'c26_stacks.txt'), errors='replace') as f:
                stacks = f.read()[-2500:]
        except OSError:
            pass
        self.verdicts.append({'seed': rec['seed'], 'impl': rec['impl'], 'pid': pid,
                              'secs': round(secs, 1), 'samples': n, 'wchan': wch,
                              'evidence': evidence, 'stacks': stacks, 'used': False})
        try:
            os.kill(pid, signal.SIGKILL)
        except OSError:
            pass


def run_monitored(ctx, setup, cases, variant, nproc, timeout=900):
    mon = FreezeMonitor(ctx.tmp)
    mon.start()
    try:
        obs = core.run_cases(ctx, 'c26', setup, cases, variant=variant, nproc=nproc,
                             timeout=timeout)
    finally:
        mon.stop_ev.set()
        mon.join(5)
    return obs, mon.verdicts


def frozen_case(ctx, case, o, verdicts):
    """True if this case's child was killed by the freeze monitor (reported here)"""
    if not (isinstance(o, dict) and '_crash' in o):
        return False
    for v in verdicts:
        if not v['used'] and v['seed'] in case['seeds']:
            v['used'] = True
            ctx.count('process_freezes')
            ctx.violation('deadlock-with-gil-held:' + v['impl'],
                          'scenario %d (%s): the whole process stopped inside the scenario for '
                          '%.1f s (%d samples): no event was logged and the main thread\'s 50 ms '
                          'heartbeat did not advance; thread(s) %s are inside init_once (last '
                          'event "call"), asleep in the kernel (wchan %s) with constant CPU time; '
                          'all other threads %s were scheduled (CPU ticks spent per thread: %s) '
                          'without being able to make a step, i.e. they cannot get the GIL: a '
                          'thread blocks in init_once while holding the GIL, so the running '
                          'initializer can never finish.  last events per thread: %r\n'
                          'stacks (faulthandler, after 6 s):\n%s'
                          % (v['seed'], v['impl'], v['secs'], v['samples'],
                             v['evidence']['parked_threads'], sorted(set(v['wchan'])),
                             v['evidence']['threads_scheduled_without_progress'],
                             v['evidence']['cpu_ticks_spent'], v['evidence']['last_events'],
                             v['stacks']),
                          {'seeds': [v['seed']], 'only': case.get('only')})
            return True
    return False


def generate(ctx):
    rng = ctx.rng('gen')
    n = ctx.scale(1200, 40000)
    per = 100
    seeds = [rng.getrandbits(40) for _ in range(n)]
    return None, [{'seeds': seeds[i:i + per]} for i in range(0, n, per)]


def build_module(ctx):
    """compiled out-of-line (API mode) module: its ffi object is the 'compiled C' FFI"""
    from vlib import modbuild
    d = os.path.join(ctx.tmp, 'mod')
    spec = {'name': '_c26mod', 'kind': 'api', 'cdef': 'int c26_id(int);',
            'source': 'int c26_id(int x) { return x; }', 'dir': d}
    try:
        res = modbuild.build_modules(ctx, [spec])['_c26mod']
    except Exception as e:
        res = {'ok': False, 'error': repr(e)}
    if not res.get('ok'):
        ctx.note('compiled module not built (%s): implementation "cmod" not exercised'
                 % str(res.get('error'))[:300])
        return None
    return d


def run(ctx):
    _, cases = generate(ctx)
    setup = {'moddir': build_module(ctx)}
    obs, verdicts = run_monitored(ctx, setup, cases, 'plain', 8)
    for c, o in zip(cases, obs):
        if frozen_case(ctx, c, o, verdicts):
            continue
        if core.std_obs_check(ctx, c, o, True, False):
            judge(ctx, setup, c, o)
    # TSan sample of the C implementation
    rng = ctx.rng('tsan')
    nt = ctx.scale(60, 1500)
    tcases = [{'seeds': [rng.getrandbits(40) for _ in range(30)], 'only': 'c'}
              for _ in range(max(1, nt // 30))]
    tobs, verdicts = run_monitored(ctx, {'moddir': None}, tcases, 'tsan', 2)
    for c, o in zip(tcases, tobs):
        if frozen_case(ctx, c, o, verdicts):
            continue
        if core.std_obs_check(ctx, c, o, True, False):
            judge(ctx, setup, c, o)
            ctx.count('tsan_scenarios', o['n'])
            if isinstance(o, dict) and o.get('_san'):
                for kind, frame, block in core.split_reports(o['_san']):
                    key = '%s@%s' % (kind, frame)
                    ctx.san_reports[key] = ctx.san_reports.get(key, 0) + 1
                    if 'ffi_init_once' in block:
                        ctx.violation('tsan-race-in-ffi_init_once', block[:1500], c)
    if not ctx.counters.get('raise_vs_success_races'):
        ctx.note('no scenario observed a raising initializer racing a succeeding one')
    for name in ('nested_calls', 'calls_with_fresh_equal_tag', 'raised_BaseException',
                 'completed_falsy_result', 'scenarios_two_ffi'):
        if not ctx.counters.get(name):
            ctx.note('input class never exercised: ' + name)


# ---------------------------------------------------------------------------
# child side

def child_setup(setup, wd):
    import _cffi_backend
    from cffi import FFI
    sys.setswitchinterval(1e-6)
    st = {'FFI': FFI, 'CFFI': _cffi_backend.FFI, 'MODFFI': None, 'hb_fd': None, 'ts_fd': None,
          'stackf': None, 'ctr': 0}
    if setup and setup.get('moddir'):
        sys.path.insert(0, setup['moddir'])
        import _c26mod
        st['MODFFI'] = _c26mod.ffi
    if wd:
        st['hb_fd'] = os.open(os.path.join(wd, 'c26_hb'), os.O_RDWR | os.O_CREAT, 0o644)
        st['ts_fd'] = os.open(os.path.join(wd, 'c26_ts'), os.O_RDWR | os.O_CREAT, 0o644)
        st['stackf'] = open(os.path.join(wd, 'c26_stacks.txt'), 'w')
    return st


def heartbeat(st, seed, impl, active, tids):
    if st.get('hb_fd') is None:
        return
    st['ctr'] += 1
    rec = {'pid': os.getpid(), 'seed': seed, 'impl': impl, 'active': active, 'tids': tids,
           'nthreads': len(tids) - 1, 'ctr': st['ctr']}
    os.pwrite(st['hb_fd'], json.dumps(rec).encode().ljust(2048), 0)


class Tag(object):
    """hashable tag whose __hash__/__eq__ yield (GIL release points inside the
    dict operations of both implementations); equality by key, never by
    identity; `h` forces the hash value (colliding tags)"""
    def __init__(self, key, rnd, h=None):
        self.key = key
        self.rnd = rnd
        self.h = hash(key) if h is None else h

    def __hash__(self):
        if self.rnd.random() < 0.3:
            time.sleep(0)
        return self.h

    def __eq__(self, other):
        if self.rnd.random() < 0.3:
            time.sleep(0)
        return isinstance(other, Tag) and other.key == self.key

    def __ne__(self, other):
        return not self.__eq__(other)

    def __repr__(self):
        return 'Tag(%r)' % (self.key,)


class Boom(Exception):
    pass


class BoomBase(BaseException):
    pass


class CallableObj(object):
    def __init__(self, fn):
        self.fn = fn

    def __call__(self):
        return self.fn()

    def meth(self):
        return self.fn()


EXC_KINDS = ['Boom', 'Boom', 'Boom', 'KeyError', 'BoomBase', 'KeyboardInterrupt', 'SystemExit',
             'GeneratorExit', 'StopIteration', 'TypeError', 'AttributeError', 'MemoryError',
             'LookupError', 'OSError']
EXC_CLASSES = {'Boom': Boom, 'BoomBase': BoomBase}
VAL_KINDS = ['uniq'] * 8 + ['none', 'none', 'false', 'zero', 'empty', 'empty', 'pair', 'excobj',
                            'list']
TAG_KINDS = ['shared', 'shared', 'fresh-str', 'fresh-tuple', 'numeric', 'falsy', 'yield',
             'yield-fresh', 'yield-fresh', 'collide']
FALSY_TAGS = [0, '', (), None, b'', frozenset()]


def make_exc(kind, tag):
    if kind in EXC_CLASSES:
        cls = EXC_CLASSES[kind]
    else:
        cls = getattr(__import__('builtins'), kind)
    return cls(tag) if kind == 'KeyError' else cls('c26 ' + kind)


def make_val(kind, uniq):
    if kind == 'uniq':
        return ('value',) + uniq
    if kind == 'none':
        return None
    if kind == 'false':
        return False
    if kind == 'zero':
        return 0
    if kind == 'empty':
        return [(), '', [], {}, b''][uniq[-1] % 5]
    if kind == 'pair':
        return [(False, threading.Lock()), (True, ('value',) + uniq), (False, None)][uniq[-1] % 3]
    if kind == 'excobj':
        return Boom('returned, not raised')
    return [uniq[-1]]


def tag_maker(kind, seed, i, rnd, persistent):
    """returns a function giving the tag object to pass for tag number i
    (the same or an equal one at every call)"""
    if kind == 'falsy' and persistent:
        kind = 'fresh-tuple'        # a long-lived FFI needs tags unique to the scenario
    if kind == 'shared':
        s = '%d/tag%d' % (seed, i) if persistent else 'tag%d' % i
        return lambda: s
    if kind == 'fresh-str':
        return lambda: '%d/tag%d' % (seed, i)          # a new str object every time
    if kind == 'fresh-tuple':
        return lambda: (seed, 'tag', i)
    if kind == 'numeric':
        base = (seed % 1000003) * 8 + i
        forms = [int, float, lambda b: complex(b, 0)]
        return lambda: forms[rnd.randrange(3)](base)
    if kind == 'falsy':
        v = FALSY_TAGS[(seed + i) % len(FALSY_TAGS)]
        return lambda: v
    if kind == 'yield':
        t = Tag((seed, i), rnd)
        return lambda: t
    if kind == 'yield-fresh':
        return lambda: Tag((seed, i), rnd)
    if kind == 'collide':
        return lambda: Tag((seed, i), rnd, h=seed & 0xffff)
    raise ValueError(kind)


def run_scenario(st, seed, only=None):
    rnd = random.Random(seed)
    impls = ['py', 'py', 'c', 'c', 'cmod'] if st.get('MODFFI') is not None else ['py', 'c']
    pick = rnd.choice(impls)
    impl = only if only in ('py', 'c', 'cmod') else pick
    if impl == 'cmod' and st.get('MODFFI') is None:
        impl = 'c'
    nthreads = rnd.choice([1, 2, 2, 2, 3, 3, 4, rnd.choice([5, 6])])
    nffi = rnd.choice([1, 1, 1, 2])
    ntags = rnd.choice([1, 1, 2, 3])
    rounds = rnd.choice([1, 2, 3])
    tagkind = rnd.choice(TAG_KINDS)
    nest_p = rnd.choice([0, 0.15, 0.4])
    if impl == 'py':
        ffis = [st['FFI']() for _ in range(nffi)]
    elif impl == 'c':
        ffis = [st['CFFI']() for _ in range(nffi)]
    else:
        ffis = [st['MODFFI']] + [st['CFFI']() for _ in range(nffi - 1)]
    tagrnd = random.Random(seed + 7)
    makers = [tag_maker(tagkind, seed, i, tagrnd, impl == 'cmod') for i in range(ntags)]
    nslots = nffi * ntags       # slot g = (ffis[g // ntags], tag g % ntags)
    log = []
    vals = []
    last = {}
    stats = {}
    loglock = threading.Lock()

    ts_fd = st.get('ts_fd')
    EVBYTE = {'call': b'c', 'f_enter': b'e', 'f_exit': b'x', 'return': b'r'}
    if ts_fd is not None:
        os.pwrite(ts_fd, b'-' * 16, 0)

    def ev(kind, t, g, *a):
        with loglock:
            log.append((len(log), kind, t, g) + a)
            last[t] = (kind, g)
        if ts_fd is not None:
            # last event of each thread, readable by the parent's freeze monitor
            os.pwrite(ts_fd, EVBYTE[kind], t)

    def stat(name, n=1):
        with loglock:
            stats[name] = stats.get(name, 0) + n

    def make_f(t, g, trnd, depth, tagobj):
        beh = trnd.choice(['ok', 'ok', 'raise', 'raise', 'ok'])
        pre, post = trnd.choice([0, 0, 1, 2]), trnd.choice([0, 0, 1])
        vkind = trnd.choice(VAL_KINDS)
        ekind = trnd.choice(EXC_KINDS)
        nested = []
        if g + 1 < nslots and trnd.random() < nest_p:
            nested = sorted(trnd.sample(range(g + 1, nslots), trnd.choice([1, 1, 2])
                                        if nslots - g - 1 >= 2 else 1))

        def f():
            ev('f_enter', t, g)
            for _ in range(pre):
                time.sleep(0 if trnd.random() < 0.7 else 0.0005)
            for h in nested:
                stat('nested_calls')
                stat('nested_calls_other_ffi' if h // ntags != g // ntags else
                     'nested_calls_same_ffi')
                stat('nested_depth_%d' % min(depth + 1, 3))
                do_call(t, h, trnd, depth + 1)
            if beh == 'raise':
                exc = make_exc(ekind, tagobj)
                stat('raised_' + ekind)
                if not isinstance(exc, Exception):
                    stat('raised_BaseException')
                ev('f_exit', t, g, 'exc', exc)
                raise exc
            with loglock:
                val = make_val(vkind, (t, g, len(vals)))
                vals.append(val)
                vid = len(vals) - 1
            for _ in range(post):
                time.sleep(0)
            stat('completed_result_' + vkind)
            if not val:
                stat('completed_falsy_result')
            ev('f_exit', t, g, 'ok', vid)
            return val
        return f

    def do_call(t, g, trnd, depth):
        ffi = ffis[g // ntags]
        tagobj = makers[g % ntags]()
        f = make_f(t, g, trnd, depth, tagobj)
        ckind = trnd.choice(['func', 'func', 'func', 'partial', 'obj', 'method', 'lambda',
                             'noncallable' if trnd.random() < 0.25 else 'func'])
        if ckind == 'partial':
            func = functools.partial(f)
        elif ckind == 'obj':
            func = CallableObj(f)
        elif ckind == 'method':
            func = CallableObj(f).meth
        elif ckind == 'lambda':
            func = lambda: f()
        elif ckind == 'noncallable':
            func = trnd.choice([None, 42, 'f'])
        else:
            func = f
        style = trnd.choice(['pos', 'pos', 'kw', 'mixed', 'unbound'])
        stat('entry_' + style)
        stat('callable_' + ckind)
        if tagkind in ('fresh-str', 'fresh-tuple', 'numeric', 'yield-fresh', 'collide'):
            stat('calls_with_fresh_equal_tag')
        ev('call', t, g, 'nc' if ckind == 'noncallable' else '')
        try:
            if style == 'pos':
                res = ffi.init_once(func, tagobj)
            elif style == 'kw':
                res = ffi.init_once(tag=tagobj, func=func)
            elif style == 'mixed':
                res = ffi.init_once(func, tag=tagobj)
            else:
                res = type(ffi).init_once(ffi, func, tagobj)
            ev('return', t, g, 'ok', res)
        except BaseException as e:
            ev('return', t, g, 'exc', e)

    start = threading.Barrier(nthreads)
    go = threading.Event()
    yseed = seed ^ 0x9e3779b9

    def body(t):
        trnd = random.Random(yseed + t)
        go.wait()       # the main thread has published the thread ids to the freeze monitor
        try:
            start.wait(10)
        except threading.BrokenBarrierError:
            pass
        for r in range(rounds):
            order = list(range(nslots))
            trnd.shuffle(order)
            for g in order:
                do_call(t, g, trnd, 0)
                if trnd.random() < 0.3:
                    time.sleep(0)
        with loglock:
            last[t] = ('done', -1)
        if ts_fd is not None:
            os.pwrite(ts_fd, b'd', t)
    # yield injection inside the Python implementation
    mon = None
    if impl == 'py' and hasattr(sys, 'monitoring'):
        import cffi.api
        code = cffi.api.FFI.init_once.__code__
        mon = sys.monitoring
        tool = 4
        yr = random.Random(yseed)
        try:
            mon.use_tool_id(tool, 'c26')
        except ValueError:
            mon.free_tool_id(tool)
            mon.use_tool_id(tool, 'c26')

        def on_line(c, line):
            if yr.random() < 0.35:
                time.sleep(0 if yr.random() < 0.8 else 0.0003)
        mon.register_callback(tool, mon.events.LINE, on_line)
        mon.set_local_events(tool, code, mon.events.LINE)
    threads = [threading.Thread(target=body, args=(t,), daemon=True) for t in range(nthreads)]
    import faulthandler
    if st.get('stackf') is not None:
        faulthandler.dump_traceback_later(6, repeat=False, file=st['stackf'])
    # signal noise: a periodic SIGALRM with a handler that does nothing; whichever thread's
    # lock wait the kernel interrupts must go on waiting (a wait that gives up and carries on
    # as if it held the lock runs a second initializer)
    import signal
    sig_noise = random.Random(seed ^ 0x51a).random() < 0.3 and \
        threading.current_thread() is threading.main_thread()
    noise_stop = [False]
    if sig_noise:
        signal.signal(signal.SIGALRM, lambda *a: None)
        signal.setitimer(signal.ITIMER_REAL, 0.002, 0.0015)
        stat('scenarios_with_signal_noise')

        def noise():
            # process-directed signals while the main thread and this thread block SIGALRM:
            # the kernel must deliver them to a worker thread, whose lock wait inside
            # init_once is then interrupted.  (signal.pthread_kill() on the workers was used
            # first: a detached thread that has just exited makes it undefined behaviour -
            # SIGSEGV on the thorough tier, seed 8.)
            signal.pthread_sigmask(signal.SIG_BLOCK, {signal.SIGALRM})
            while not noise_stop[0]:
                os.kill(os.getpid(), signal.SIGALRM)
                time.sleep(0.0002)
    for th in threads:
        th.start()
    if sig_noise:
        # the workers were created with SIGALRM unblocked; now block it here
        signal.pthread_sigmask(signal.SIG_BLOCK, {signal.SIGALRM})
        threading.Thread(target=noise, daemon=True).start()
    tids = [threading.main_thread().native_id] + [th.native_id for th in threads]
    heartbeat(st, seed, impl, 1, tids)
    go.set()
    t_start = time.monotonic()
    verdict = None
    last_n, ev_t0, ev_n, ev_cpu = -1, None, 0, None
    detail = ''
    while True:
        alive = [(t, th) for t, th in enumerate(threads) if th.is_alive()]
        if not alive:
            break
        now = time.monotonic()
        heartbeat(st, seed, impl, 1, tids)
        n = len(log)
        if n != last_n:
            last_n, stall_t0, ev_t0 = n, now, None
        elif now - stall_t0 > 1.0:
            # the log stopped: gather logical dead-lock evidence
            with loglock:
                parked = all(last.get(t, ('', 0))[0] == 'call' for t, th in alive)
            sts = task_states('self', [th.native_id for t, th in alive]) if parked else None
            ok = sts is not None and all(s == 'S' for s, c in sts)
            cpu = [c for s, c in sts] if ok else None
            if ok and ev_t0 is not None and cpu == ev_cpu and len(log) == last_n:
                ev_n += 1
                if now - ev_t0 >= DEADLOCK_SECS and ev_n >= 8:
                    verdict = 'deadlock'
                    with loglock:
                        detail = 'threads %s are inside init_once (last event "call" for slots ' \
                                 '%s), asleep with constant CPU time for %.1f s (%d samples); ' \
                                 'initializers entered and not left: %s' % (
                                     [t for t, th in alive], [last[t][1] for t, th in alive],
                                     now - ev_t0, ev_n,
                                     sorted((e[2], e[3]) for e in log if e[1] == 'f_enter' and not
                                            any(x[1] == 'f_exit' and x[2] == e[2] and x[3] == e[3]
                                                and x[0] > e[0] for x in log)))
                    break
            elif ok:
                ev_t0, ev_n, ev_cpu = now, 0, cpu
            else:
                ev_t0 = None
        if now - t_start > SCENARIO_WATCHDOG:
            verdict = 'watchdog'
            break
        alive[0][1].join(0.05 if now - t_start < 2 else 0.25)
    noise_stop[0] = True
    if sig_noise:
        signal.setitimer(signal.ITIMER_REAL, 0)
        time.sleep(0.001)
        signal.pthread_sigmask(signal.SIG_UNBLOCK, {signal.SIGALRM})
    heartbeat(st, seed, impl, 0, tids[:1])
    if st.get('stackf') is not None:
        faulthandler.cancel_dump_traceback_later()
    if mon is not None:
        mon.set_local_events(4, cffi.api.FFI.init_once.__code__, 0)
        mon.register_callback(4, mon.events.LINE, None)
        mon.free_tool_id(4)
    with loglock:
        log = list(log)
        stats = dict(stats)
    info = {'impl': impl, 'threads': nthreads, 'ffis': nffi, 'tags': ntags, 'rounds': rounds,
            'tagkind': tagkind, 'nslots': nslots, 'detail': detail}
    return info, log, vals, verdict, stats


def short(x):
    try:
        return repr(x)[:80]
    except BaseException:
        return '<%s>' % type(x).__name__


def check_log(log, nslots, vals):
    """deterministic pass over the event log; returns list of (mechanism, message)"""
    bad = []
    races = 0
    contended = False
    for g in range(nslots):
        evs = [e for e in log if e[3] == g]
        running = None
        ok_vid = None
        ok_at = None
        calls_open = {}
        own_exc = {}
        noncallable = {}
        raised = []
        for e in evs:
            kind, t = e[1], e[2]
            if kind == 'call':
                if any(True for x in calls_open) and ok_vid is None:
                    contended = True
                calls_open[t] = e[0]
                own_exc[t] = None
                noncallable[t] = e[4] == 'nc'
            elif kind == 'f_enter':
                if running is not None:
                    bad.append(('two-initializers-overlap', 'slot %d: f of thread %d entered at '
                                'step %d while f of thread %d is running' % (g, t, e[0], running)))
                if ok_vid is not None:
                    bad.append(('initializer-started-after-success', 'slot %d: f of thread %d '
                                'started at step %d after the successful completion at step %d'
                                % (g, t, e[0], ok_at)))
                running = t
            elif kind == 'f_exit':
                running = None
                if e[4] == 'ok':
                    if ok_vid is not None:
                        bad.append(('two-initializers-completed', 'slot %d: a second f completed '
                                    'normally at step %d (first at %d)' % (g, e[0], ok_at)))
                    else:
                        ok_vid, ok_at = e[5], e[0]
                else:
                    own_exc[t] = e[5]
                    raised.append(e[5])
                    if len(calls_open) > 1:
                        races += 1
            elif kind == 'return':
                calls_open.pop(t, None)
                if e[4] == 'ok':
                    if ok_vid is None:
                        bad.append(('returned-without-completion', 'slot %d: thread %d returned '
                                    '%s at step %d but no f completed normally' %
                                    (g, t, short(e[5]), e[0])))
                    elif e[5] is not vals[ok_vid]:
                        bad.append(('returned-other-value', 'slot %d: thread %d returned %s, the '
                                    'completed f returned %s' % (g, t, short(e[5]),
                                                                 short(vals[ok_vid]))))
                    if own_exc.get(t) is not None:
                        bad.append(('own-exception-swallowed', 'slot %d: thread %d\'s own f raised '
                                    '%s but init_once returned normally' %
                                    (g, t, short(own_exc[t]))))
                else:
                    exc = e[5]
                    if own_exc.get(t) is not None:
                        if exc is not own_exc[t]:
                            bad.append(('own-exception-replaced', 'slot %d: thread %d\'s own f '
                                        'raised %s but init_once raised %s' %
                                        (g, t, short(own_exc[t]), short(exc))))
                    elif any(exc is x for x in raised):
                        bad.append(('foreign-exception-propagated', 'slot %d: thread %d got the '
                                    'exception %s although its own f did not raise' %
                                    (g, t, short(exc))))
                    elif noncallable.get(t) and isinstance(exc, TypeError):
                        pass        # the call of the non-callable 'func' itself failed
                    else:
                        bad.append(('unexpected-exception', 'slot %d: thread %d: %s: %s' %
                                    (g, t, type(exc).__name__, short(exc))))
                own_exc[t] = None
        # a raising f must cache nothing: if no f ever completed normally, no ok return (above)
    return bad, races, contended


def child_case(st, case):
    rep = core.ChildRep()
    deadlocks = 0
    seeds = case['seeds']
    for k, seed in enumerate(seeds):
        info, log, vals, verdict, stats = run_scenario(st, seed, case.get('only'))
        impl = info['impl']
        sig = tuple((e[2], e[1], e[3]) for e in log)
        bad, races, contended = check_log(log, info['nslots'], vals)
        rep.case(sig, nontrivial=contended,
                 sample={'impl': impl, 'threads': info['threads'], 'ffis': info['ffis'],
                         'tags': info['tags'], 'rounds': info['rounds'],
                         'tagkind': info['tagkind'],
                         'log_head': [list(map(short, e[1:5])) for e in log[:14]]})
        rep.stat('scenarios_' + impl)
        rep.stat('tagkind_' + info['tagkind'])
        rep.stat('threads_%d' % info['threads'])
        if info['ffis'] > 1:
            rep.stat('scenarios_two_ffi')
        rep.stat('events', len(log))
        for name, n in stats.items():
            rep.stat(name, n)
        if races:
            rep.stat('raise_vs_success_races', races)
        if contended:
            rep.stat('contended_scenarios')
        if verdict == 'deadlock':
            deadlocks += 1
            rep.bad('deadlock:' + impl, info['detail'] + '; log tail %s | seed %d'
                    % ([tuple(map(short, e)) for e in log[-6:]], seed), seed)
        elif verdict == 'watchdog':
            rep.bad('harness-watchdog', 'scenario %d did not finish in %d s (inconclusive)'
                    % (seed, SCENARIO_WATCHDOG), seed)
        else:
            ncalls = sum(1 for e in log if e[1] == 'call')
            nret = sum(1 for e in log if e[1] == 'return')
            if ncalls != nret:
                rep.bad('call-without-return:' + impl, '%d calls, %d returns' % (ncalls, nret), seed)
        for mech, msg in bad:
            rep.bad('%s:%s' % (mech, impl), msg + ' | %s tags, seed %d' % (info['tagkind'], seed),
                    seed)
        if deadlocks >= 2 and k + 1 < len(seeds):
            # every dead-locked scenario costs seconds and leaves parked threads behind
            rep.stat('seeds_skipped_after_deadlocks', len(seeds) - k - 1)
            break
    return rep.result()


def judge(ctx, setup, case, obs):
    core.absorb(ctx, case, obs, lambda seed: {'seeds': [seed], 'only': case.get('only')})


def replay(ctx, data):
    case = data['case']
    setup = {'moddir': build_module(ctx)}
    obs, verdicts = run_monitored(ctx, setup, [case], 'plain', 1)
    print('observation:', str(obs[0])[:2000])
    if frozen_case(ctx, case, obs[0], verdicts):
        return
    if core.std_obs_check(ctx, case, obs[0], True, False):
        judge(ctx, None, case, obs[0])
