"""C26 -- ffi.init_once runs the initializer once under any interleaving.

Event log + offline checker.  Scenarios: 2-4 threads x 1-3 tags x 1-3 rounds
on the Python implementation (cffi.FFI) and the C one (_cffi_backend.FFI);
scripted initializers (succeed / raise / sleep / yield) so that raising and
succeeding calls race.  Schedule pressure: 1 us switch interval, sys.monitoring
LINE events inside FFI.init_once() that yield at PRNG-chosen lines (Python
version), tag objects whose __hash__/__eq__ yield and sleeping initializers (C
version: the real GIL-release points).  Every event goes to one log under one
lock with a logical clock; the checker is a deterministic pass over the log.
A sample of the C-implementation scenarios is repeated on the TSan build
(deciding only for reports with a frame inside ffi_init_once).
"""
import sys, os, time, threading, random
from vlib import core

RULE = ("case = one scenario (implementation py|c, 2-4 threads, 1-3 tags, 1-3 rounds, scripted "
        "initializer behaviour per call, yield-injection seed); distinct = distinct interleaving "
        "signature (sequence of (thread, event, tag) in log order); non-trivial = at least two "
        "threads called init_once for the same tag while no result was cached")
ASSUMPTIONS = ["'no call blocks forever unless an f does' is decided on logical evidence: a scenario is a deadlock only if every unfinished thread is parked in the lock acquisition of init_once while no initializer is running and the log stopped advancing; the wall-clock watchdog alone gives 'inconclusive'",
               "all interleavings cannot be enumerated by runtime monitoring: reach comes from yield injection, not from a model"]


def generate(ctx):
    rng = ctx.rng('gen')
    n = ctx.scale(1200, 40000)
    per = 100
    seeds = [rng.getrandbits(40) for _ in range(n)]
    return None, [{'seeds': seeds[i:i + per]} for i in range(0, n, per)]


def run(ctx):
    setup, cases = generate(ctx)
    obs = core.run_cases(ctx, 'c26', setup, cases, variant='plain', nproc=8, timeout=900)
    for c, o in zip(cases, obs):
        if core.std_obs_check(ctx, c, o, True, False):
            judge(ctx, setup, c, o)
    # TSan sample of the C implementation
    rng = ctx.rng('tsan')
    nt = ctx.scale(60, 1500)
    tcases = [{'seeds': [rng.getrandbits(40) for _ in range(30)], 'only': 'c'}
              for _ in range(max(1, nt // 30))]
    tobs = core.run_cases(ctx, 'c26', setup, tcases, variant='tsan', nproc=2, timeout=900)
    for c, o in zip(tcases, tobs):
        if core.std_obs_check(ctx, c, o, True, False):
            judge(ctx, setup, c, o)
            ctx.count('tsan_scenarios', o['n'])
            if isinstance(o, dict) and o.get('_san'):
                for kind, frame, block in core.split_reports(o['_san']):
                    key = '%s@%s' % (kind, frame)
                    ctx.san_reports[key] = ctx.san_reports.get(key, 0) + 1
                    if 'ffi_init_once' in block:
                        ctx.violation('tsan-race-in-ffi_init_once', block[:1500], c)
    if not ctx.counters.get('raise_vs_success_races'):
        ctx.note('no scenario observed a raising initializer racing a succeeding one')


def child_setup(setup, wd):
    import _cffi_backend
    from cffi import FFI
    sys.setswitchinterval(1e-6)
    return {'FFI': FFI, 'CFFI': _cffi_backend.FFI}


class Tag(object):
    """hashable tag whose __hash__/__eq__ yield (GIL release points inside the
    C implementation's dict operations)"""
    def __init__(self, n, rnd):
        self.n = n
        self.rnd = rnd

    def __hash__(self):
        if self.rnd.random() < 0.3:
            time.sleep(0)
        return hash(self.n)

    def __eq__(self, other):
        if self.rnd.random() < 0.3:
            time.sleep(0)
        return isinstance(other, Tag) and other.n == self.n


class Boom(Exception):
    pass


def run_scenario(st, seed, only=None):
    rnd = random.Random(seed)
    impl = only or rnd.choice(['py', 'c'])
    nthreads = rnd.choice([2, 2, 3, 4])
    ntags = rnd.choice([1, 1, 2, 3])
    rounds = rnd.choice([1, 2, 3])
    ffi = st['FFI']() if impl == 'py' else st['CFFI']()
    slow_tags = impl == 'c' and rnd.random() < 0.5
    tags = [Tag(i, random.Random(seed + i)) if slow_tags else 'tag%d' % i for i in range(ntags)]
    log = []
    loglock = threading.Lock()
    running = {}

    def ev(*a):
        with loglock:
            log.append((len(log),) + a)
    # script: (thread, round, tag) -> behaviour
    script = {}
    for t in range(nthreads):
        for r in range(rounds):
            for g in range(ntags):
                script[(t, r, g)] = (rnd.choice(['ok', 'ok', 'raise', 'raise', 'ok']),
                                     rnd.choice([0, 0, 1, 2]), rnd.choice([0, 0, 1]))
    counter = [0]

    def make_f(t, r, g):
        beh, pre, post = script[(t, r, g)]

        def f():
            ev('f_enter', t, g)
            for _ in range(pre):
                time.sleep(0 if rnd.random() < 0.7 else 0.0005)
            if beh == 'raise':
                ev('f_exit', t, g, 'exc')
                raise Boom((t, r, g))
            with loglock:
                counter[0] += 1
                val = ('value', t, r, g, counter[0])
            for _ in range(post):
                time.sleep(0)
            ev('f_exit', t, g, 'ok', val)
            return val
        return f
    start = threading.Barrier(nthreads)
    yseed = seed ^ 0x9e3779b9

    def body(t):
        trnd = random.Random(yseed + t)
        try:
            start.wait(10)
        except threading.BrokenBarrierError:
            pass
        for r in range(rounds):
            order = list(range(ntags))
            trnd.shuffle(order)
            for g in order:
                ev('call', t, g)
                try:
                    res = ffi.init_once(make_f(t, r, g), tags[g])
                    ev('return', t, g, 'ok', res)
                except Boom as e:
                    ev('return', t, g, 'exc', e.args[0])
                except BaseException as e:
                    ev('return', t, g, 'other', type(e).__name__ + ': ' + str(e)[:80])
                if trnd.random() < 0.3:
                    time.sleep(0)
    # yield injection inside the Python implementation
    mon = None
    if impl == 'py' and hasattr(sys, 'monitoring'):
        import cffi.api
        code = cffi.api.FFI.init_once.__code__
        mon = sys.monitoring
        tool = 4
        yr = random.Random(yseed)
        try:
            mon.use_tool_id(tool, 'c26')
        except ValueError:
            mon.free_tool_id(tool)
            mon.use_tool_id(tool, 'c26')

        def on_line(c, line):
            if yr.random() < 0.35:
                time.sleep(0 if yr.random() < 0.8 else 0.0003)
        mon.register_callback(tool, mon.events.LINE, on_line)
        mon.set_local_events(tool, code, mon.events.LINE)
    threads = [threading.Thread(target=body, args=(t,), daemon=True) for t in range(nthreads)]
    for th in threads:
        th.start()
    deadline = time.time() + 30
    for th in threads:
        th.join(max(0.1, deadline - time.time()))
    if mon is not None:
        mon.set_local_events(4, cffi.api.FFI.init_once.__code__, 0)
        mon.register_callback(4, mon.events.LINE, None)
        mon.free_tool_id(4)
    stuck = [th for th in threads if th.is_alive()]
    verdict = None
    if stuck:
        # logical deadlock evidence
        n0 = len(log)
        time.sleep(1.0)
        frames = sys._current_frames()
        inlock = 0
        for th in stuck:
            fr = frames.get(th.ident)
            names = []
            while fr is not None:
                names.append(fr.f_code.co_name)
                fr = fr.f_back
            if 'f' not in names:
                inlock += 1
        f_running = sum(1 for e in log if e[1] == 'f_enter') - \
            sum(1 for e in log if e[1] == 'f_exit')
        if len(log) == n0 and inlock == len(stuck) and f_running == 0:
            verdict = 'deadlock'
        else:
            verdict = 'watchdog'
    return impl, nthreads, ntags, rounds, log, verdict, slow_tags


def check_log(log, ntags):
    """deterministic pass over the event log; returns list of (mechanism, message)"""
    bad = []
    races = 0
    contended = False
    for g in range(ntags):
        evs = [e for e in log if e[3] == g]
        running = None
        ok_val = None
        ok_at = None
        calls_open = {}
        raised_own = {}
        for e in evs:
            kind, t = e[1], e[2]
            if kind == 'call':
                if any(True for x in calls_open) and ok_val is None:
                    contended = True
                calls_open[t] = e[0]
                raised_own[t] = False
            elif kind == 'f_enter':
                if running is not None:
                    bad.append(('two-initializers-overlap', 'tag %d: f of thread %d entered at '
                                'step %d while f of thread %d is running' % (g, t, e[0], running)))
                if ok_val is not None:
                    bad.append(('initializer-started-after-success', 'tag %d: f of thread %d '
                                'started at step %d after the successful completion at step %d'
                                % (g, t, e[0], ok_at)))
                running = t
            elif kind == 'f_exit':
                running = None
                if e[4] == 'ok':
                    if ok_val is not None:
                        bad.append(('two-initializers-completed', 'tag %d: a second f completed '
                                    'normally at step %d (first at %d)' % (g, e[0], ok_at)))
                    else:
                        ok_val, ok_at = tuple(e[5]), e[0]
                else:
                    raised_own[t] = True
                    if len(calls_open) > 1:
                        races += 1
            elif kind == 'return':
                calls_open.pop(t, None)
                if e[4] == 'ok':
                    if ok_val is None:
                        bad.append(('returned-without-completion', 'tag %d: thread %d returned '
                                    '%r at step %d but no f completed normally' %
                                    (g, t, e[5], e[0])))
                    elif tuple(e[5]) != ok_val:
                        bad.append(('returned-other-value', 'tag %d: thread %d returned %r, the '
                                    'completed f returned %r' % (g, t, e[5], ok_val)))
                    if raised_own.get(t):
                        bad.append(('own-exception-swallowed', 'tag %d: thread %d\'s own f raised '
                                    'but init_once returned normally' % (g, t)))
                elif e[4] == 'exc':
                    if not raised_own.get(t):
                        bad.append(('foreign-exception-propagated', 'tag %d: thread %d got the '
                                    'exception of %r although its own f did not raise' %
                                    (g, t, e[5])))
                else:
                    bad.append(('unexpected-exception', 'tag %d: thread %d: %s' % (g, t, e[5])))
                raised_own[t] = False
        # a raising f must cache nothing: if no f ever completed normally, no ok return (above)
    return bad, races, contended


def child_case(st, case):
    rep = core.ChildRep()
    for seed in case['seeds']:
        impl, nth, ntags, rounds, log, verdict, slow = run_scenario(st, seed, case.get('only'))
        sig = tuple((e[2], e[1], e[3]) for e in log)
        bad, races, contended = check_log(log, ntags)
        rep.case(sig, nontrivial=contended,
                 sample={'impl': impl, 'threads': nth, 'tags': ntags, 'rounds': rounds,
                         'log_head': [list(map(str, e[1:5])) for e in log[:14]]})
        rep.stat('scenarios_' + impl)
        rep.stat('events', len(log))
        if slow:
            rep.stat('scenarios_with_yielding_tag_hash')
        if races:
            rep.stat('raise_vs_success_races', races)
        if contended:
            rep.stat('contended_scenarios')
        if verdict == 'deadlock':
            rep.bad('deadlock:' + impl, 'all unfinished threads are parked in init_once while no '
                    'initializer runs; log tail %r' % (log[-6:],), seed)
        elif verdict == 'watchdog':
            rep.bad('harness-watchdog', 'scenario %d did not finish in 30 s (inconclusive)' % seed,
                    seed)
        else:
            ncalls = sum(1 for e in log if e[1] == 'call')
            nret = sum(1 for e in log if e[1] == 'return')
            if ncalls != nret:
                rep.bad('call-without-return:' + impl, '%d calls, %d returns' % (ncalls, nret), seed)
        for mech, msg in bad:
            rep.bad('%s:%s' % (mech, impl), msg + ' | seed %d' % seed, seed)
    return rep.result()


def judge(ctx, setup, case, obs):
    core.absorb(ctx, case, obs, lambda seed: {'seeds': [seed], 'only': case.get('only')})


def replay(ctx, data):
    case = data['case']
    obs = core.run_cases(ctx, 'c26', None, [case], variant='plain', nproc=1)
    print('observation:', str(obs[0])[:2000])
    if core.std_obs_check(ctx, case, obs[0], True, False):
        judge(ctx, None, case, obs[0])
