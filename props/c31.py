"""C31 -- comments, spacing, continuations and line directives do not change a cdef.

Metamorphic differential on the real cparser: a generated valid cdef is kept
as lines of tokens; "trivia" (comments, white space, backslash-newline inside
#define lines, line directives, removal of optional spaces) is inserted at
token boundaries only; the decorated text must give the same declarations,
the same emit_c_code()/emit_python_code() bytes and the same in-line facts
as the undecorated text.  A failing decoration is reduced to the single
insertion(s) that cause it; the mechanism is <kind>@<where>:<raises|differs>.
cparser._preprocess runs under an icontract postcondition (no trivia left).
"""
import os, sys, re, io, random, contextlib, warnings
from vlib import core, gen_cdef as GC

VARIANT = 'plain'
TIMEOUT = 1500
RULE = ("base = one generated cdef (3..14 declarations of vlib.gen_cdef: typedef chains over common "
        "types, nested aggregates with bitfields, enums, #define/static const constants, functions, "
        "globals, a vararg function; half of them plus 1..6 API-mode lines: '#define X ...', partial "
        "structs/enums, 'int...'/'float...'/'...' typedefs, '[...]' arrays, extern \"Python\" / "
        "\"Python+C\" single and grouped, __stdcall/WINAPI/__cdecl); about a third each also get: "
        "'#define X -N' lines ('-' and the number are two tokens), typedefs that define a common type "
        "name (uint8_t, size_t, ..) as first lines, several declarators in one typedef / extern / "
        "function declaration, a '#define' line inside a struct/union/enum body; the text reaches the "
        "parser as one cdef(), as two cdef() calls on one FFI cut at a declaration boundary, with "
        "packed=True, or as cdef(base); cdef(text, override=True) (base and decorated text the same "
        "way); decoration = 0..32 everyday "
        "insertions at random token boundaries (runs of space/tab/newline, /* */ comments single and "
        "multi-line holding //, *, quotes, '...', '#define' lines, cdef keywords, // comments, "
        "'# N \"file\"' / '#line N' lines on their own lines with hostile file names, optional space "
        "removed, backslash-newline and comments inside #define lines, a line directive in front of a "
        "#define line, missing final newline, text ending right after a // comment / block comment / "
        "line directive / token with no new-line at all; 6%: 10..40 more line directives as in "
        "'gcc -E' output) and in "
        "30% of decorations one 'exotic' insertion (form feed, vertical tab, CR, CRLF, comment with "
        "a line that looks like a line directive, file name holding cdef words, directive next to "
        "'...'/string/__stdcall tokens, multi-line comment or continuation in the head of a #define "
        "line); case = one decorated text compared with its base; distinct = decorated text; "
        "non-trivial = at least one insertion")
ASSUMPTIONS = [
    "trivia is inserted only between tokens, never inside a token or a string literal - except a "
    "backslash-newline (without following indentation) inside the value of a #define, which C "
    "splices away before tokenization; line directives stand on their own lines (ending in LF or "
    "CR LF) and never inside a #define line",
    "// comments do not end with a backslash (C would splice the next line into them)",
    "inside #define lines only spaces, tabs, comments and backslash-newline are inserted (C allows no "
    "other white space in a directive) and a #define stays the first token of its line",
    "form feed, vertical tab and CR / CRLF count as white space between tokens (C11 5.1.1.2, 6.4p3; "
    "CRLF is the text-file line end of Windows headers)",
    "API-mode ('...') bases are compared through the declarations and emit_c_code() only",
    "'-N' in '#define X -N' is the two C tokens '-' and 'N': spaces, comments and backslash-newline "
    "may stand between them, and no space is needed between the macro name and the '-'",
    "a text does not end with a backslash; when a way of calling cdef() (packed=True, redeclaration "
    "with override=True) is refused for the undecorated base, that base is checked through a plain "
    "cdef() instead (counter mode_fallback:*)"]

PRIM_WORDS = ('int', 'long', 'short', 'signed', 'unsigned', 'char', 'double', 'float')
DEFINE_GAPS = ['start', 'hash-define', 'define-name', 'name-value', 'end']
DEFINE_GAPS_NEG = ['start', 'hash-define', 'define-name', 'name-value', 'minus-number', 'end']


# ---------------------------------------------------------------------------
# base cdefs

def make_base(seed):
    rnd = random.Random(seed)
    p = 'm%d_' % (seed % 100000)
    c = GC.Ctx(rnd, prefix=p, nd=rnd.choice([3, 6, 10, 14]))
    lines = [d['text'] for d in c.items]
    lines.insert(rnd.randint(0, len(lines)), 'int %svf(int a0, ...);' % p)
    api = rnd.random() < 0.5
    if api:
        P = p.upper()
        extras = ['#define %sD1 ...' % P,
                  'struct %sp1 { int a; ...; };' % p,
                  'typedef struct { long x; char *y; ...; } %sp2_t;' % p,
                  'enum %spe { %sPE_A, %sPE_B = ..., %sPE_C, ... };' % (p, P, P, P),
                  'enum %spf { %sPF_A = 3, ... };' % (p, P),
                  'typedef int... %si_t;' % p,
                  'typedef unsigned long... %su_t;' % p,
                  'typedef double... %sf_t;' % p,
                  'typedef ... %sop_t;' % p,
                  'typedef ... *%sopp_t;' % p,
                  'extern int %sarr[...];' % p,
                  'struct %sa2 { char buf[...]; int n; ...; };' % p,
                  'typedef int %sa3_t[...];' % p,
                  'int %svf2(const char *fmt, ...);' % p,
                  'extern "Python" int %scb1(int, long);' % p,
                  'extern "Python+C" void %scb2(void);' % p,
                  'extern "Python" { int %scb3(int); short %scb4(void); }' % (p, p),
                  'static const int %sSC;' % P,
                  'static char *const %sSTR;' % P,
                  'int __stdcall %ssf(int);' % p,
                  'extern int (__stdcall *%sfp)(int);' % p,
                  'int WINAPI %swf(void);' % p,
                  'int __cdecl %scf(void);' % p,
                  'typedef int (WINAPI *%swfp_t)(int, int);' % p]
        for e in rnd.sample(extras, rnd.choice([1, 2, 3, 6])):
            lines.insert(rnd.randint(0, len(lines)), e)
    tags, extra_consts, glued = extend_base(random.Random('c31x/%d' % seed), p, lines)
    return c, lines, api, tags, extra_consts, glued


COMMON_DEFS = [('uint8_t', 'unsigned char'), ('int8_t', 'signed char'), ('uint16_t', 'unsigned short'),
               ('int32_t', 'int'), ('uint32_t', 'unsigned int'), ('int64_t', 'long'),
               ('uint64_t', 'unsigned long'), ('size_t', 'unsigned long'), ('ssize_t', 'long'),
               ('intptr_t', 'long'), ('uintptr_t', 'unsigned long'), ('ptrdiff_t', 'long')]
NEG_VALUES = ['-1', '-7', '-0x10', '-0777', '-2147483648', '-9223372036854775808', '-42L', '-0']


def extend_base(rnd, p, lines):
    """input classes of real headers that vlib.gen_cdef does not produce (own random stream, so
    that the other lines of a base do not depend on them): negative #define values, typedefs that
    define a common type name (first lines: _common_type_names must see the definition before a
    use), several declarators in one declaration, a #define line inside an aggregate / enum body.
    Returns (tags, [(constant name, value)], set of line numbers that continue a declaration)."""
    P = p.upper()
    tags, consts = [], []
    if rnd.random() < 0.35:
        tags.append('negative-define')
        for n in range(rnd.choice([1, 1, 2])):
            v = rnd.choice(NEG_VALUES)
            consts.append(('%sNEG%d' % (P, n), -int(v[1:].rstrip('L'), 0 if 'x' in v else
                                                    (8 if v[1:].startswith('0') and v != '-0' else 10))))
            lines.insert(rnd.randint(0, len(lines)), '#define %sNEG%d %s' % (P, n, v))
    if rnd.random() < 0.3:
        tags.append('multi-declarator')
        for e in rnd.sample(['typedef int %sma_t, *%smb_t, %smc_t[3];' % (p, p, p),
                             'typedef size_t %smd_t, (*%smf_t)(size_t, int);' % (p, p),
                             'extern int %smg1, *%smg2;' % (p, p),
                             'extern uint8_t %smg3[4], %smg4;' % (p, p),
                             'int %smh1(void), %smh2(int, uint16_t);' % (p, p)], rnd.choice([1, 2])):
            lines.insert(rnd.randint(0, len(lines)), e)
    if rnd.random() < 0.3:
        tags.append('common-type-typedef')
        for name, real in rnd.sample(COMMON_DEFS, rnd.choice([1, 2, 3])):
            lines.insert(0, rnd.choice(['typedef %s %s;', 'typedef %s %s, *%sp_%s;' % ('%s', '%s', p, name)])
                         % (real, name))
    glued = set()
    if rnd.random() < 0.3:
        cand = []
        for L, line in enumerate(lines):
            if line.startswith('#') or '{' not in line or 'extern "' in line:
                continue
            ms = [m for m in GC._TOKEN.finditer(line) if m.group(1).strip()]
            toks = [m.group(1) for m in ms]
            brace = paren = 0
            for i, t in enumerate(toks[:-1]):
                brace += (t == '{') - (t == '}')
                paren += (t in '([') - (t in ')]') if len(t) == 1 else 0
                if t in (';', ',') and brace >= 1 and paren == 0 and toks[i - 1] != '...' \
                        and toks[i + 1] != '...':
                    cand.append((L, ms[i].end(1)))
        if cand:
            tags.append('define-inside-body')
            L, pos = rnd.choice(cand)
            v = rnd.choice(['0x1f', '3', '-5', '077UL'])
            consts.append(('%sBD' % P, int(v.rstrip('UL'), 0 if 'x' in v else (8 if v[0] == '0' else 10))))
            lines[L:L + 1] = [lines[L][:pos], '#define %sBD %s' % (P, v), lines[L][pos:].lstrip()]
            glued = set([L + 1, L + 2])
    return tags, consts, glued


def tokclass(toks, i):
    """class of a 'special' token (one that a cparser regular expression looks at)"""
    t = toks[i]
    if t.startswith('"'):
        return 'string'
    if t in ('__stdcall', 'WINAPI'):
        return 'stdcall'
    if t == '__cdecl':
        return 'cdecl'
    if t in PRIM_WORDS:                  # 'unsigned long...': the whole chain is one regex match
        k = i
        while k < len(toks) and toks[k] in PRIM_WORDS:
            k += 1
        return 'dots-prim' if k < len(toks) and toks[k] == '...' else ''
    if t != '...':
        return ''
    prev = toks[i - 1] if i else ''
    nxt = toks[i + 1] if i + 1 < len(toks) else ''
    if prev == '[':
        return 'dots-array'
    if prev in PRIM_WORDS:
        return 'dots-prim'
    if prev == '=':
        return 'dots-enumval'
    if nxt == '}':
        return 'dots-enumend'
    if nxt == ';' and prev in ('{', ';'):
        return 'dots-struct'
    if nxt == ')':
        return 'dots-vararg'
    if prev == 'typedef':
        return 'dots-typedef'
    return 'dots'


class Layout(object):
    """lines of tokens and the gaps (line, j) where trivia may go: j = 0 before the first token
    of the line .. len(tokens) after the last one"""
    def __init__(self, lines):
        self.toks = [GC.tokenize_line(l) for l in lines]
        self.define = [t[:2] == ['#', 'define'] for t in self.toks]
        self.gaps, self.where = [], {}
        for L, toks in enumerate(self.toks):
            assert not self.define[L] or len(toks) == 4 or (len(toks) == 5 and toks[3] == '-'), toks
            cls = [tokclass(toks, i) for i in range(len(toks))]
            for j in range(len(toks) + 1):
                if self.define[L]:
                    w = 'define:' + (DEFINE_GAPS if len(toks) == 4 else DEFINE_GAPS_NEG)[j]
                else:
                    ab = set([cls[j - 1] if j else '', cls[j] if j < len(toks) else '']) - set([''])
                    w = 'decl:next-to-' + '+'.join(sorted(ab)) if ab else 'decl'
                self.gaps.append((L, j))
                self.where[(L, j)] = w

    def needs_sep(self, L, j):
        toks = self.toks[L]
        if j == 0 or j == len(toks):
            return False
        if self.define[L]:             # '#define X-1' defines X as -1; '-' and '1' are two tokens
            return j in (2, 3) and toks[j] != '-'
        a, b = toks[j - 1][-1], toks[j][0]
        return (a.isalnum() or a == '_') and (b.isalnum() or b == '_')

    def render(self, ins, lines=None, split_at=None):
        """the decorated text; with split_at=k a pair: lines before k / from k on"""
        at, split = {}, {}
        for i in ins:
            if i['kind'] == 'split-value':
                split[(i['L'], i['j'])] = i
                at.setdefault((i['L'], i['j']), [])
            else:
                at.setdefault((i['L'], i['j']), []).append(i)
        out, cut = [], None
        for L, toks in enumerate(self.toks):
            if L == split_at:
                cut = len(out)
            if lines is not None and not any((L, j) in at for j in range(len(toks) + 1)):
                out += [lines[L], '\n']             # untouched line: verbatim
                continue
            for j in range(len(toks) + 1):
                ps = sorted(at.get((L, j), ()), key=lambda i: ORDER.get(i['kind'], 0))
                s = ''.join(i['text'] for i in ps)
                tight = any(i['kind'] == 'no-space' for i in ps)
                if not s.replace('\\\n', ''):          # a continuation separates nothing
                    if self.needs_sep(L, j) or (0 < j < len(toks) and not tight and not (
                            self.define[L] and (j == 1 or (j == 4 and len(toks) == 5)))):
                        s = ' ' + s
                out.append(s)
                if j < len(toks):
                    sp = split.get((L, j))
                    out.append(toks[j] if sp is None else
                               toks[j][:sp['pos']] + sp['text'] + toks[j][sp['pos']:])
            out.append('\n')
        if any(i['kind'] == 'eof-no-newline' for i in ins):
            out.pop()
        if any(i['kind'] == 'eof-bare' for i in ins):
            # the text ends right after its last token / comment / directive (no new-line at
            # all), unless that would leave a backslash as the last character
            k = len(out)
            while k > (cut or 0) + 1 and not out[k - 1].rstrip('\n'):
                k -= 1
            if not out[k - 1].rstrip('\n').endswith('\\'):
                out[k - 1:] = [out[k - 1].rstrip('\n')]
        if split_at is not None:
            return ''.join(out[:cut]), ''.join(out[cut:])
        return ''.join(out)


ORDER = {'line-comment': 1, 'ws-crlf': 2}     # within a '#define ... end' gap: // last, then CR


# ---------------------------------------------------------------------------
# trivia

WORDS = ['foo', 'bar', 'x', 'TODO:', 'typedef', 'struct s {', '}', ';', 'int', 'uint8_t', 'size_t;',
         'extern "Python"', '"', "'", "it's", '...', '[...]', '= ...', 'int...', '__stdcall', '//',
         '// //', '*', '**', '/', '/ *', '\\', '\\\\', '\\n', '#', '#define Q 1', '# define', '@',
         '\xe9', '\u65e5', '%d', '<a@b.c>', '{', '(', ')', ',', '0x10', '??/', '-', '*/', '/*']
FILES = ['foo.h', '/usr/include/x86_64-linux-gnu/bits/types.h', 'a b.h', '<built-in>',
         '<command-line>', 'x\\"y.h', 'a...b.h', 'http://x//y.h', 'c/*d.h', 'e*/f.h', '', '...',
         'C:\\\\inc\\\\w.h', "it's.h", '\xe9\u65e5.h', '#define.h', '// x', 'x.h\\\\']
WORDY_FILES = ['typedef T;', 'T;', 'typedef', 'T, x', 'typedef.h', 'T.h', 'x;y.h', 'a,b', 'f(x).h',
               'extern \\"Python\\" x', 'typedef struct s;.h', 'typedef ;', '(T', 'typedef (T;']
_R_DIRLINE = re.compile(r'[ \t]*#[ \t]*(?:line\b|\d)')
_R_DIRLIKE = re.compile(r'\n[ \t]*#[ \t]*(?:line|\d+)\b')


def hws(rnd, lo=0, hi=3):
    return ''.join(rnd.choice(' \t') for _ in range(rnd.randint(lo, hi)))


def comment_body(rnd, multiline):
    parts = [rnd.choice(WORDS) for _ in range(rnd.choice([0, 1, 2, 3, 5, 9]))]
    if multiline:
        for _ in range(rnd.choice([1, 1, 2, 4])):
            parts.insert(rnd.randint(0, len(parts)), rnd.choice(['\n', '\n * ', '\n\n', '\n#define Q 1\n',
                                                                  '\n//', '\n\t']))
    sep = rnd.choice(['', ' ', ' '])
    return sep.join(parts)


def block_comment(rnd, multiline, dirlike=False):
    body = comment_body(rnd, multiline)
    if dirlike:
        body += rnd.choice(['\n#line 5', '\n# 12 "x.h"', '\n  #  7', '\n#line 3 "y.h" '])
        body += rnd.choice(['', ' ', '\n', ' tail'])
    else:
        body = _R_DIRLIKE.sub('\n#', body)
    while '*/' in body:
        body = body.replace('*/', '* /')
    if body.endswith('/') and rnd.random() < 0.5:
        body += ' '
    return '/*' + body + '*/'


def line_comment(rnd):
    body = comment_body(rnd, False).replace('\n', ' ').replace('??/', '?')
    return '//' + body.rstrip('\\')


def directive(rnd, wordy=None):
    """wordy: a common-type word of the base; the file name then holds cdef words around it"""
    n = rnd.choice([1, 2, 7, 42, 100, 99999, 2147483647])
    s = hws(rnd) + '#' + hws(rnd) + rnd.choice(['', '', 'line ']) + str(n)
    if wordy or rnd.random() < 0.85:
        s += hws(rnd, 1, 2) + '"%s"' % (rnd.choice(WORDY_FILES).replace('T', wordy) if wordy
                                        else rnd.choice(FILES))
        if rnd.random() < 0.3 and 'line' not in s:
            s += rnd.choice([' 1', ' 2', ' 1 3', ' 3 4', ' 1 3 4'])
    return '\n' + s + hws(rnd, 0, 1) + '\n'


def ins(lay, gap, kind, text, exotic=False):
    return {'L': gap[0], 'j': gap[1], 'kind': kind, 'where': lay.where[gap], 'text': text,
            'exotic': exotic}


def everyday(rnd, lay, gap):
    """one insertion of an everyday kind at this gap"""
    w = lay.where[gap]
    r = rnd.random()
    if w.startswith('define:'):
        g = w[7:]
        if g == 'minus-number':
            # between the '-' and the number of a negative value: two tokens in C
            if r < 0.4:
                return ins(lay, gap, 'continuation', '\\\n' * rnd.choice([1, 1, 2]))
            if r < 0.7:
                return ins(lay, gap, 'ws', hws(rnd, 1, 3))
            return ins(lay, gap, 'block-comment', block_comment(rnd, False))
        if g == 'name-value' and not lay.needs_sep(*gap) and r < 0.3:
            return ins(lay, gap, 'no-space', '')               # '#define X-1'
        if g == 'start' and rnd.random() < 0.12:
            return ins(lay, gap, 'line-directive', directive(rnd))   # ends with a new-line
        if r < 0.35:
            return ins(lay, gap, 'ws', hws(rnd, 1, 4))
        if r < 0.5 and g in ('name-value', 'end'):
            return ins(lay, gap, 'continuation', hws(rnd, 0, 2) + '\\\n' + hws(rnd, 0, 2))
        if r < 0.65 and g == 'end':
            return ins(lay, gap, 'line-comment', line_comment(rnd))
        if r < 0.75 and g == 'start':
            return ins(lay, gap, 'ws', rnd.choice(['\n', ' \n\t', '\n\n']))
        if r < 0.85 and g in ('start', 'end'):
            return ins(lay, gap, 'block-comment-multiline', block_comment(rnd, True))
        return ins(lay, gap, 'block-comment', block_comment(rnd, False))
    if r < 0.3:
        return ins(lay, gap, 'ws', ''.join(rnd.choice(' \t\n') for _ in range(rnd.randint(1, 4))))
    if r < 0.4 and not lay.needs_sep(*gap) and 0 < gap[1] < len(lay.toks[gap[0]]):
        return ins(lay, gap, 'no-space', '')
    if r < 0.55:
        return ins(lay, gap, 'block-comment', block_comment(rnd, False))
    if r < 0.7:
        return ins(lay, gap, 'block-comment-multiline', block_comment(rnd, True))
    if r < 0.85:
        return ins(lay, gap, 'line-comment', line_comment(rnd) + '\n')
    if w == 'decl':
        return ins(lay, gap, 'line-directive', directive(rnd))
    return ins(lay, gap, 'ws', rnd.choice(['\n', '  ', '\t']))


def exotic(rnd, lay):
    """one insertion outside the everyday set, or None when the base has no place for it"""
    decl = [g for g in lay.gaps if not lay.where[g].startswith('define:')]
    plain = [g for g in decl if lay.where[g] == 'decl']
    special = [g for g in decl if lay.where[g] != 'decl']
    dgap = lambda names: [g for g in lay.gaps if lay.where[g] in ['define:' + n for n in names]]
    k = rnd.choice(['ws-formfeed', 'ws-vtab', 'ws-cr', 'ws-crlf', 'ws-crlf-define',
                    'block-comment-directive-line', 'line-directive-cdef-words',
                    'line-directive-special', 'line-directive-special', 'comment-in-define-head',
                    'continuation-in-define-head', 'line-directive-crlf', 'line-directive-crlf',
                    'continuation-inside-define-value', 'continuation-inside-define-value'])
    if k == 'line-directive-crlf':
        # a CRLF text file: the directive's own line ends with CR LF too
        return ins(lay, rnd.choice(plain), k, directive(rnd).replace('\n', '\r\n'), True)
    if k == 'continuation-inside-define-value':
        # backslash-newline is spliced before tokenization (C11 5.1.1.2 phase 2): it may split
        # the value token itself ('-\<nl>42'), without indentation on the continued line
        cand = [L for L in range(len(lay.toks)) if lay.define[L] and len(lay.toks[L][-1]) >= 2
                and lay.toks[L][-1] != '...']
        if not cand:
            return None
        L = rnd.choice(cand)
        pos = rnd.randrange(1, len(lay.toks[L][-1]))
        return {'L': L, 'j': len(lay.toks[L]) - 1, 'kind': 'split-value',
                'where': 'define:inside-value',
                'text': '\\\n' * rnd.choice([1, 1, 2]), 'pos': pos, 'exotic': True}
    if k in ('ws-formfeed', 'ws-vtab', 'ws-cr', 'ws-crlf'):
        ch = {'ws-formfeed': '\f', 'ws-vtab': '\v', 'ws-cr': '\r', 'ws-crlf': '\r\n'}[k]
        return ins(lay, rnd.choice(decl), k, hws(rnd, 0, 1) + ch + hws(rnd, 0, 1), True)
    if k == 'ws-crlf-define':
        g = dgap(['end'])
        return g and ins(lay, rnd.choice(g), 'ws-crlf', '\r', True)
    if k == 'block-comment-directive-line':
        return ins(lay, rnd.choice(decl), k, block_comment(rnd, True, dirlike=True), True)
    if k == 'line-directive-cdef-words':
        ct = sorted(set(t for toks in lay.toks for t in toks if t.endswith('_t') and '_' not in t[:-2]))
        return ins(lay, rnd.choice(plain), k, directive(rnd, rnd.choice(ct or ['size_t'])), True)
    if k == 'line-directive-special':
        return special and ins(lay, rnd.choice(special), 'line-directive', directive(rnd), True)
    if k == 'comment-in-define-head':
        g = dgap(['hash-define', 'define-name', 'name-value'])
        return g and ins(lay, rnd.choice(g), 'block-comment-multiline', block_comment(rnd, True), True)
    g = dgap(['hash-define', 'define-name'])
    return g and ins(lay, rnd.choice(g), 'continuation', hws(rnd, 0, 1) + '\\\n' + hws(rnd, 0, 1), True)


def gen_deco(rnd, lay):
    pools = [lay.gaps, lay.gaps] + [p for p in (
        [g for g in lay.gaps if lay.where[g].startswith('define:')],
        [g for g in lay.gaps if lay.where[g].startswith('decl:')]) if p]
    out = [everyday(rnd, lay, rnd.choice(rnd.choice(pools)))
           for _ in range(rnd.choice([0, 1, 2, 4, 8, 16, 32]))]
    r = rnd.random()
    if r < 0.1:
        # eof-bare: no new-line at all after the last token / comment / line directive
        out.append({'L': len(lay.toks) - 1, 'j': len(lay.toks[-1]),
                    'kind': 'eof-no-newline' if r < 0.05 else 'eof-bare',
                    'where': 'eof', 'text': '', 'exotic': False})
        if r > 0.065:
            last = (len(lay.toks) - 1, len(lay.toks[-1]))
            if lay.define[-1]:
                out.append(ins(lay, last, 'line-comment', line_comment(rnd)))
            else:
                out.append(rnd.choice([
                    ins(lay, last, 'line-comment', line_comment(rnd) + '\n'),
                    ins(lay, last, 'block-comment', block_comment(rnd, False)),
                    ins(lay, last, 'line-directive', directive(rnd))]))
    if rnd.random() < 0.06:
        # the output of 'gcc -E': many line directives in one text
        plain = [g for g in lay.gaps if lay.where[g] == 'decl']
        for _ in range(rnd.choice([10, 11, 12, 20, 40])):
            out.append(ins(lay, rnd.choice(plain), 'line-directive', directive(rnd)))
    if rnd.random() < 0.3:
        e = exotic(rnd, lay)
        if e:
            out.append(e)
    # in a '#define' line a // comment ends the line: keep at most one, in the 'end' gap
    seen = set()
    res = []
    for i in out:
        if i['kind'] in ('line-comment', 'ws-crlf') and i['where'] == 'define:end':
            if (i['L'], i['kind']) in seen:
                continue
            seen.add((i['L'], i['kind']))
        res.append(i)
    return res


# ---------------------------------------------------------------------------
# child: the monitor

class PreprocessLeftover(AssertionError):
    pass


def preprocess_leaves_no_trivia(csource, result):
    """after _preprocess, outside the restored line-directive lines, no comment opener, no
    '#' and no backslash is left"""
    text = '\n'.join(l for l in result[0].split('\n') if not _R_DIRLINE.match(l))
    return not any(x in text for x in ('/*', '//', '#', '\\'))


def child_setup(setup, wd):
    warnings.simplefilter('ignore')
    sys.path.append(os.path.join(core.VERIF, '.deps'))
    from cffi import cparser
    orig = cparser._preprocess
    st = {'pre': [], 'contract_evals': 0, 'contract_fails': 0}
    try:
        import icontract
        contracted = icontract.ensure(preprocess_leaves_no_trivia, error=PreprocessLeftover)(orig)
        st['contract'] = 'icontract'
    except ImportError:
        def contracted(csource):
            r = orig(csource)
            if not preprocess_leaves_no_trivia(csource, r):
                raise PreprocessLeftover(csource)
            return r
        st['contract'] = 'plain-wrapper'

    def monitored(csource):
        st['contract_evals'] += 1
        try:
            r = contracted(csource)
            ok = True
        except PreprocessLeftover:
            st['contract_fails'] += 1
            r, ok = orig(csource), False
        st['pre'].append((r[0], dict(r[1]), ok))
        return r
    cparser._preprocess = monitored
    return st


def mdesc(tp):
    from cffi import model
    n = type(tp).__name__
    if isinstance(tp, model.StructOrUnion):
        return [n, tp.name, tp.fldnames and list(tp.fldnames),
                tp.fldtypes and [t._get_c_name() for t in tp.fldtypes],
                tp.fldbitsize and list(tp.fldbitsize), tp.fldquals and list(tp.fldquals),
                tp.partial, tp.packed]
    if isinstance(tp, model.EnumType):
        return [n, tp.name, list(tp.enumerators), list(tp.enumvalues), tp.partial]
    if isinstance(tp, model.BaseTypeByIdentity):
        return [n, tp._get_c_name(), getattr(tp, 'abi', None), getattr(tp, 'ellipsis', None)]
    return tp


def tfact(ffi, t):
    d = [t.kind, t.cname]
    for fn in (ffi.sizeof, ffi.alignof):
        try:
            d.append(fn(t))
        except Exception as e:
            d.append(type(e).__name__)
    if t.kind in ('struct', 'union') and t.fields is not None:
        d.append([(n, f.offset, f.bitshift, f.bitsize, f.flags, f.type.cname) for n, f in t.fields])
    elif t.kind == 'enum':
        d.append(sorted(t.elements.items()))
    elif t.kind in ('pointer', 'array'):
        d.append((t.item.cname, getattr(t, 'length', None)))
    elif t.kind == 'function':
        d.append(([a.cname for a in t.args], t.result.cname, t.ellipsis, t.abi))
    return d


def inline_facts(ffi, c, extra_consts=()):
    out = []
    lib = ffi.dlopen(None)              # in-line constants are attributes of any dlopen()ed lib
    for name, value in extra_consts:
        out.append((name, getattr(lib, name)))
    for d in c.items:
        k = d['kind']
        if k == 'typedef':
            out.append((d['name'], tfact(ffi, ffi.typeof(d['name']))))
        elif k == 'agg' and d['name']:
            tag = '%s %s' % (d['agg']['kind'], d['name'])
            out.append((tag, tfact(ffi, ffi.typeof(tag))))
        elif k == 'enum':
            out.append((d['name'], tfact(ffi, ffi.typeof('enum ' + d['name'])),
                        [getattr(lib, en) for en, _ in d['values']]))
        elif k == 'const':
            out.append((d['name'], getattr(lib, d['name'])))
    return out


PARTS = ['declarations', 'int_constants', 'emit_c_code', 'emit_python_code', 'inline_facts',
         'list_types']


MODES = ['single'] * 6 + ['two-calls', 'two-calls', 'packed', 'redeclare-override']


def apply_cdef(ffi, text, mode, base_text):
    """the ways a cdef text reaches the parser; text is a pair for 'two-calls'"""
    if mode == 'two-calls':            # two cdef() calls on one FFI: each text is preprocessed alone
        ffi.cdef(text[0])
        ffi.cdef(text[1])
    elif mode == 'packed':
        ffi.cdef(text, packed=True)
    elif mode == 'redeclare-override':  # the same declarations again, spelled with trivia
        ffi.cdef(base_text)
        ffi.cdef(text, override=True)
    else:
        ffi.cdef(text)


def merged_pre(pre):
    if not pre:
        return None
    macros = {}
    for p in pre:
        macros.update(p[1])
    return ('\n'.join(p[0] for p in pre), macros, all(p[2] for p in pre))


def observe(st, text, api, c, mode='single', base_text=None, extra_consts=()):
    """everything the property speaks about, for one cdef text; {'raises': ..} if any step raised"""
    from cffi import FFI
    del st['pre'][:]
    o = {}
    step = 'cdef'
    try:
        with warnings.catch_warnings(record=True) as wl:
            warnings.simplefilter('always')
            ffi = FFI()
            apply_cdef(ffi, text, mode, base_text)
        o['warnings'] = sorted(set(str(w.message)[:60] for w in wl))
        o['pre'] = merged_pre(st['pre'])
        o['declarations'] = [(k, mdesc(tp), q) for k, (tp, q) in ffi._parser._declarations.items()]
        o['int_constants'] = sorted(ffi._parser._int_constants.items())
        with contextlib.redirect_stdout(io.StringIO()):
            step = 'emit_c_code'
            f = io.StringIO()
            ffi.set_source('_c31_mod', '/* preamble */')
            ffi.emit_c_code(f)
            o['emit_c_code'] = f.getvalue()
            if not api:
                step = 'emit_python_code'
                del ffi._assigned_source
                f = io.StringIO()
                ffi.set_source('_c31_mod', None)
                ffi.emit_python_code(f)
                o['emit_python_code'] = f.getvalue()
        step = 'inline'
        o['inline_facts'] = inline_facts(ffi, c, extra_consts)
        o['list_types'] = ffi.list_types()
    except Exception as e:
        o['pre'] = merged_pre(st['pre'])
        o['raises'] = '%s in %s: %s' % (type(e).__name__, step, str(e)[:300].replace('\n', ' | '))
    return o


_R_TOK = re.compile(r'\w+|\S')


def pre_tokens(pre):
    src = '\n'.join(l for l in pre[0].split('\n') if not _R_DIRLINE.match(l))
    return _R_TOK.findall(src), pre[1]


def compare(base, o):
    """None if equal, else (what, explanation)"""
    if 'raises' in o:
        return 'raises', o['raises']
    for part in PARTS:
        if base.get(part) != o.get(part):
            a, b = base.get(part), o.get(part)
            if isinstance(a, str) and isinstance(b, str):
                al, bl = a.split('\n'), b.split('\n')
                k = next((i for i in range(min(len(al), len(bl))) if al[i] != bl[i]),
                         min(len(al), len(bl)))
                return 'differs', '%s differs at line %d: base %r, decorated %r' % (
                    part, k + 1, al[k:k + 1], bl[k:k + 1])
            d = [(x, y) for x, y in zip(a, b) if x != y][:2] if isinstance(a, list) else (a, b)
            return 'differs', '%s differs (base %d entries, decorated %d): %r' % (
                part, len(a), len(b), d)
    return None


class Checker(object):
    def __init__(self, st, rep, seed):
        self.st, self.rep, self.seed = st, rep, seed
        self.c, self.lines, self.api, self.tags, self.extra, glued = make_base(seed)
        self.lay = Layout(self.lines)
        self.base_text = '\n'.join(self.lines) + '\n'
        rnd = random.Random('c31m/%d' % seed)
        self.mode = rnd.choice(MODES)
        cuts = [k for k in range(1, len(self.lines)) if k not in glued]
        self.cut = rnd.choice(cuts) if self.mode == 'two-calls' and cuts else None
        if self.mode == 'two-calls' and self.cut is None:
            self.mode = 'single'
        self.base = self.observe(self.text([], verbatim=True))
        self.mode_fallback = None
        if 'raises' in self.base and self.mode != 'single':
            # e.g. a redeclaration that cffi refuses even with override=True: not this property
            self.mode_fallback, self.mode, self.cut = self.mode, 'single', None
            self.base = self.observe(self.text([], verbatim=True))
        for i, (name, value) in enumerate(self.extra):
            if 'raises' not in self.base and self.base['inline_facts'][i] != (name, value):
                self.base = {'raises': 'harness: %s is %r, expected %r' % (
                    name, self.base['inline_facts'][i], value)}

    def text(self, insl, verbatim=False):
        """the text(s) handed to cdef(): a pair in mode 'two-calls'"""
        lines = self.lines if (insl or verbatim) else None     # no insertion: spaced tokens
        return self.lay.render(insl, lines, split_at=self.cut)

    def flat(self, insl):
        t = self.text(insl)
        return t if isinstance(t, str) else t[0] + t[1]

    def observe(self, text):
        return observe(self.st, text, self.api, self.c, self.mode, self.base_text, self.extra)

    def run(self, insl):
        o = self.observe(self.text(insl))
        return compare(self.base, o), o

    def report(self, insl, diff, o):
        what, why = diff
        if len(insl) == 1:
            where = insl[0]['where']
            if where.startswith('decl:'):
                # does the place matter?  the same text at ordinary boundaries of this base
                plain = [g for g in self.lay.gaps if self.lay.where[g] == 'decl']
                plain = random.Random(self.seed).sample(plain, min(3, len(plain)))
                if any(self.run([dict(insl[0], L=g[0], j=g[1], where='decl')])[0] for g in plain):
                    where = 'decl'
            mech = '%s@%s:%s' % (insl[0]['kind'], where, what)
        else:
            mech = 'combination:%s:%s' % ('+'.join(sorted(set(
                '%s@%s' % (i['kind'], i['where']) for i in insl))), what)
        layer = 'unknown'
        if o.get('pre') and self.base.get('pre'):
            layer = ('_preprocess output differs' if pre_tokens(o['pre']) != pre_tokens(
                self.base['pre']) else 'after _preprocess (its token stream and macros are equal)')
            if not o['pre'][2]:
                layer += '; postcondition preprocess_leaves_no_trivia failed'
        lines = sorted(set(i['L'] for i in insl))
        text = self.flat(insl)
        msg = ('inserting %s changes the cdef: %s\n  layer: %s\n  base line(s): %r\n  '
               'decorated text (all other lines unchanged): %r\n  base seed %d, %s mode, cdef: %s' % (
                   ', '.join('%r (%s at %s)' % (i['text'], i['kind'], i['where']) for i in insl),
                   why, layer, [self.lines[L] for L in lines][:3],
                   decorated_excerpt(self.base_text, text), self.seed,
                   'API' if self.api else 'ABI+API',
                   {'single': 'one cdef(text)', 'packed': 'cdef(text, packed=True)',
                    'redeclare-override': 'cdef(base text); cdef(text, override=True)',
                    'two-calls': 'two cdef() calls, the second from line %s on' % self.cut}[self.mode]))
        self.rep.bad(mech, msg, {'seed': self.seed, 'ins': insl})

    def check(self, insl):
        rep = self.rep
        text = self.flat(insl)
        ndir = sum(1 for i in insl if i['kind'].startswith('line-directive'))
        if ndir >= 10:
            rep.stat('texts_with_10_or_more_line_directives')
        if any(i['kind'] == 'eof-bare' for i in insl):
            tail = text[-1:] if not text.rstrip(' \t').endswith('*/') else '*/'
            last = text.rstrip('\n').split('\n')[-1]
            rep.stat('eof-bare:ends-with-' + ('line-directive' if _R_DIRLINE.match(last) else
                                              'line-comment' if '//' in last and tail != '*/' else
                                              'block-comment' if tail == '*/' else
                                              'new-line' if tail == '\n' else 'token-or-space'))
        rep.stat('mode:' + self.mode)
        for i in insl:
            rep.stat('kind:' + i['kind'])
            rep.stat('where:' + i['where'])
            if i['where'].startswith('define:') and i['kind'] in ('line-directive', 'no-space'):
                rep.stat('%s@%s' % (i['kind'], i['where']))
            if i['exotic']:
                rep.stat('exotic:%s@%s' % (i['kind'], i['where'].split(':')[0]))
        rep.stat('insertions', len(insl))
        rep.case('%s|%s|%s' % (self.mode, self.cut, text), nontrivial=bool(insl),
                 sample={'decorated': text[:400], 'mode': self.mode})
        diff, o = self.run(insl)
        rep.stat('compared_api_only' if self.api else 'compared_abi_and_api')
        if o.get('warnings') != self.base.get('warnings') and 'raises' not in o:
            rep.stat('warning_set_differs')
        if diff is None:
            rep.stat('decorations_equal')
            for i in insl:
                if i['exotic']:
                    rep.stat('exotic_held:%s@%s' % (i['kind'], i['where']))
            return
        rep.stat('decorations_not_equal')
        if len(insl) == 1:
            return self.report(insl, diff, o)
        # reduce: insertions that fail alone (exotic ones first), then whatever is left together
        culprits, rest = [], list(insl)
        for i in sorted(insl, key=lambda i: not i['exotic']):
            d1, o1 = self.run([i])
            if d1 is not None:
                culprits.append(i)
                rest.remove(i)
                self.report([i], d1, o1)
                if i['exotic'] and self.run(rest)[0] is None:
                    return
        d, oo = self.run(rest) if culprits else (diff, o)
        k = 0
        while d is not None and k < len(rest) and len(rest) > 2:
            d2, o2 = self.run(rest[:k] + rest[k + 1:])
            if d2 is not None:
                rest, d, oo = rest[:k] + rest[k + 1:], d2, o2
            else:
                k += 1
        if d is not None:
            self.report(rest, d, oo)


def decorated_excerpt(base_text, text):
    a, b = 0, 0
    while a < min(len(base_text), len(text)) and base_text[a] == text[a]:
        a += 1
    while b < min(len(base_text), len(text)) - a and base_text[-1 - b] == text[-1 - b]:
        b += 1
    return text[max(0, a - 60):len(text) - max(0, b - 40)][:500]


def child_case(st, case):
    rep = core.ChildRep()
    ev0, f0 = st['contract_evals'], st['contract_fails']
    for seed in case['seeds']:
        ck = Checker(st, rep, seed)
        if 'raises' in ck.base:
            rep.bad('harness:base-invalid', 'generated base cdef is not accepted: %s :: %s' %
                    (ck.base['raises'], ck.base_text[:600]), {'seed': seed, 'ins': []})
            continue
        rep.stat('bases')
        for t in ck.tags:
            rep.stat('base:' + t)
        if ck.mode_fallback:
            rep.stat('mode_fallback:' + ck.mode_fallback)
        if case.get('ins') is not None:
            ck.check(case['ins'])
            continue
        ck.check([])                       # re-rendered from the tokens, no insertion
        for j in range(case['ndeco']):
            ck.check(gen_deco(random.Random('%d/%d' % (seed, j)), ck.lay))
    rep.stat('preprocess_contract_evaluations(%s)' % st['contract'], st['contract_evals'] - ev0)
    rep.stat('preprocess_contract_failures', st['contract_fails'] - f0)
    return rep.result()


# ---------------------------------------------------------------------------
# parent

def generate(ctx):
    rng = ctx.rng('gen')
    n, nd, per = ctx.scale(400, 4000), (10 if ctx.thorough else 5), 10
    seeds = [rng.getrandbits(40) for _ in range(n)]
    return None, [{'seeds': seeds[i:i + per], 'ndeco': nd} for i in range(0, n, per)]


def judge(ctx, setup, case, obs):
    core.absorb(ctx, case, obs, lambda d: {'seeds': [d['seed']], 'ins': d['ins'], 'ndeco': 0})
