"""C14 -- callbacks and extern "Python" pass values exactly and contain errors.

Per generated module: for ~30 signatures (a systematic share `T f(T)` for every
supported type T plus random ones) a C trampoline `R call_k(R (*cb)(A...), A...)`
and an extern "Python" function (declared `extern "Python"`, `extern "Python+C"`
or inside an `extern "Python" { }` block) with a C caller.  The Python function
records the argument tuple it receives (must be the tuple handed to the
trampoline) and returns a value that must come back unchanged.

Bodies: normal (result given in its native Python form, as a cdata, as a
dict/list/tuple initializer, as an initializer that names only the first n
fields -- the other fields must then be zero, as with ffi.new() and with
by-value struct arguments; mechanism 'partial-initializer-result-indeterminate')
/ raising (Exception and BaseException subclasses)
/ returning an unconvertible value (foreign object, out-of-range integer, wrong
type, partly valid struct initializer, ...) / called with an argument that
cannot be converted to a Python object (wide character > 0x10FFFF).
Configuration: no error value, error=v, onerror returning a value / None /
an unconvertible value / raising; with and without error= next to onerror=.
The C caller must receive the declared error value (or onerror's value), no
exception may escape into the caller, the error must be reported (to onerror
with the raised exception, else to sys.unraisablehook) and a handled error is
not reported a second time.

Entry points: ffi.callback() of a compiled FFI (direct, decorator, positional
error/onerror, 'R(*)(A)' spelling, ctype object) and of an in-line cffi.FFI()
(api.py; direct and decorator); ffi.def_extern(name=...), def_extern() taking
the name from __name__, positional arguments.  Invocation from compiled C, and
from Python through libffi (cb(...) / lib.ep_k(...)).  Histories: several
invocations of one callback object / one def_extern registration with
different bodies, and a nested invocation from inside the Python function.
"""
import os, sys, random
from vlib import core, modbuild, gen

RULE = ("case = (signature, kind ffi.callback|extern \"Python\", entry point, invocation path, scenario, "
        "argument tuple); signatures: `T f(T)` for every type T once per run plus random ones over all "
        "integer sizes/signs, _Bool, char, wchar_t/char16_t/char32_t, float, double, long double, "
        "float/double _Complex (extern \"Python\" only), data/void/char/struct/function pointers, "
        "signed and unsigned enums, struct by value (args and result; 2/8/12/16/40-byte structs of "
        "INTEGER, SSE and MEMORY class, nested struct, array field, bitfields, unions), void result; "
        "scenarios = {normal (native / cdata / full and partial initializer forms of the result), raises (Exception / "
        "BaseException), bad-return (object / overflow / wrong type / partial initializer), "
        "unconvertible argument} x {no error value, error=v, onerror->value, onerror->None, onerror "
        "raises, onerror->unconvertible}; entry points = compiled ffi.callback direct / decorator / "
        "positional / pointer spelling / ctype, in-line FFI.callback direct / decorator, def_extern "
        "name= / from __name__ / positional; invoked from C or from Python; 1-3 invocations per "
        "callback object, optionally one nested; distinct = (signature, kind, entry, path, scenario, "
        "values); non-trivial = at least one argument or a non-void result")
ASSUMPTIONS = ["values are chosen exactly representable in the declared C types (conversion exactness is C03/C05's business)",
               "'no exception escapes' is observed as: the C trampoline call returns normally to Python and sys.unraisablehook / onerror receive the exception",
               "an onerror handler that returns an unconvertible value counts as returning no value: the declared error value is expected (only values that are rejected before anything is written are used there)",
               "a struct result given as an initializer that names only some fields means: the other fields are zero (what ffi.new() and by-value struct arguments do)",
               "an argument that cannot be converted to a Python object (wchar_t/char32_t > 0x10FFFF) is an error of the call like a raising body: error value, reported, Python function not run"]

INTS = [('signed char', 1, True), ('unsigned char', 1, False), ('short', 2, True),
        ('unsigned short', 2, False), ('int', 4, True), ('unsigned int', 4, False),
        ('long', 8, True), ('unsigned long long', 8, False), ('int8_t', 1, True),
        ('uint16_t', 2, False), ('int64_t', 8, True), ('size_t', 8, False),
        ('long long', 8, True), ('unsigned long', 8, False), ('int32_t', 4, True),
        ('uint8_t', 1, False), ('uint32_t', 4, False), ('ssize_t', 8, True)]
ENUMS = [('enum en', 4, False), ('enum es', 4, True)]
INTS_X = INTS + ENUMS
INTD = dict((n, (z, sg)) for (n, z, sg) in INTS_X)
WCHARS = {'wchar_t': 4, 'char16_t': 2, 'char32_t': 4}
FLOATS = ('float', 'double', 'long double')
COMPLEX = ('float _Complex', 'double _Complex')
PTRS = ['int *', 'void *', 'char *', 'struct pt *', 'fnp_t']
# aggregates passed and returned by value: fields as (name, C type, kind) with kind
# 'i' integer | 'f' float | n (unsigned char[n]) | 'S' nested aggregate | 'A:n' array of n
# integers | 'B:n' bitfield of n bits
AGGS = {
    'struct pt': [('a', 'int', 'i'), ('b', 'short', 'i'), ('c', 'double', 'f')],           # 16 bytes, INTEGER+SSE
    'struct sm': [('x', 'signed char', 'i'), ('y', 'unsigned char', 'i')],                  # 2 bytes
    'struct fl': [('f', 'float', 'f'), ('g', 'float', 'f')],                               # 8 bytes, SSE
    'struct big': [('l0', 'long', 'i'), ('l1', 'long', 'i'), ('d', 'double', 'f'),
                   ('l2', 'long', 'i'), ('z', 'signed char', 'i')],                        # 40 bytes, MEMORY
    'struct ne': [('s', 'struct sm', 'S'), ('arr', 'short', 'A:2'), ('f', 'float', 'f')],   # 12 bytes, nested + array
    'struct bf': [('a', 'int', 'B:3'), ('b', 'unsigned int', 'B:5'), ('c', 'int', 'i')],    # bitfields
    'union un': [('c', 'unsigned char', 12)],                                              # 16 bytes
    'union u8': [('c', 'unsigned char', 8)],                                               # 8 bytes
}
# not supported by libffi (documented NotImplementedError for ffi.callback() and for calls
# through a function pointer); extern "Python" called from compiled C supports them
NOFFI = set(['union un', 'union u8', 'struct bf']) | set(COMPLEX)
ALLT = ([t[0] for t in INTS_X] + ['_Bool', 'char'] + sorted(WCHARS) + list(FLOATS) + list(COMPLEX) +
        PTRS + sorted(AGGS))
ARGT = ALLT + ['struct pt']
RETT = ARGT + ['void']
STRUCT = ('typedef int (*fnp_t)(int); '
          'struct pt { int a; short b; double c; }; struct sm { signed char x; unsigned char y; }; '
          'struct fl { float f; float g; }; '
          'struct big { long l0; long l1; double d; long l2; signed char z; }; '
          'struct ne { struct sm s; short arr[2]; float f; }; '
          'struct bf { int a:3; unsigned int b:5; int c; }; '
          'union un { int i; double d; unsigned char c[12]; }; '
          'union u8 { int i; float f; unsigned char c[8]; }; '
          'enum en { EN0, EN1 = 5, EN2 = 70000, EN3 = 0xFFFFFFFF }; '
          'enum es { ESN = -70000, ES0 = 0, ES1 = 1, ESP = 0x7FFFFFFF };')
BODIES = ('normal', 'raises', 'badreturn')
CONFS = ('noerror', 'error', 'onerror_value', 'onerror_none', 'onerror_raises', 'onerror_bad')
CB_ENTRIES = ['direct'] * 8 + ['deco'] * 3 + ['ptrsig'] * 2 + ['ctype'] * 2 + ['positional'] * 2 + \
    ['inline'] * 2 + ['inline_deco'] * 1
EP_ENTRIES = ['name'] * 5 + ['noname'] * 3 + ['positional'] * 2
NSYS_MODS = 4        # the systematic `T f(T)` signatures are spread over the first modules


def noffi(s):
    return any(t in NOFFI for t in s['args'] + [s['ret']])


def libffi_call_bug(s, gpr_before):
    """True if calling this signature FROM Python through libffi's ffi_call() would hit a bug of
    the system's libffi 3.4.2 (x86-64 ffi_call_int copies the whole remaining size of a struct
    into one GPR slot; when a struct of classes INTEGER+SSE lands in the last GPR, the copy runs
    into the slot of xmm0 and replaces the first float/double argument).  Reproduced with ctypes
    and no cffi at all: `double f(double, int, int, int, int, int, struct {int; short; double;})`
    returns the struct's double.  Such signatures are only invoked from compiled C here."""
    g, sse = gpr_before, 0
    if s['ret'] == 'struct big':
        g += 1                      # MEMORY-class result: the hidden result pointer takes rdi
    for a in s['args']:
        if a in ('float', 'double'):
            ng, ns = 0, 1
        elif a in ('long double', 'struct big') or a in COMPLEX or a.startswith('union') or a == 'struct bf':
            continue                # memory / x87 / not callable through libffi anyway
        elif a == 'struct fl':
            ng, ns = 0, 1
        elif a in ('struct pt', 'struct ne'):
            ng, ns = 1, 1
        else:
            ng, ns = 1, 0           # integers, characters, pointers, struct sm
        if g + ng > 6 or sse + ns > 8:
            continue                # passed on the stack
        if ng and ns and g == 5:
            return True
        g, sse = g + ng, sse + ns
    return False


def gen_sigs(seed, n, sysl):
    rnd = random.Random(seed)
    sigs = []
    for k in range(n):
        if k < len(sysl):
            T = sysl[k]
            s = {'k': k, 'args': ['int'] if T == 'void' else [T], 'ret': T}
        else:
            na = rnd.choice([0, 1, 1, 2, 3, 4, 6, 9])
            s = {'k': k, 'args': [rnd.choice(ARGT) for _ in range(na)], 'ret': rnd.choice(RETT)}
        s['decl'] = rnd.choice(['plain', 'plain', 'plusc', 'block'])
        sigs.append(s)
    return sigs


def module_spec(d, seed, n, name, sysl=()):
    sigs = gen_sigs(seed, n, list(sysl))
    cdef, src = [STRUCT], ['#include <stdint.h>', '#include <stddef.h>', '#include <wchar.h>',
                           '#include <uchar.h>', '#include <sys/types.h>', STRUCT]
    # see PREREALIZE below
    cdef.append('float _Complex c14_rfc(void); double _Complex c14_rdc(void);')
    src.append('float _Complex c14_rfc(void) { return 0; } double _Complex c14_rdc(void) { return 0; }')
    for s in sigs:
        k, R = s['k'], s['ret']
        at = ', '.join(s['args']) or 'void'
        params = ', '.join('%s a%d' % (a, i) for i, a in enumerate(s['args']))
        names = ', '.join('a%d' % i for i in range(len(s['args'])))
        cbp = '%s (*cb)(%s)' % (R, at)
        cdef.append('%s call_%d(%s%s%s);' % (R, k, cbp, ', ' if s['args'] else '', params))
        if s['decl'] == 'plusc':
            cdef.append('extern "Python+C" %s ep_%d(%s);' % (R, k, at))
        elif s['decl'] == 'block':
            cdef.append('extern "Python" { %s ep_%d(%s); }' % (R, k, at))
        else:
            cdef.append('extern "Python" %s ep_%d(%s);' % (R, k, at))
        cdef.append('%s callep_%d(%s);' % (R, k, params or 'void'))
        ret = '' if R == 'void' else 'return '
        src.append('%s call_%d(%s%s%s) { %scb(%s); }' % (R, k, cbp, ', ' if s['args'] else '',
                                                        params, ret, names))
        src.append('%s%s ep_%d(%s);' % ('' if s['decl'] == 'plusc' else 'static ', R, k, at))
        src.append('%s callep_%d(%s) { %sep_%d(%s); }' % (R, k, params or 'void', ret, k, names))
    return {'name': name, 'kind': 'api', 'cdef': '\n'.join(cdef), 'source': '\n'.join(src),
            'dir': d}, sigs


# ---------------------------------------------------------------------------
# value descriptors [kind, value, C type] (JSON-able, exactly representable)

def gen_field(rnd, ft, fk):
    if fk == 'i':
        lo, hi = gen.int_range(*INTD[ft])
        return rnd.choice([lo, hi, 0, 1, rnd.randint(lo, hi)])
    if fk == 'f':
        return rnd.choice([1.5, -3.25, 0.0, 1024.0] + ([1e100] if ft == 'double' else []))
    if isinstance(fk, int):
        return [rnd.randrange(256) for _ in range(fk)]
    if fk == 'S':
        return [gen_field(rnd, t, kk) for (_, t, kk) in AGGS[ft]]
    if fk.startswith('A:'):
        lo, hi = gen.int_range(*INTD[ft])
        return [rnd.choice([lo, hi, 0, rnd.randint(lo, hi)]) for _ in range(int(fk[2:]))]
    if fk.startswith('B:'):
        bits = int(fk[2:])
        lo, hi = (-(1 << (bits - 1)), (1 << (bits - 1)) - 1) if INTD[ft][1] else (0, (1 << bits) - 1)
        return rnd.choice([lo, hi, 0, rnd.randint(lo, hi)])
    raise ValueError(fk)


def gen_val(rnd, T):
    if T in INTD:
        lo, hi = gen.int_range(*INTD[T])
        return ['int', rnd.choice([lo, hi, 0, 1, -1 if lo < 0 else hi - 1, rnd.randint(lo, hi)]), T]
    if T == 'long double':
        return ['float', rnd.choice([0.0, 1e300, -1.1, 0.5, rnd.uniform(-1e9, 1e9)]).hex(), T]
    if T in WCHARS:
        c = [u'a', u'\x00', u'\xe9', u'ሴ', u'￿', chr(rnd.randrange(32, 0xd800))]
        if WCHARS[T] == 4:
            c += [u'\U0001f600', u'\U0010ffff']
        return ['str', rnd.choice(c), T]
    if T in AGGS:
        return ['struct', [gen_field(rnd, ft, fk) for (_, ft, fk) in AGGS[T]], T]
    if T == '_Bool':
        return ['bool', rnd.choice([True, False]), T]
    if T == 'char':
        return ['bytes', bytes([rnd.choice([0, 0x7f, 0x80, 0xff, rnd.randrange(256)])]).hex(), T]
    if T == 'float':
        return ['float', float(rnd.choice([0, 1.5, -2.25, 1024.0, rnd.randint(-2 ** 20, 2 ** 20) / 4.0])).hex(), T]
    if T == 'double':
        return ['float', rnd.choice([0.0, 1e300, -1.1, 7.0, rnd.uniform(-1e9, 1e9)]).hex(), T]
    if T in COMPLEX:
        part = lambda: float(rnd.choice([0, 1.5, -2.25, 1024.0, rnd.randint(-2 ** 20, 2 ** 20) / 4.0]))
        return ['complex', [part().hex(), part().hex()], T]
    if T in PTRS:
        return ['ptr', rnd.choice([0, 8, rnd.getrandbits(47) & ~3, 2 ** 64 - 16, rnd.getrandbits(64) & ~7]), T]
    raise ValueError(T)


def gen_form(rnd, d, partial_ok=False):
    """the Python form in which the value is handed back to cffi"""
    if d is None:
        return 'native'
    k, v, T = d
    if rnd.random() < 0.5:
        return 'native'
    if k == 'int':
        return rnd.choice(['cdata'] + (['bool'] if v in (0, 1) and not T.startswith('enum') else []))
    if k == 'bool':
        return rnd.choice(['cdata', 'int'])
    if k in ('bytes', 'str'):
        return 'cdata'
    if k == 'float':
        x = float.fromhex(v)
        return rnd.choice(['cdata'] + (['int'] if x == int(x) and abs(x) < 2 ** 53 else []))
    if k == 'ptr':
        return 'null' if v == 0 else 'native'
    if k == 'struct':
        if T.startswith('union'):
            return 'dict'
        if partial_ok and rnd.random() < 0.4:
            # an initializer that names only the first n fields: the others are zero, as with
            # ffi.new() and with by-value struct arguments
            return '%s:%d' % (rnd.choice(['pdict', 'plist']), rnd.randrange(len(AGGS[T])))
        return rnd.choice(['dict', 'list', 'tuple'])
    return 'native'


def effective(d, form):
    """the C value that descriptor d handed over in `form` stands for"""
    if d is not None and form.startswith(('pdict:', 'plist:')):
        n = int(form[6:])
        z = zero_of(d[2])[1]
        return ['struct', list(d[1][:n]) + z[n:], d[2]]
    return d


def gen_bad(rnd, T, early_only=False):
    """descriptor of a Python value that cannot be converted to T.  early_only (for onerror): only
    values that cffi rejects before it writes anything"""
    if T == 'void':
        return rnd.choice([['str', 'not none'], ['int', 0], ['object']])
    # (None returned by onerror means 'no value', it is not an unconvertible value there)
    o = [['object']] + ([] if early_only else [['none']])
    if T in INTD:
        lo, hi = gen.int_range(*INTD[T])
        o += [['int', hi + 1], ['int', lo - 1], ['int', hi + 1], ['int', lo - 1],
              ['int', rnd.choice([2 ** 64, -2 ** 63 - 1, 2 ** 200, hi + 1 + rnd.randrange(1000),
                                  lo - 1 - rnd.randrange(1000)])],
              ['float', 1.5], ['str', '7']]
    elif T == '_Bool':
        o += [['int', 2], ['int', -1], ['int', 256], ['str', 'x']]
    elif T == 'char':
        o += [['bytes', '4142'], ['bytes', ''], ['int', 65], ['str', 'a']]
    elif T in WCHARS:
        o += [['str', 'ab'], ['str', ''], ['bytes', '41'], ['int', 65]]
        if WCHARS[T] == 2:
            o += [['str', u'\U0001f600']]
    elif T in FLOATS or T in COMPLEX:
        o += [['str', '1.5'], ['bytes', '00']]
    elif T in PTRS:
        o += [['int', 12345], ['str', 'p'], ['float', 0.0]]
        if T in ('int *', 'struct pt *'):
            o += [['wrongptr', 8, 'struct pt *' if T == 'int *' else 'int *']]
    elif T in AGGS:
        o += [['int', 5], ['badkey', T], ['wrongstruct', 'struct fl' if T != 'struct fl' else 'struct sm']]
        if not T.startswith('union') and not early_only:
            o += [['toolong', T], ['partial', T], ['partial', T]]
    return rnd.choice(o)


def gen_call(rnd, s, body, may_nest=True):
    R = s['ret']
    c = {'args': [gen_val(rnd, a) for a in s['args']], 'body': body, 'flav': '',
         'ret': None if R == 'void' else gen_val(rnd, R), 'bad': None, 'nest': None}
    c['retform'] = gen_form(rnd, c['ret'], partial_ok=True)
    if body == 'raises':
        c['flav'] = rnd.choice(['exc', 'exc', 'base'])
    elif body == 'badreturn':
        c['bad'] = gen_bad(rnd, R)
        c['flav'] = c['bad'][0]
    elif body == 'badarg':
        wide = [i for i, a in enumerate(s['args']) if WCHARS.get(a) == 4]
        i = rnd.choice(wide)
        c['args'][i] = ['wcast', rnd.choice([0x110000, 0xFFFFFFFF, 0x7FFFFFFF,
                                             rnd.randrange(0x110000, 2 ** 32)]), s['args'][i]]
    if may_nest and rnd.random() < 0.1:
        c['nest'] = gen_call(rnd, s, rnd.choice(['normal', 'normal', 'raises', 'badreturn']), False)
    return c


def gen_items(ctx, rng, s):
    R = s['ret']
    items = []
    for kind in ('callback', 'externpy'):
        if kind == 'callback' and noffi(s):
            ctx.count('callback_signatures_unsupported_by_libffi_skipped')
            continue
        combos = [('normal', 'noerror')]
        combos += [('normal', c) for c in CONFS[1:] if rng.random() < 0.25]
        combos += [(b, c) for b in ('raises', 'badreturn') for c in CONFS]
        if any(WCHARS.get(a) == 4 for a in s['args']):
            combos += [('badarg', c) for c in rng.sample(CONFS, 3)]
        for (body, conf) in combos:
            it = {'k': s['k'], 'kind': kind, 'conf': conf}
            if kind == 'callback':
                it['entry'] = rng.choice(CB_ENTRIES)
                it['via'] = 'py' if rng.random() < 0.15 else 'c'
                if (it['via'] == 'py' and libffi_call_bug(s, 0)) or \
                        (it['entry'].startswith('inline') and libffi_call_bug(s, 1)):
                    ctx.count('calls_from_python_avoided_for_libffi_3_4_2_bug')
                    it['entry'], it['via'] = 'direct', 'c'
            else:
                it['entry'] = rng.choice(EP_ENTRIES)
                it['via'] = 'direct' if (rng.random() < 0.15 and not noffi(s)) else 'c'
                if it['via'] == 'direct' and libffi_call_bug(s, 0):
                    ctx.count('calls_from_python_avoided_for_libffi_3_4_2_bug')
                    it['via'] = 'c'
            it['use_err'] = R != 'void' and (conf == 'error' or
                                             (conf != 'noerror' and rng.random() < 0.5))
            it['err'] = None if R == 'void' else gen_val(rng, R)
            it['errform'] = gen_form(rng, it['err'], partial_ok=True)
            it['oev'] = None if R == 'void' else gen_val(rng, R)
            it['oevform'] = gen_form(rng, it['oev'])
            it['obad'] = gen_bad(rng, R, early_only=True)
            calls = [gen_call(rng, s, body)]
            if rng.random() < 0.25:
                others = ['normal', 'normal', 'raises', 'badreturn']
                for _ in range(rng.choice([1, 1, 2])):
                    calls.append(gen_call(rng, s, rng.choice(others), False))
            it['calls'] = calls
            items.append(it)
    return items


def generate(ctx):
    rng = ctx.rng('gen')
    nmod = ctx.scale(4, 100)
    nsig = 30
    d = os.path.join(ctx.tmp, 'mods')
    specs, cases = [], []
    sysall = list(ALLT) + ['void']
    for m in range(nmod):
        seed = rng.getrandbits(40)
        name = '_c14_%d' % m
        sysl = sysall[m::NSYS_MODS] if m < NSYS_MODS else []
        spec, sigs = module_spec(d, seed, nsig, name, sysl)
        specs.append(spec)
        plan = []
        for s in sigs:
            plan += gen_items(ctx, rng, s)
        cases.append({'mod': name, 'seed': seed, 'nsig': nsig, 'sys': sysl, 'plan': plan})
    res = modbuild.build_modules(ctx, specs)
    for c in cases:
        if not res[c['mod']]['ok']:
            raise core.Inconclusive('module build failed: ' + res[c['mod']]['error'] +
                                    res[c['mod']].get('log', '')[-1500:])
    return {'dir': d}, cases


# ---------------------------------------------------------------------------
# child side

def child_setup(setup, wd):
    sys.path.insert(0, setup['dir'])
    sys.stderr = open(os.devnull, 'w')
    return {'dir': setup['dir'], 'iffi': None, 'itramp': {}}


def inline_ffi(st):
    if st['iffi'] is None:
        import cffi
        st['iffi'] = cffi.FFI()
        st['iffi'].cdef(STRUCT)
    return st['iffi']


def agg_init(T, vals, form):
    """initializer (dict / list / tuple) of aggregate T from its field values"""
    out = []
    for (fn, ft, fk), v in zip(AGGS[T], vals):
        out.append(agg_init(ft, v, form) if fk == 'S' else v)
    if form == 'list':
        return out
    if form == 'tuple':
        return tuple(out)
    return dict((f[0], x) for f, x in zip(AGGS[T], out))


def agg_read(x, T):
    out = []
    for fn, ft, fk in AGGS[T]:
        v = getattr(x, fn)
        if fk == 'S':
            v = agg_read(v, ft)
        elif isinstance(fk, int) or fk.startswith('A:'):
            v = list(v)
        out.append(v)
    return out


def to_py(F, d, form='native'):
    k, v, T = d
    if k == 'int':
        return F.cast(T, v) if form == 'cdata' else (bool(v) if form == 'bool' else v)
    if k == 'bool':
        return F.cast(T, v) if form == 'cdata' else (int(v) if form == 'int' else v)
    if k == 'str':
        return F.cast(T, v) if form == 'cdata' else v
    if k == 'bytes':
        return F.cast(T, bytes.fromhex(v)) if form == 'cdata' else bytes.fromhex(v)
    if k == 'float':
        x = float.fromhex(v)
        return F.cast(T, x) if form == 'cdata' else (int(x) if form == 'int' else x)
    if k == 'complex':
        return complex(float.fromhex(v[0]), float.fromhex(v[1]))
    if k == 'ptr':
        return F.NULL if form == 'null' else F.cast(T, v)
    if k == 'wcast':
        return F.cast(T, v)
    if k == 'struct':
        if form in ('dict', 'list', 'tuple'):
            return agg_init(T, v, form)
        if form.startswith('plist:'):
            return agg_init(T, v, 'list')[:int(form[6:])]
        if form.startswith('pdict:'):
            full = agg_init(T, v, 'dict')
            return dict((f[0], full[f[0]]) for f in AGGS[T][:int(form[6:])])
        return F.new(T + ' *', agg_init(T, v, 'dict'))[0]
    raise ValueError(k)


def to_bad(F, b):
    k = b[0]
    if k == 'object':
        return object()
    if k == 'none':
        return None
    if k in ('int', 'str'):
        return b[1]
    if k == 'float':
        return float(b[1])
    if k == 'bytes':
        return bytes.fromhex(b[1])
    if k == 'wrongptr':
        return F.cast(b[2], b[1])
    if k == 'badkey':
        return {'no_such_field': 1}
    if k == 'wrongstruct':
        return F.new(b[1] + ' *')[0]
    if k == 'toolong':
        return [0] * (len(AGGS[b[1]]) + 1)
    if k == 'partial':      # first field fine, second one rejected
        f = AGGS[b[1]]
        first = 1 if f[0][2] in ('i', 'f') or f[0][2].startswith('B:') else \
            agg_init(b[1], zero_of(b[1])[1], 'dict')[f[0][0]]
        return {f[0][0]: first, f[1][0]: object()}
    raise ValueError(k)


def norm(F, x):
    if isinstance(x, F.CData):
        t = F.typeof(x)
        if t.kind in ('pointer', 'function'):
            return ['ptr', int(F.cast('uintptr_t', x))]
        if t.kind in ('struct', 'union'):
            return ['struct', agg_read(x, t.cname), t.cname]
        if t.kind == 'primitive' and t.cname == 'long double':
            return ['float', float(x).hex()]
        return ['cdata', repr(x)]
    if isinstance(x, bool):
        return ['bool', x]
    if isinstance(x, int):
        return ['int', x]
    if isinstance(x, float):
        return ['float', x.hex()]
    if isinstance(x, complex):
        return ['complex', [x.real.hex(), x.imag.hex()]]
    if isinstance(x, bytes):
        return ['bytes', x.hex()]
    if isinstance(x, str):
        return ['str', x]
    if x is None:
        return None
    return ['other', repr(x)]


def zero_field(ft, fk):
    if fk == 'f':
        return 0.0
    if isinstance(fk, int):
        return [0] * fk
    if fk == 'S':
        return [zero_field(t, kk) for (_, t, kk) in AGGS[ft]]
    if fk.startswith('A:'):
        return [0] * int(fk[2:])
    return 0


def zero_of(T):
    if T == 'void':
        return None
    if T == '_Bool':
        return ['bool', False, T]
    if T == 'char':
        return ['bytes', '00', T]
    if T in FLOATS:
        return ['float', (0.0).hex(), T]
    if T in COMPLEX:
        return ['complex', [(0.0).hex(), (0.0).hex()], T]
    if T in PTRS:
        return ['ptr', 0, T]
    if T in WCHARS:
        return ['str', u'\x00', T]
    if T in AGGS:
        return ['struct', [zero_field(ft, fk) for fn, ft, fk in AGGS[T]], T]
    return ['int', 0, T]


def same(a, b):
    if a is None or b is None:
        return a == b
    if a[0] in ('int', 'bool') and b[0] in ('int', 'bool'):
        return int(a[1]) == int(b[1])
    if a[0] == 'struct' and b[0] == 'struct':
        return list(a[1]) == list(b[1]) and a[2] == b[2]
    if a[0] == 'float' and b[0] == 'float':
        return float.fromhex(a[1]) == float.fromhex(b[1])
    if a[0] == 'complex' and b[0] == 'complex':
        return [float.fromhex(z) for z in a[1]] == [float.fromhex(z) for z in b[1]]
    return list(a[:2]) == list(b[:2])


class Boom(Exception):
    pass


class BoomBase(BaseException):
    pass


class HarnessError(Exception):
    pass


def run_item(st, rep, mod, sigs, it):
    ffi, lib = mod.ffi, mod.lib
    k, kind, conf, entry, via = it['k'], it['kind'], it['conf'], it['entry'], it['via']
    s = sigs[k]
    R = s['ret']
    sigstr = '%s(%s)' % (R, ', '.join(s['args']))
    ptrsig = '%s(*)(%s)' % (R, ', '.join(s['args']))
    inline = entry.startswith('inline')
    F = inline_ffi(st) if inline else ffi
    unraisable = st['unraisable']
    del unraisable[:]
    onerr_calls = []
    active = []

    # ---- everything the Python side hands to cffi is prepared up front, so that a mistake of
    # ---- the harness cannot be mistaken for an error raised inside the callback
    def prepare(c):
        c['pyargs'] = [to_py(F, a) for a in c['args']]
        c['mkret'] = None
        if c['body'] == 'badreturn':
            c['mkret'] = lambda: to_bad(F, c['bad'])
        elif R != 'void':
            c['mkret'] = lambda: to_py(F, c['ret'], c['retform'])
        if c['mkret']:
            c['mkret']()
        c['seen'] = []
        c['nested_done'] = False
        if c['nest']:
            prepare(c['nest'])
    try:
        for c in it['calls']:
            prepare(c)
        kw = {}
        if it['use_err']:
            kw['error'] = to_py(F, it['err'], it['errform'])
        if conf == 'onerror_value' and R != 'void':
            to_py(F, it['oev'], it['oevform'])
        if conf == 'onerror_bad':
            to_bad(F, it['obad'])
    except Exception as e:
        rep.bad('harness:prepare', 'harness error preparing %s: %s: %s' % (sigstr, type(e).__name__, e), it)
        return

    def invoke(c):
        c['u0'], c['o0'] = len(unraisable), len(onerr_calls)
        active.append(c)
        try:
            c['got'] = norm(F, tramp(*c['pyargs']))
            c['escaped'] = None
        except BaseException as e:
            c['got'], c['escaped'] = None, '%s: %s' % (type(e).__name__, str(e)[:200])
        finally:
            active.pop()
        c['u1'], c['o1'] = len(unraisable), len(onerr_calls)

    def f(*a):
        c = active[-1]
        c['seen'].append([norm(F, x) for x in a])
        if c['nest'] and not c['nested_done']:
            c['nested_done'] = True
            invoke(c['nest'])
        if c['body'] == 'raises':
            c['raised'] = (Boom if c['flav'] == 'exc' else BoomBase)(k)
            raise c['raised']
        return c['mkret']() if c['mkret'] else None

    def onerror(exc, val, tb):
        onerr_calls.append((exc, val, tb))
        if conf == 'onerror_raises':
            raise KeyError('in onerror')
        if conf == 'onerror_value' and R != 'void':
            return to_py(F, it['oev'], it['oevform'])
        if conf == 'onerror_bad':
            return to_bad(F, it['obad'])
        return None
    if conf.startswith('onerror'):
        kw['onerror'] = onerror

    # ---- entry point
    try:
        if kind == 'callback':
            if entry in ('direct', 'inline'):
                cb = F.callback(sigstr, f, **kw)
            elif entry in ('deco', 'inline_deco'):
                cb = F.callback(sigstr, **kw)(f)
            elif entry == 'ptrsig':
                cb = F.callback(ptrsig, f, **kw)
            elif entry == 'ctype':
                cb = F.callback(F.typeof(ptrsig), f, **kw)
            elif entry == 'positional':
                cb = F.callback(sigstr, f, kw.get('error'), kw.get('onerror'))
            else:
                raise HarnessError(entry)
            if via == 'py':
                tramp = cb
            elif inline:
                itype = '%s(*)(%s%s%s)' % (R, '%s(*)(%s)' % (R, ', '.join(s['args']) or 'void'),
                                           ', ' if s['args'] else '', ', '.join(s['args']))
                ifn = F.cast(itype, int(ffi.cast('uintptr_t', ffi.addressof(lib, 'call_%d' % k))))
                tramp = lambda *a: ifn(cb, *a)
            else:
                ctramp = getattr(lib, 'call_%d' % k)
                tramp = lambda *a: ctramp(cb, *a)
        else:
            if entry == 'name':
                ffi.def_extern(name='ep_%d' % k, **kw)(f)
            elif entry == 'noname':
                f.__name__ = 'ep_%d' % k
                ffi.def_extern(**kw)(f)
            elif entry == 'positional':
                ffi.def_extern('ep_%d' % k, kw.get('error'), kw.get('onerror'))(f)
            else:
                raise HarnessError(entry)
            tramp = getattr(lib, ('callep_%d' if via == 'c' else 'ep_%d') % k)
    except HarnessError as e:
        rep.bad('harness:entry', 'unknown entry %s' % e, it)
        return
    except BaseException as e:
        rep.case((sigstr, kind, entry, 'creation'), nontrivial=True)
        rep.bad('callback-creation-failed:' + kind, '%s entry=%s kw=%s: %s: %s' %
                (sigstr, entry, sorted(kw), type(e).__name__, str(e)[:300]), it)
        return
    rep.stat('entry_%s_%s' % (kind, entry))
    rep.stat('via_%s_%s' % (kind, via))
    rep.stat('decl_' + s['decl'] if kind == 'externpy' else 'sigs_callback')
    if it['use_err'] and conf.startswith('onerror'):
        rep.stat('error_value_next_to_onerror')
    if it['use_err']:
        rep.stat('errform_' + it['errform'].split(':')[0])
    if len(it['calls']) > 1:
        rep.stat('items_with_repeated_invocations')

    for ci, c in enumerate(it['calls']):
        invoke(c)
        judge_call(rep, it, s, sigstr, c, ci, unraisable, onerr_calls, None)
        if c['nest']:
            if c['seen'] and 'got' in c['nest']:
                rep.stat('nested_invocations')
                judge_call(rep, it, s, sigstr, c['nest'], ci, unraisable, onerr_calls, c)
            elif c['seen']:
                rep.bad('harness:nest', 'nested call not performed', it)


def judge_call(rep, it, s, sigstr, c, ci, unraisable, onerr_calls, outer):
    kind, conf, R = it['kind'], it['conf'], s['ret']
    body = c['body']
    tagb = body if body in ('normal', 'badarg') else body + '-' + c['flav']
    rep.case((sigstr, kind, it['entry'], it['via'], tagb, conf, it['use_err'], repr(c['args']),
              ci, outer is not None),
             nontrivial=bool(c['args']) or R != 'void',
             sample={'sig': sigstr, 'kind': kind, 'entry': it['entry'], 'via': it['via'],
                     'body': tagb, 'conf': conf, 'args': repr(c['args'])[:120]})
    rep.stat('%s_%s_%s' % (kind, body, conf))
    if body == 'normal':
        rep.stat('retform_' + c['retform'].split(':')[0])
    elif body == 'badreturn':
        rep.stat('badreturn_' + c['flav'])
    elif body == 'raises':
        rep.stat('raises_' + c['flav'])
    if ci > 0:
        rep.stat('invocation_%s_after_%s' % ('ok' if body == 'normal' else 'failing',
                                             'ok' if it['calls'][ci - 1]['body'] == 'normal' else 'failing'))
    if outer is not None:
        rep.stat('nested_%s_in_%s' % ('ok' if body == 'normal' else 'failing',
                                      'ok' if outer['body'] == 'normal' else 'failing'))
    tag = '%s/%s entry=%s via=%s call#%d%s' % (tagb, conf, it['entry'], it['via'], ci,
                                               ' (nested)' if outer is not None else '')
    # replay detail: this call only (with its outer call when nested)
    d = dict((k_, v_) for k_, v_ in it.items() if k_ != 'calls')
    d['calls'] = [strip(x) for x in it['calls'][:ci + 1]]
    if c['escaped']:
        rep.bad('exception-escaped-into-caller:' + kind, '%s %s: %s escaped from the call' %
                (sigstr, tag, c['escaped']), d)
        return
    want_seen = 0 if body == 'badarg' else 1
    if len(c['seen']) != want_seen:
        rep.bad('python-function-call-count:' + kind, '%s %s: Python function ran %d times' %
                (sigstr, tag, len(c['seen'])), d)
        return
    if want_seen and (len(c['seen'][0]) != len(c['args']) or
                      not all(same(x, y) for x, y in zip(c['seen'][0], c['args']))):
        rep.bad('arguments-differ:' + kind, '%s %s: passed %r, Python function received %r' %
                (sigstr, tag, c['args'], c['seen'][0]), d)
    # reports that belong to this call (not to the nested one)
    n = c['nest'] if (c['nest'] and 'u0' in c['nest']) else None
    own_u = [unraisable[i] for i in range(c['u0'], c['u1']) if not (n and n['u0'] <= i < n['u1'])]
    own_o = [onerr_calls[i] for i in range(c['o0'], c['o1']) if not (n and n['o0'] <= i < n['o1'])]
    g = c['got']
    if body == 'normal':
        if not same(g, effective(c['ret'], c['retform'])):
            partial = c['retform'].startswith(('pdict:', 'plist:'))
            rep.bad(('partial-initializer-result-indeterminate:' if partial else 'result-differs:') + kind,
                    '%s %s: Python returned %r (as %s), C caller received %r' %
                    (sigstr, tag, c['ret'], c['retform'], g), d)
        if own_u or own_o:
            rep.bad('spurious-error-report:' + kind, '%s %s: normal call reported %r %r' %
                    (sigstr, tag, [type(x).__name__ for x in own_u], [x[0].__name__ for x in own_o]), d)
        return
    # failing calls: expected value at the C caller
    if R == 'void':
        exp = None
    elif conf == 'onerror_value':
        exp = it['oev']
    elif it['use_err']:
        exp = effective(it['err'], it['errform'])
    else:
        exp = zero_of(R)
    if not same(g, exp):
        rep.bad('error-value-differs:%s:%s' % (kind, conf), '%s %s: C caller received %r, '
                'expected %r (error=%r, bad value %r)' % (sigstr, tag, g, exp,
                                                           it['use_err'] and it['err'], c['bad']), d)
    raised = c.get('raised')
    if conf.startswith('onerror'):
        if len(own_o) != 1:
            rep.bad('onerror-call-count:' + kind, '%s %s: onerror ran %d times' %
                    (sigstr, tag, len(own_o)), d)
        else:
            exc, val, tb = own_o[0]
            ok = isinstance(exc, type) and isinstance(val, BaseException) and type(val) is exc
            if body == 'raises':
                ok = ok and val is raised and tb is not None and type(tb).__name__ == 'traceback'
            if not ok:
                rep.bad('onerror-arguments:' + kind, '%s %s: onerror received (%r, %r, %r), raised '
                        'was %r' % (sigstr, tag, exc, val, tb, raised), d)
        if conf in ('onerror_value', 'onerror_none'):
            if own_u:
                rep.bad('spurious-error-report:' + kind, '%s %s: the error was handled by onerror '
                        'but sys.unraisablehook received %r' %
                        (sigstr, tag, [type(x).__name__ for x in own_u]), d)
        elif not own_u:
            rep.bad('error-not-reported:' + kind, '%s %s: the exception raised / caused by '
                    'onerror itself was not given to sys.unraisablehook' % (sigstr, tag), d)
    else:
        if not own_u:
            rep.bad('error-not-reported:' + kind, '%s %s: the exception was neither given to '
                    'sys.unraisablehook nor to onerror' % (sigstr, tag), d)
        elif body == 'raises' and not any(x is raised for x in own_u):
            rep.bad('error-report-wrong-exception:' + kind, '%s %s: sys.unraisablehook received '
                    '%r, raised was %r' % (sigstr, tag, own_u, raised), d)


def strip(c):
    out = dict((k, c[k]) for k in ('args', 'body', 'flav', 'ret', 'bad', 'retform'))
    out['nest'] = strip(c['nest']) if c.get('nest') else None
    return out


# The wrapper that cffi generates for an API-mode C function with a complex argument uses
# _cffi_type(<canonical slot of the complex type>), but lib.<function> only realizes the
# function's own (inlined) argument slots: calling such a function before anything else realized
# the canonical slot crashes.  That is a defect of the plain function call path (C05's subject,
# reported there), not of callbacks; the trampolines of this check must not trip over it, so the
# two complex types are realized through functions that return them.
PREREALIZE = ('c14_rfc', 'c14_rdc')


def child_case(st, case):
    import importlib
    rep = core.ChildRep()
    mod = importlib.import_module(case['mod'])
    for name in PREREALIZE:
        getattr(mod.lib, name)
    spec, sigs = module_spec(st['dir'], case['seed'], case['nsig'], case['mod'], case.get('sys', ()))
    st['unraisable'] = []
    sys.unraisablehook = lambda u: st['unraisable'].append(u.exc_value)
    for it in case['plan']:
        run_item(st, rep, mod, sigs, it)
    del st['unraisable'][:]
    return rep.result()


def judge(ctx, setup, case, obs):
    def rp(detail):
        c = dict(case)
        c['plan'] = [detail]
        return c
    core.absorb(ctx, case, obs, rp)


def replay_setup(ctx, case):
    d = os.path.join(ctx.tmp, 'mods')
    spec, sigs = module_spec(d, case['seed'], case['nsig'], case['mod'], case.get('sys', ()))
    res = modbuild.build_modules(ctx, [spec])
    if not res[case['mod']]['ok']:
        raise core.Inconclusive('module build failed')
    return {'dir': d}
