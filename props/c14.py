"""C14 -- callbacks and extern "Python" pass values exactly and contain errors.

Per generated module: for ~30 random signatures a C trampoline
`R call_k(R (*cb)(A...), A...)` and an extern "Python" function with a C
caller.  The Python function records the argument tuple it receives (must be
the tuple handed to the trampoline) and returns a value that must come back
unchanged.  Bodies: normal / raising / returning an unconvertible value;
configuration: no error value, error=v, onerror returning a value / None /
raising.  The C caller must receive the declared error value (or onerror's
value) and no exception may escape into the caller.
"""
import os, sys, random, struct
from vlib import core, modbuild, gen

RULE = ("case = (signature, kind ffi.callback|extern \"Python\", scenario, argument tuple); "
        "signatures over all integer sizes/signs, _Bool, char, float, double, pointers, struct by "
        "value (args and result; 2/8/16/40-byte structs of INTEGER, SSE and MEMORY class, unions), "
        "long double, wchar_t, enum, void result; scenarios = {normal, raises, bad-return} x {no "
        "error value, error=v, onerror->value, onerror->None, onerror raises}; distinct = "
        "(signature, kind, scenario, values); non-trivial = at least one argument or a non-void "
        "result")
ASSUMPTIONS = ["values are chosen exactly representable in the declared C types (conversion exactness is C03/C05's business)",
               "'no exception escapes' is observed as: the C trampoline call returns normally to Python and sys.unraisablehook / onerror receive the exception"]

INTS = [('signed char', 1, True), ('unsigned char', 1, False), ('short', 2, True),
        ('unsigned short', 2, False), ('int', 4, True), ('unsigned int', 4, False),
        ('long', 8, True), ('unsigned long long', 8, False), ('int8_t', 1, True),
        ('uint16_t', 2, False), ('int64_t', 8, True), ('size_t', 8, False)]
INTS_X = INTS + [('enum en', 4, False)]
# aggregates passed and returned by value: (fields as (name, C type, 'i'|'f'|bytes-length))
AGGS = {
    'struct pt': [('a', 'int', 'i'), ('b', 'short', 'i'), ('c', 'double', 'f')],           # 16 bytes, INTEGER+SSE
    'struct sm': [('x', 'signed char', 'i'), ('y', 'unsigned char', 'i')],                  # 2 bytes
    'struct fl': [('f', 'float', 'f'), ('g', 'float', 'f')],                               # 8 bytes, SSE
    'struct big': [('l0', 'long', 'i'), ('l1', 'long', 'i'), ('d', 'double', 'f'),
                   ('l2', 'long', 'i'), ('z', 'signed char', 'i')],                        # 40 bytes, MEMORY
    'union un': [('c', 'unsigned char', 12)],                                              # 16 bytes
    'union u8': [('c', 'unsigned char', 8)],                                               # 8 bytes
}
ARGT = [t[0] for t in INTS_X] + ['_Bool', 'char', 'float', 'double', 'int *', 'long double',
                                 'wchar_t'] + sorted(AGGS) + ['struct pt']
RETT = ARGT + ['void']
STRUCT = ('struct pt { int a; short b; double c; }; struct sm { signed char x; unsigned char y; }; '
          'struct fl { float f; float g; }; '
          'struct big { long l0; long l1; double d; long l2; signed char z; }; '
          'union un { int i; double d; unsigned char c[12]; }; '
          'union u8 { int i; float f; unsigned char c[8]; }; '
          'enum en { EN0, EN1 = 5, EN2 = 70000, EN3 = 0xFFFFFFFF };')
SCEN = [(b, c) for b in ('normal', 'raises', 'badreturn')
        for c in ('noerror', 'error', 'onerror_value', 'onerror_none', 'onerror_raises')]


def gen_sigs(seed, n):
    rnd = random.Random(seed)
    sigs = []
    for k in range(n):
        na = rnd.choice([0, 1, 1, 2, 3, 4, 6, 9])
        sigs.append({'k': k, 'args': [rnd.choice(ARGT) for _ in range(na)],
                     'ret': rnd.choice(RETT)})
    return sigs


def module_spec(d, seed, n, name):
    sigs = gen_sigs(seed, n)
    cdef, src = [STRUCT], ['#include <stdint.h>', '#include <stddef.h>', '#include <wchar.h>', STRUCT]
    for s in sigs:
        k, R = s['k'], s['ret']
        at = ', '.join(s['args']) or 'void'
        params = ', '.join('%s a%d' % (a, i) for i, a in enumerate(s['args']))
        names = ', '.join('a%d' % i for i in range(len(s['args'])))
        cbp = '%s (*cb)(%s)' % (R, at)
        cdef.append('%s call_%d(%s%s%s);' % (R, k, cbp, ', ' if s['args'] else '', params))
        cdef.append('extern "Python" %s ep_%d(%s);' % (R, k, at))
        cdef.append('%s callep_%d(%s);' % (R, k, params or 'void'))
        ret = '' if R == 'void' else 'return '
        src.append('%s call_%d(%s%s%s) { %scb(%s); }' % (R, k, cbp, ', ' if s['args'] else '',
                                                        params, ret, names))
        src.append('static %s ep_%d(%s);' % (R, k, at))
        src.append('%s callep_%d(%s) { %sep_%d(%s); }' % (R, k, params or 'void', ret, k, names))
    return {'name': name, 'kind': 'api', 'cdef': '\n'.join(cdef), 'source': '\n'.join(src),
            'dir': d}, sigs


def gen_val(rnd, T):
    """JSON-able value descriptor for type T (exactly representable)"""
    for (n, size, signed) in INTS_X:
        if T == n:
            lo, hi = gen.int_range(size, signed)
            return ['int', rnd.choice([lo, hi, 0, 1, rnd.randint(lo, hi)])]
    if T == 'long double':
        return ['float', rnd.choice([0.0, 1e300, -1.1, 0.5, rnd.uniform(-1e9, 1e9)]).hex()]
    if T == 'wchar_t':
        return ['str', rnd.choice([u'a', u'\x00', u'\xe9', u'\u1234', u'\U0001f600',
                                   chr(rnd.randrange(32, 0xd800))])]
    if T in AGGS and T != 'struct pt':
        vals = []
        for fn, ft, fk in AGGS[T]:
            if fk == 'i':
                size, signed = [(z, sg) for (n_, z, sg) in INTS if n_ == ft][0]
                lo, hi = gen.int_range(size, signed)
                vals.append(rnd.choice([lo, hi, 0, 1, rnd.randint(lo, hi)]))
            elif fk == 'f':
                vals.append(rnd.choice([1.5, -3.25, 0.0, 1024.0] + ([1e100] if ft == 'double' else [])))
            else:
                vals.append([rnd.randrange(256) for _ in range(fk)])
        return ['struct', vals, T]
    if T == '_Bool':
        return ['bool', rnd.choice([True, False])]
    if T == 'char':
        return ['bytes', bytes([rnd.randrange(256)]).hex()]
    if T == 'float':
        return ['float', float(rnd.choice([0, 1.5, -2.25, 1024.0, rnd.randint(-2 ** 20, 2 ** 20) / 4.0])).hex()]
    if T == 'double':
        return ['float', rnd.choice([0.0, 1e300, -1.1, rnd.uniform(-1e9, 1e9)]).hex()]
    if T == 'int *':
        return ['ptr', rnd.choice([0, 8, rnd.getrandbits(47) & ~3])]
    if T == 'struct pt':
        return ['struct', [rnd.randint(-2 ** 31, 2 ** 31 - 1), rnd.randint(-2 ** 15, 2 ** 15 - 1),
                           rnd.choice([1.5, -3.25, 1e100])], T]
    raise ValueError(T)


def generate(ctx):
    rng = ctx.rng('gen')
    nmod = ctx.scale(3, 100)
    nsig = 30
    d = os.path.join(ctx.tmp, 'mods')
    specs, cases = [], []
    for m in range(nmod):
        seed = rng.getrandbits(40)
        name = '_c14_%d' % m
        spec, sigs = module_spec(d, seed, nsig, name)
        specs.append(spec)
        plan = []
        for s in sigs:
            for kind in ('callback', 'externpy'):
                if kind == 'callback' and any(t.startswith('union') for t in s['args'] + [s['ret']]):
                    # ffi.callback() goes through libffi, which has no by-value unions
                    # (documented NotImplementedError); extern "Python" supports them
                    ctx.count('callback_signatures_with_union_skipped')
                    continue
                for (body, conf) in SCEN:
                    if body == 'normal' and conf != 'noerror' and rng.random() < 0.5:
                        continue
                    args = [gen_val(rng, a) for a in s['args']]
                    ret = None if s['ret'] == 'void' else gen_val(rng, s['ret'])
                    err = None if s['ret'] == 'void' else gen_val(rng, s['ret'])
                    oev = None if s['ret'] == 'void' else gen_val(rng, s['ret'])
                    plan.append([s['k'], kind, body, conf, args, ret, err, oev])
        cases.append({'mod': name, 'seed': seed, 'nsig': nsig, 'plan': plan})
    res = modbuild.build_modules(ctx, specs)
    for c in cases:
        if not res[c['mod']]['ok']:
            raise core.Inconclusive('module build failed: ' + res[c['mod']]['error'] +
                                    res[c['mod']].get('log', '')[-1500:])
    return {'dir': d}, cases


def child_setup(setup, wd):
    sys.path.insert(0, setup['dir'])
    sys.stderr = open(os.devnull, 'w')
    return {'dir': setup['dir']}


def to_py(ffi, d):
    k, v = d[0], d[1]
    if k == 'str':
        return v
    if k == 'int' or k == 'bool':
        return v
    if k == 'bytes':
        return bytes.fromhex(v)
    if k == 'float':
        return float.fromhex(v)
    if k == 'ptr':
        return ffi.cast('int *', v)
    if k == 'struct':
        T = d[2]
        return ffi.new(T + ' *', dict((f[0], x) for f, x in zip(AGGS[T], v)))[0]


def norm(ffi, x):
    if isinstance(x, ffi.CData):
        t = ffi.typeof(x)
        if t.kind == 'pointer':
            return ['ptr', int(ffi.cast('uintptr_t', x))]
        if t.kind in ('struct', 'union'):
            return ['struct', [getattr(x, fn) if not isinstance(fk, int) else list(getattr(x, fn))
                               for fn, ft, fk in AGGS[t.cname]], t.cname]
        if t.kind == 'primitive' and t.cname == 'long double':
            return ['float', float(x).hex()]
        return ['cdata', repr(x)]
    if isinstance(x, bool):
        return ['bool', x]
    if isinstance(x, int):
        return ['int', x]
    if isinstance(x, float):
        return ['float', x.hex()]
    if isinstance(x, bytes):
        return ['bytes', x.hex()]
    if isinstance(x, str):
        return ['str', x]
    if x is None:
        return None
    return ['other', repr(x)]


def zero_of(T):
    if T == 'void':
        return None
    if T == '_Bool':
        return ['bool', False]
    if T == 'char':
        return ['bytes', '00']
    if T in ('float', 'double', 'long double'):
        return ['float', (0.0).hex()]
    if T == 'int *':
        return ['ptr', 0]
    if T == 'wchar_t':
        return ['str', u'\x00']
    if T in AGGS:
        return ['struct', [0 if fk == 'i' else (0.0 if fk == 'f' else [0] * fk)
                           for fn, ft, fk in AGGS[T]], T]
    return ['int', 0]


def same(a, b):
    if a is None or b is None:
        return a == b
    if a[0] in ('int', 'bool') and b[0] in ('int', 'bool'):
        return int(a[1]) == int(b[1])
    if a[0] == 'struct' and b[0] == 'struct':
        return list(a[1]) == list(b[1]) and a[2] == b[2]
    if a[0] == 'float' and b[0] == 'float':
        return float.fromhex(a[1]) == float.fromhex(b[1])
    return list(a) == list(b)


class Boom(Exception):
    pass


def child_case(st, case):
    import importlib
    rep = core.ChildRep()
    mod = importlib.import_module(case['mod'])
    ffi, lib = mod.ffi, mod.lib
    spec, sigs = module_spec(st['dir'], case['seed'], case['nsig'], case['mod'])
    unraisable = []
    sys.unraisablehook = lambda u: unraisable.append(type(u.exc_value).__name__)
    for k, kind, body, conf, args, ret, err, oev in case['plan']:
        s = sigs[k]
        R = s['ret']
        sigstr = '%s(%s)' % (R, ', '.join(s['args']))
        seen = []
        onerr_calls = []

        def f(*a):
            seen.append([norm(ffi, x) for x in a])
            if body == 'raises':
                raise Boom(k)
            if body == 'badreturn' and R != 'void':
                return object()
            if body == 'badreturn':
                return 'not none'     # void callbacks must return None
            return None if R == 'void' else to_py(ffi, ret)

        def onerror(exc, val, tb):
            onerr_calls.append(exc.__name__)
            if conf == 'onerror_raises':
                raise KeyError('in onerror')
            if conf == 'onerror_value' and R != 'void':
                return to_py(ffi, oev)
            return None
        kw = {}
        if conf in ('error', 'onerror_none', 'onerror_raises') and R != 'void' and \
                (conf == 'error' or random.Random(k).random() < 0.5):
            kw['error'] = to_py(ffi, err)
        if conf.startswith('onerror'):
            kw['onerror'] = onerror
        del unraisable[:]
        detail = [k, kind, body, conf, args, ret, err, oev]
        try:
            pyargs = [to_py(ffi, a) for a in args]
            if kind == 'callback':
                cb = ffi.callback(sigstr, f, **kw)
                got = getattr(lib, 'call_%d' % k)(cb, *pyargs)
            else:
                ffi.def_extern(name='ep_%d' % k, **kw)(f)
                got = getattr(lib, 'callep_%d' % k)(*pyargs)
            escaped = None
        except BaseException as e:
            got, escaped = None, type(e).__name__
        rep.case((sigstr, kind, body, conf, repr(args)), nontrivial=bool(args) or R != 'void',
                 sample={'sig': sigstr, 'kind': kind, 'body': body, 'conf': conf,
                         'args': repr(args)[:120]})
        rep.stat('%s_%s_%s' % (kind, body, conf))
        tag = '%s:%s' % (kind, body if body == 'normal' else body + '/' + conf)
        if escaped:
            rep.bad('exception-escaped-into-caller:' + kind, '%s %s: %s escaped from the C '
                    'trampoline call' % (sigstr, tag, escaped), detail)
            continue
        if len(seen) != 1:
            rep.bad('python-function-call-count:' + kind, '%s: Python function ran %d times' %
                    (sigstr, len(seen)), detail)
            continue
        if not all(same(x, y) for x, y in zip(seen[0], args)) or len(seen[0]) != len(args):
            rep.bad('arguments-differ:' + kind, '%s: passed %r, Python function received %r' %
                    (sigstr, args, seen[0]), detail)
        g = norm(ffi, got)
        failing = body != 'normal'
        if not failing:
            if not same(g, ret):
                rep.bad('result-differs:' + kind, '%s: Python returned %r, C caller received %r' %
                        (sigstr, ret, g), detail)
            if unraisable or onerr_calls:
                rep.bad('spurious-error-report:' + kind, '%s normal call reported %r %r' %
                        (sigstr, unraisable, onerr_calls), detail)
            continue
        # failing bodies: expected value at the C caller
        if R == 'void':
            exp = None
        elif conf == 'onerror_value':
            exp = oev
        elif 'error' in kw:
            exp = err
        else:
            exp = zero_of(R)
        if not same(g, exp):
            rep.bad('error-value-differs:%s:%s' % (kind, conf), '%s %s: C caller received %r, '
                    'expected %r (error=%r)' % (sigstr, tag, g, exp, kw.get('error') is not None and err),
                    detail)
        if conf.startswith('onerror'):
            if len(onerr_calls) != 1:
                rep.bad('onerror-call-count:' + kind, '%s %s: onerror ran %d times' %
                        (sigstr, tag, len(onerr_calls)), detail)
        elif not unraisable:
            rep.bad('error-not-reported:' + kind, '%s %s: the exception was neither given to '
                    'sys.unraisablehook nor to onerror' % (sigstr, tag), detail)
    return rep.result()


def judge(ctx, setup, case, obs):
    def rp(detail):
        c = dict(case)
        c['plan'] = [detail]
        return c
    core.absorb(ctx, case, obs, rp)


def replay_setup(ctx, case):
    d = os.path.join(ctx.tmp, 'mods')
    spec, sigs = module_spec(d, case['seed'], case['nsig'], case['mod'])
    res = modbuild.build_modules(ctx, [spec])
    if not res[case['mod']]['ok']:
        raise core.Inconclusive('module build failed')
    return {'dir': d}
