"""C19 -- buffers, from_buffer and memmove match a byte-array model.

History + model: one backing memory (bytearray / array.array / cdata) with a
bytearray model driven in lock-step; every observable read is compared, and
after every step the whole memory.  ASan decides out-of-range copies and
memcpy-param-overlap.
"""
import sys, os, array
from vlib import gen, core

MEMCHECK_SAMPLE = 4
RULE = ("case = one history of 50 random operations over a backing memory of 0..64 bytes of kind "
        "bytearray / array.array('B','h','i','d') / ffi.new: buffer(p,k) windows, len, index "
        "(incl. negative and out of range), slices with arbitrary/negative/missing bounds, item and "
        "slice assignment from bytes/bytearray/memoryview/another ffi.buffer (disjoint or "
        "overlapping the target) with right and wrong lengths, comparisons, from_buffer('T[]') "
        "length/aliasing, fixed T[N] on too-small objects, require_writable, memmove between all "
        "combinations of cdata and Python buffers at every overlap offset; distinct = (memory "
        "kind, size, op, args); non-trivial = any op except len()")
ASSUMPTIONS = ["buffer[i] returns a 1-byte bytes object (cffi's documented element type), everything else follows bytearray slice semantics",
               "sources of slice assignment are the kinds the statement lists (objects with the buffer interface); a cdata source is outside the class"]


def generate(ctx):
    rng = ctx.rng('gen')
    nh = ctx.scale(2500, 80000)
    per = 100
    seeds = [rng.getrandbits(48) for _ in range(nh)]
    return None, [{'seeds': seeds[i:i + per], 'ops': 50} for i in range(0, nh, per)]


def child_setup(setup, wd):
    from cffi import FFI
    return {'ffi': FFI()}


class H(object):
    def __init__(self, ffi, rnd, rep, seed):
        self.ffi, self.rnd, self.rep, self.seed = ffi, rnd, rep, seed
        self.kind = rnd.choice(['bytearray', 'bytearray', 'arrayB', 'arrayh', 'arrayi', 'arrayd',
                                'cdata', 'cdata'])
        unit = {'arrayh': 2, 'arrayi': 4, 'arrayd': 8}.get(self.kind, 1)
        self.N = rnd.choice([0, 1, 2, 3, 5, 8, 13, 16, 31, 64]) // unit * unit
        init = bytes(rnd.getrandbits(8) for _ in range(self.N))
        if self.kind == 'bytearray':
            self.obj = bytearray(init)
            self.c = ffi.from_buffer(self.obj)
        elif self.kind.startswith('array'):
            self.obj = array.array(self.kind[-1])
            self.obj.frombytes(init)
            self.c = ffi.from_buffer(self.obj)
        else:
            self.obj = None
            self.c = ffi.new('char[]', self.N)
            if self.N:
                ffi.buffer(self.c)[:] = init
        self.model = bytearray(init)
        self.other = ffi.new('char[]', 80)      # independent memory
        ffi.buffer(self.other)[:] = bytes(rnd.getrandbits(8) for _ in range(80))
        self.oplog = []

    def desc(self):
        return '%s(%d bytes)' % (self.kind, self.N)

    def bad(self, mech, msg):
        self.rep.bad(mech, '%s: %s | history seed %d, last ops %r' %
                     (self.desc(), msg, self.seed, self.oplog[-5:]), self.seed)

    def real(self):
        if self.kind == 'bytearray':
            return bytes(self.obj)
        if self.kind.startswith('array'):
            return self.obj.tobytes()
        return bytes(self.ffi.buffer(self.c, self.N))

    def check_mem(self, what):
        r = self.real()
        if r != bytes(self.model):
            diff = [i for i in range(self.N) if r[i] != self.model[i]]
            self.bad('memory-differs-from-model', 'after %s memory differs at %r: real %s model %s'
                     % (what, diff[:10], r.hex(), bytes(self.model).hex()))
            self.model[:] = r
        if bytes(self.ffi.buffer(self.c, self.N)) != r:
            self.bad('buffer-not-live', 'ffi.buffer view differs from the object after %s' % what)

    def window(self):
        rnd = self.rnd
        off = rnd.randint(0, self.N)
        k = rnd.randint(0, self.N - off)
        if rnd.random() < 0.3:
            off, k = 0, self.N
        return off, k

    def rand_idx(self, k):
        r = self.rnd.random()
        if r < 0.8:
            return self.rnd.randint(-k - 3, k + 3)
        return self.rnd.choice([None, 2 ** 63 - 1, -2 ** 63, 2 ** 70, -2 ** 70, 0, k])

    def source(self, want, off, k, i0):
        """a source object of `want` bytes; returns (obj, expected bytes, kind)"""
        rnd, ffi = self.rnd, self.ffi
        kind = rnd.choice(['bytes', 'bytearray', 'memoryview', 'otherbuf', 'overlapbuf'])
        if kind == 'overlapbuf' and want <= self.N:
            so = rnd.randint(0, self.N - want)
            if rnd.random() < 0.7 and want:      # force a real overlap
                lo = max(0, off + i0 - want + 1)
                hi = min(self.N - want, off + i0 + want - 1)
                if lo <= hi:
                    so = rnd.randint(lo, hi)
            src = ffi.buffer(self.c + so, want) if self.kind == 'cdata' else \
                ffi.buffer(ffi.cast('char *', self.c) + so, want)
            return src, bytes(self.model[so:so + want]), kind
        if kind in ('otherbuf', 'overlapbuf'):
            so = rnd.randint(0, 80 - want) if want <= 80 else 0
            want = min(want, 80)
            return ffi.buffer(self.other + so, want), bytes(ffi.buffer(self.other + so, want)), 'otherbuf'
        data = bytes(rnd.getrandbits(8) for _ in range(want))
        if kind == 'bytes':
            return data, data, kind
        if kind == 'bytearray':
            return bytearray(data), data, kind
        return memoryview(data), data, kind

    def step(self):
        rnd, ffi = self.rnd, self.ffi
        op = rnd.choice(['len', 'index', 'slice', 'slice', 'setitem', 'setslice', 'setslice',
                         'setslice_wrong', 'compare', 'from_buffer', 'memmove', 'memmove',
                         'fixed_from_buffer', 'bytes'])
        off, k = self.window()
        base = self.c if self.kind == 'cdata' else ffi.cast('char *', self.c)
        b = ffi.buffer(base + off, k)
        m = self.model
        win = lambda: bytes(m[off:off + k])
        key = (op, off, k)
        if op == 'len':
            if len(b) != k:
                self.bad('len', 'len(buffer(p+%d, %d)) = %d' % (off, k, len(b)))
            if off == 0 and self.kind == 'cdata':
                if len(ffi.buffer(self.c)) != self.N:
                    self.bad('len', 'len(buffer(array)) = %d' % len(ffi.buffer(self.c)))
        elif op == 'bytes':
            if bytes(b) != win() or b[:] != win():
                self.bad('bytes', 'bytes(buffer) = %s, expected %s' % (bytes(b).hex(), win().hex()))
        elif op == 'index':
            i = self.rand_idx(k)
            if i is None:
                i = 0
            key += (i,)
            try:
                ref = bytes([win()[i]])
            except (IndexError, OverflowError):
                ref = IndexError
            try:
                got = b[i]
            except IndexError:
                got = IndexError
            if got != ref:
                self.bad('index', 'buffer[%d] (len %d) -> %r, model %r' % (i, k, got, ref))
        elif op == 'slice':
            i, j = self.rand_idx(k), self.rand_idx(k)
            key += (i, j)
            ref = win()[i:j]
            try:
                got = b[i:j]
            except Exception as e:
                got = type(e).__name__
            if got != ref:
                self.bad('slice', 'buffer[%r:%r] (len %d) -> %r, model %r' % (i, j, k, got, ref))
            if rnd.random() < 0.2:
                if b[i:j:1] != ref:
                    self.bad('slice', 'buffer[%r:%r:1] differs' % (i, j))
        elif op == 'setitem':
            i = self.rand_idx(k)
            if i is None:
                i = 0
            v = rnd.getrandbits(8)
            key += (i,)
            inr = -k <= i < k
            try:
                b[i] = bytes([v])
                res = 'ok'
            except IndexError:
                res = 'IndexError'
            except Exception as e:
                res = type(e).__name__
            if inr:
                if res != 'ok':
                    self.bad('setitem', 'buffer[%d] = b (len %d) raised %s' % (i, k, res))
                else:
                    m[off + (i % k)] = v
            elif res != 'IndexError':
                self.bad('setitem-out-of-range', 'buffer[%d] = b (len %d): %s' % (i, k, res))
        elif op in ('setslice', 'setslice_wrong'):
            i, j = self.rand_idx(k), self.rand_idx(k)
            st, en, _ = slice(i, j).indices(k)
            en = max(st, en)
            want = en - st
            if op == 'setslice_wrong':
                want = max(0, want + rnd.choice([-2, -1, 1, 2, 5]))
                if want == en - st:
                    want += 1
            src, data, sk = self.source(want, off, k, st)
            want = len(data)
            key += (i, j, want, sk)
            try:
                b[i:j] = src
                res = 'ok'
            except ValueError:
                res = 'ValueError'
            except Exception as e:
                res = type(e).__name__ + ': ' + str(e)
            if want == en - st:
                if res != 'ok':
                    self.bad('setslice-rejected', 'buffer[%r:%r] = <%s of %d> (len %d) raised %s' %
                             (i, j, sk, want, k, res))
                else:
                    m[off + st:off + en] = data
                self.rep.stat('setslice_' + sk)
            else:
                if res == 'ok':
                    self.bad('setslice-length-change-accepted', 'buffer[%r:%r] = <%s of %d bytes> '
                             'accepted for a slice of %d bytes' % (i, j, sk, want, en - st))
                elif res != 'ValueError':
                    self.bad('setslice-wrong-exception', 'length-changing slice assignment raised '
                             + res)
                self.rep.stat('setslice_wrong_length')
        elif op == 'compare':
            other = win() if rnd.random() < 0.4 else bytes(rnd.getrandbits(8) for _ in
                                                           range(rnd.choice([k, k, max(0, k - 1), k + 1])))
            if rnd.random() < 0.3 and k:
                o = bytearray(win())
                o[rnd.randrange(k)] ^= 1 << rnd.randrange(8)
                other = bytes(o)
            w = win()
            for name, f in (('==', lambda a, c: a == c), ('!=', lambda a, c: a != c),
                            ('<', lambda a, c: a < c), ('<=', lambda a, c: a <= c),
                            ('>', lambda a, c: a > c), ('>=', lambda a, c: a >= c)):
                if f(b, other) != f(w, other):
                    self.bad('compare', 'buffer %s %s bytes %s -> %r' %
                             (w.hex(), name, other.hex(), f(b, other)))
            ob = ffi.buffer(self.other, min(k, 80))
            if (b == ob) != (w == bytes(ob)):
                self.bad('compare', 'buffer == buffer wrong')
        elif op == 'from_buffer':
            T, sz = rnd.choice([('char', 1), ('short', 2), ('int', 4), ('double', 8),
                                ('unsigned char', 1), ('long long', 8)])
            key += (T,)
            src = self.obj if self.obj is not None else ffi.buffer(self.c, self.N)
            try:
                c2 = ffi.from_buffer(T + '[]', src)
            except Exception as e:
                self.bad('from_buffer-raised', "from_buffer('%s[]') raised %s: %s" %
                         (T, type(e).__name__, e))
                return key
            if len(c2) != self.N // sz:
                self.bad('from_buffer-length', "len(from_buffer('%s[]', <%d bytes>)) = %d" %
                         (T, self.N, len(c2)))
            if len(c2):
                idx = rnd.randrange(len(c2))
                raw = bytes(ffi.buffer(c2)[idx * sz:(idx + 1) * sz])
                if raw != bytes(m[idx * sz:(idx + 1) * sz]):
                    self.bad('from_buffer-alias', 'from_buffer item bytes differ from the object')
                nb = bytes(rnd.getrandbits(8) for _ in range(sz))
                ffi.buffer(c2)[idx * sz:(idx + 1) * sz] = nb
                m[idx * sz:(idx + 1) * sz] = nb
            if int(ffi.cast('uintptr_t', c2)) != int(ffi.cast('uintptr_t', self.c)):
                self.bad('from_buffer-alias', 'from_buffer does not alias the object memory')
            # read-only objects
            ro = bytes(m)
            c3 = ffi.from_buffer(ro)
            if len(c3) != len(ro) or bytes(ffi.buffer(c3)) != ro:
                self.bad('from_buffer-length', 'from_buffer(bytes) wrong')
            try:
                ffi.from_buffer(ro, require_writable=True)
                self.bad('require_writable', 'from_buffer(bytes, require_writable=True) accepted')
            except Exception:
                pass
        elif op == 'fixed_from_buffer':
            T, sz = rnd.choice([('char', 1), ('short', 2), ('int', 4), ('long long', 8)])
            cnt = rnd.choice([self.N // sz, self.N // sz + 1, max(0, self.N // sz - 1),
                              rnd.randint(0, 70)])
            key += (T, cnt)
            src = self.obj if self.obj is not None else ffi.buffer(self.c, self.N)
            try:
                c2 = ffi.from_buffer('%s[%d]' % (T, cnt), src)
                res = 'ok'
            except ValueError:
                res = 'ValueError'
            except Exception as e:
                res = type(e).__name__
            if cnt * sz > self.N:
                if res != 'ValueError':
                    self.bad('fixed-from_buffer-too-small', "from_buffer('%s[%d]', <%d bytes>): %s"
                             % (T, cnt, self.N, res))
            elif res != 'ok':
                self.bad('fixed-from_buffer-rejected', "from_buffer('%s[%d]', <%d bytes>): %s" %
                         (T, cnt, self.N, res))
            elif len(c2) != cnt:
                self.bad('from_buffer-length', 'fixed from_buffer length %d != %d' % (len(c2), cnt))
        elif op == 'memmove':
            n = rnd.randint(0, self.N)
            d = rnd.randint(0, self.N - n)
            s = rnd.randint(0, self.N - n)
            dk = rnd.choice(['cdata', 'buffer', 'obj', 'memoryview'])
            sk = rnd.choice(['cdata', 'buffer', 'obj', 'bytes', 'other', 'otherbuf'])
            key = (op, d, s, n, dk, sk)
            # destination
            if dk == 'cdata':
                dst = base + d
            elif dk == 'buffer':
                dst = ffi.buffer(base + d, self.N - d)
            elif dk == 'obj' and self.obj is not None and d == 0:
                dst = self.obj
            else:
                dst = memoryview(ffi.buffer(base + d, self.N - d))
            if sk == 'cdata':
                src, data = base + s, bytes(m[s:s + n])
            elif sk == 'buffer':
                src, data = ffi.buffer(base + s, self.N - s), bytes(m[s:s + n])
            elif sk == 'obj' and self.obj is not None and s == 0:
                src, data = self.obj, bytes(m[0:n])
            elif sk == 'bytes':
                data = bytes(rnd.getrandbits(8) for _ in range(n))
                src = data + b'xyz'
            elif sk == 'otherbuf':
                src, data = ffi.buffer(self.other, 80), bytes(ffi.buffer(self.other, n))
            else:
                so = rnd.randint(0, 80 - n)
                src, data = self.other + so, bytes(ffi.buffer(self.other + so, n))
            try:
                ffi.memmove(dst, src, n)
            except Exception as e:
                self.bad('memmove-raised', 'memmove(<%s>+%d, <%s>+%d, %d) raised %s: %s' %
                         (dk, d, sk, s, n, type(e).__name__, e))
            else:
                m[d:d + n] = data
            self.rep.stat('memmove_overlapping' if sk in ('cdata', 'buffer', 'obj') and n and
                          abs(d - s) < n else 'memmove_disjoint')
        return key


def child_case(st, case):
    import random
    ffi = st['ffi']
    rep = core.ChildRep()
    for seed in case['seeds']:
        rnd = random.Random(seed)
        h = H(ffi, rnd, rep, seed)
        rep.stat('histories')
        rep.stat('kind_' + h.kind)
        for _ in range(case['ops']):
            try:
                key = h.step()
            except Exception as e:
                import traceback
                h.bad('harness-exception', traceback.format_exc()[-900:])
                break
            h.oplog.append(key)
            h.check_mem(repr(key))
            rep.case((h.kind, h.N, key), nontrivial=key[0] != 'len',
                     sample={'memory': h.desc(), 'op': repr(key)})
        # the export must end when the cdata goes away
        if h.kind == 'bytearray':
            h.c = None
            del h
    return rep.result()


def judge(ctx, setup, case, obs):
    core.absorb(ctx, case, obs, lambda seed: {'seeds': [seed], 'ops': case['ops']})
