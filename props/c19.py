"""C19 -- buffers, from_buffer and memmove match a byte-array model.

History + model: one backing memory (bytearray / array.array / cdata) with a
bytearray model driven in lock-step; every observable read is compared, and
after every step the whole memory.  ASan decides out-of-range copies and
memcpy-param-overlap.
"""
import sys, os, array
from vlib import gen, core

MEMCHECK_SAMPLE = 4
RULE = ("case = one history of 50 random operations over a backing memory of 0..64 bytes "
        "(8%: 100..9000 bytes) of kind "
        "bytearray / array.array('B','h','i','d') / ffi.new('char[]' | 'unsigned char[N]' | 'short[]' | "
        "'int[]' | 'long long[]' | 'struct[]'), driven through the two FFI entry points (cffi.FFI and "
        "_cffi_backend.FFI, positional and keyword calls): buffer(p,k) windows over char/typed/void "
        "pointers, buffer(p) default sizes (arrays, pointers, from_buffer arrays, variable-sized "
        "structs, void*/primitive rejected), len, index (incl. negative, out of range, __index__ "
        "objects, non-integers), iteration, memoryview export, slices with arbitrary/negative/missing "
        "bounds, extended slices (step != 1: model result or TypeError), item and slice assignment "
        "from bytes/bytearray/memoryview/array.array with multi-byte items/another ffi.buffer or "
        "memoryview or from_buffer alias (disjoint or overlapping the target) with right and wrong "
        "lengths (byte length vs item count), wrong item values, non-buffer sources, del, comparisons "
        "with bytes/bytearray/memoryview/array in both operand orders and with non-buffers, "
        "from_buffer('T[]' | 'T[][M]' | 'T *') over whole objects and offset windows (memoryview "
        "slices, ffi.buffer windows) length/aliasing, fixed T[N] / T[N][M] on too-small objects, "
        "require_writable on writable and read-only objects, export pinned while the cdata lives, "
        "memmove between all combinations of char/typed cdata and Python buffers at every overlap "
        "offset, negative n, read-only destinations, invalid operands; distinct = (memory "
        "kind, size, op, args); non-trivial = any op except len()")
ASSUMPTIONS = ["buffer[i] returns a 1-byte bytes object (cffi's documented element type), everything else follows bytearray slice semantics",
               "sources of slice assignment are the kinds the statement lists (objects with the buffer interface); a cdata source is outside the class",
               "extended slices (step != 1) are not supported by ffi.buffer: raising TypeError (memory unchanged) is accepted, any other outcome must equal the bytearray model",
               "buffer[i] = <int | 1-byte bytearray/memoryview> may raise TypeError or store that byte; bytes of another length must be rejected (length-preserving)",
               "ffi.buffer(p) without a size is the documented default: whole array / pointed-to item / allocated size of a variable-sized struct",
               "sizes of C types are those of the x86-64 SysV ABI (short 2, int 4, long long 8, double 8)"]

CDEF = ("struct c19_t3 { char a[3]; };"             # size 3
        "struct c19_t12 { int a[3]; };"             # size 12
        "struct c19_s { int a; char b; };"          # size 8
        "struct c19_vc { int n; char d[]; };"       # offsetof(d) 4, item 1, sizeof 4
        "struct c19_vi { char c; int d[]; };")      # offsetof(d) 4, item 4, sizeof 4
SIZES = {'char': 1, 'unsigned char': 1, 'signed char': 1, '_Bool': 1, 'short': 2, 'unsigned short': 2,
         'int': 4, 'float': 4, 'double': 8, 'long long': 8, 'struct c19_s': 8,
         'struct c19_t3': 3, 'struct c19_t12': 12,
         # character item types wider than one byte (a 'char' item is one byte, these are not)
         'wchar_t': 4, 'char16_t': 2, 'char32_t': 4}
TYPES = sorted(SIZES)
CDATA_KINDS = {'cdata': ('char[]', 1), 'cdata_uchar_fixed': (None, 1), 'cdata_short': ('short[]', 2),
               'cdata_int': ('int[]', 4), 'cdata_ll': ('long long[]', 8),
               'cdata_struct': ('struct c19_s[]', 8)}


def generate(ctx):
    rng = ctx.rng('gen')
    nh = ctx.scale(2500, 80000)
    per = 100
    seeds = [rng.getrandbits(48) for _ in range(nh)]
    return None, [{'seeds': seeds[i:i + per], 'ops': 50} for i in range(0, nh, per)]


def child_setup(setup, wd):
    from cffi import FFI
    import _cffi_backend
    ffi = FFI()
    ffi.cdef(CDEF)
    # the C-level FFI class (what compiled modules use) is the second entry point;
    # its from_buffer / memmove / buffer are separate argument parsers in ffi_obj.c
    return {'ffi': ffi, 'ffi2': _cffi_backend.FFI()}


class Idx(object):
    def __init__(self, v):
        self.v = v

    def __index__(self):
        return self.v


class H(object):
    def __init__(self, ffi, rnd, rep, seed, ffi2=None):
        self.ffi, self.rnd, self.rep, self.seed = ffi, rnd, rep, seed
        self.ffi2 = ffi2 or ffi
        self.kind = rnd.choice(['bytearray', 'bytearray', 'arrayB', 'arrayh', 'arrayi', 'arrayd',
                                'cdata', 'cdata', 'cdata_uchar_fixed', 'cdata_short', 'cdata_int',
                                'cdata_ll', 'cdata_struct'])
        unit = {'arrayh': 2, 'arrayi': 4, 'arrayd': 8}.get(self.kind, 1)
        if self.kind in CDATA_KINDS:
            unit = CDATA_KINDS[self.kind][1]
        self.N = rnd.choice([0, 1, 2, 3, 5, 8, 13, 16, 31, 64]) // unit * unit
        if rnd.random() < 0.08:
            # a few large memories: copies beyond any small-size special case / page boundary
            self.N = rnd.choice([100, 257, 1000, 4099, 9000]) // unit * unit
            rep.stat('large_memory')
        self.OT = max(80, self.N + 16)
        init = rnd.randbytes(self.N)
        if self.kind == 'bytearray':
            self.obj = bytearray(init)
            self.c = ffi.from_buffer(self.obj)
        elif self.kind.startswith('array'):
            self.obj = array.array(self.kind[-1])
            self.obj.frombytes(init)
            self.c = ffi.from_buffer(self.obj)
        else:
            self.obj = None
            tp, unit = CDATA_KINDS[self.kind]
            if tp is None:
                self.c = ffi.new('unsigned char[%d]' % self.N)
            else:
                self.c = ffi.new(tp, self.N // unit)
            if self.N:
                ffi.buffer(self.c, self.N)[:] = init
        self.is_cdata = self.obj is None
        self.cbase = ffi.cast('char *', self.c)
        self.model = bytearray(init)
        # views created once and observed for the whole history
        self.live = ffi.buffer(self.cbase, self.N)
        self.live_mv = memoryview(ffi.buffer(self.cbase, self.N))
        self.other = ffi.new('char[]', self.OT)      # independent memory
        ffi.buffer(self.other)[:] = rnd.randbytes(self.OT)
        self.oplog = []

    def desc(self):
        return '%s(%d bytes)' % (self.kind, self.N)

    def bad(self, mech, msg):
        self.rep.bad(mech, '%s: %s | history seed %d, last ops %r' %
                     (self.desc(), msg, self.seed, self.oplog[-5:]), self.seed)

    def real(self):
        if self.kind == 'bytearray':
            return bytes(self.obj)
        if self.kind.startswith('array'):
            return self.obj.tobytes()
        return bytes(self.ffi.buffer(self.c, self.N))

    def check_mem(self, what):
        r = self.real()
        if r != bytes(self.model):
            diff = [i for i in range(min(len(r), self.N)) if r[i] != self.model[i]]
            lo = max(0, diff[0] - 8) if diff and self.N > 64 else 0
            hi = lo + 64
            self.bad('memory-differs-from-model', 'after %s memory differs at %r: bytes [%d:%d] real %s '
                     'model %s' % (what, diff[:10], lo, min(hi, self.N), r[lo:hi].hex(),
                                   bytes(self.model[lo:hi]).hex()))
            if len(r) == self.N:
                self.model[:] = r
        if bytes(self.ffi.buffer(self.c, self.N)) != r:
            self.bad('buffer-not-live', 'ffi.buffer view differs from the object after %s' % what)
        if self.live[:] != r or self.live_mv.tobytes() != r:
            self.bad('buffer-not-live', 'the ffi.buffer view created at the start of the history '
                     'differs from the object after %s' % what)

    def window(self):
        rnd = self.rnd
        off = rnd.randint(0, self.N)
        k = rnd.randint(0, self.N - off)
        if rnd.random() < 0.3:
            off, k = 0, self.N
        return off, k

    def rand_idx(self, k):
        r = self.rnd.random()
        if r < 0.8:
            return self.rnd.randint(-k - 3, k + 3)
        return self.rnd.choice([None, 2 ** 63 - 1, -2 ** 63, 2 ** 70, -2 ** 70, 0, k])

    def ptr(self, F, off):
        """a pointer cdata to byte `off` of the memory, of a random pointer type
        (buffer sizes and memmove counts are always bytes, whatever the type)"""
        T = self.rnd.choice(['char', 'char', 'unsigned char', 'short', 'int', 'double', 'void',
                             'struct c19_s'])
        if T == 'struct c19_s' and F is not self.ffi:
            T = 'long long'
        self.rep.stat('ptr_typed' if T not in ('char',) else 'ptr_char')
        return F.cast(T + ' *', self.cbase + off)

    def mkbuffer(self, F, off, k):
        r = self.rnd.random()
        p = self.ptr(F, off)
        if r < 0.2:
            self.rep.stat('buffer_keyword_call')
            return F.buffer(cdata=p, size=k)
        return F.buffer(p, k)

    def pywindow(self, F, wo, wk, writable=True):
        """a Python-level buffer object exporting exactly bytes [wo, wo+wk) of the memory;
        returns (obj, kind)"""
        rnd = self.rnd
        kinds = ['buffer', 'mv_buffer']
        if self.obj is not None:
            kinds += ['mv_obj', 'mv_obj']
            if wo == 0 and wk == self.N:
                kinds += ['obj', 'obj', 'obj']
        kind = rnd.choice(kinds)
        if kind == 'obj':
            o = self.obj
            if rnd.random() < 0.3:
                o, kind = memoryview(self.obj), 'mv_native'     # keeps the items' format / itemsize
        elif kind == 'mv_obj':
            o = memoryview(self.obj).cast('B')[wo:wo + wk]
        elif kind == 'buffer':
            o = F.buffer(self.cbase + wo, wk)
        else:
            o = memoryview(F.buffer(self.cbase + wo, wk))
        if not writable:
            o = memoryview(o).toreadonly()
            kind = 'ro_' + kind
        return o, kind

    def source(self, want, off, k, i0):
        """a source object of `want` bytes; returns (obj, expected bytes, kind)"""
        rnd, ffi = self.rnd, self.ffi
        kind = rnd.choice(['bytes', 'bytearray', 'memoryview', 'otherbuf', 'overlapbuf', 'overlapbuf',
                           'array_items', 'mv_items'])
        if kind == 'overlapbuf' and want <= self.N:
            so = rnd.randint(0, self.N - want)
            if rnd.random() < 0.7 and want:      # force a real overlap
                lo = max(0, off + i0 - want + 1)
                hi = min(self.N - want, off + i0 + want - 1)
                if lo <= hi:
                    so = rnd.randint(lo, hi)
            how = rnd.choice(['buffer', 'buffer', 'pywindow', 'frombuf'])
            if how == 'buffer':
                src = ffi.buffer(self.c + so, want) if self.kind == 'cdata' else \
                    ffi.buffer(self.cbase + so, want)
            elif how == 'pywindow':
                src, pk = self.pywindow(ffi, so, want, writable=rnd.random() < 0.8)
                kind = 'overlap_' + pk
            else:
                # a from_buffer alias of the same memory, exported again through ffi.buffer
                al = ffi.from_buffer('unsigned char[]', ffi.buffer(self.cbase + so, want))
                src = ffi.buffer(al)
                kind = 'overlap_frombuf_alias'
            return src, bytes(self.model[so:so + want]), kind
        if kind in ('otherbuf', 'overlapbuf'):
            so = rnd.randint(0, self.OT - want) if want <= self.OT else 0
            want = min(want, self.OT)
            return ffi.buffer(self.other + so, want), bytes(ffi.buffer(self.other + so, want)), 'otherbuf'
        data = rnd.randbytes(want)
        if kind in ('array_items', 'mv_items'):
            # exporters whose len() counts items, not bytes
            code = rnd.choice([c for c in 'HIQ' if want % array.array(c).itemsize == 0] or ['B'])
            a = array.array(code)
            a.frombytes(data)
            if kind == 'mv_items':
                return memoryview(a), data, 'mv_items_' + code
            return a, data, 'array_items_' + code
        if kind == 'bytes':
            return data, data, kind
        if kind == 'bytearray':
            return bytearray(data), data, kind
        return memoryview(data), data, kind

    # ------------------------------------------------------------------
    def op_default_size(self, F, key):
        """ffi.buffer(x) without a size: whole array / pointed-to item / allocated struct"""
        rnd, ffi, m = self.rnd, self.ffi, self.model
        shape = rnd.choice(['history', 'history', 'array', 'array_fixed', 'array2d', 'ptr', 'cast',
                            'frombuf', 'frombuf_ptr', 'varstruct', 'structptr', 'voidptr', 'primitive'])
        T = rnd.choice(TYPES)
        sz = SIZES[T]
        n = rnd.choice([0, 1, 2, 3, 7, 16])
        content = None
        if shape == 'history':
            x, exp, content = self.c, self.N, bytes(m)
        elif shape == 'array':
            x, exp = ffi.new(T + '[]', n), n * sz
            content = bytes(exp)
        elif shape == 'array_fixed':
            x, exp = ffi.new('%s[%d]' % (T, n)), n * sz
        elif shape == 'array2d':
            n2 = rnd.choice([1, 2, 5])
            x, exp = ffi.new('%s[%d][%d]' % (T, n, n2)), n * n2 * sz
        elif shape == 'ptr':
            x, exp = ffi.new(T + ' *'), sz
            content = bytes(sz)
        elif shape == 'cast':
            off = rnd.randint(0, self.N)
            x, exp = ffi.cast(T + ' *', self.cbase + off), sz
            if off + sz <= self.N:
                content = bytes(m[off:off + sz])
        elif shape == 'frombuf':
            wo, wk = self.window()
            src, _ = self.pywindow(ffi, wo, wk)
            x, exp = ffi.from_buffer(T + '[]', src), wk // sz * sz
            content = bytes(m[wo:wo + exp])
        elif shape == 'frombuf_ptr':
            wo, wk = self.window()
            src, _ = self.pywindow(ffi, wo, wk)
            x, exp = ffi.from_buffer(T + ' *', src), sz
            if sz <= wk:
                content = bytes(m[wo:wo + sz])
        elif shape == 'varstruct':
            if rnd.random() < 0.5:
                x, exp = ffi.new('struct c19_vc *', [7, n]), max(4, 4 + n)
            else:
                x, exp = ffi.new('struct c19_vi *', [b'x', n]), max(4, 4 + 4 * n)
        elif shape == 'structptr':
            x, exp = ffi.new('struct c19_s *'), 8
        elif shape == 'voidptr':
            x, exp = ffi.cast('void *', self.cbase), None
        else:
            x, exp = ffi.cast(rnd.choice(['int', 'char', 'double', 'long long']), 65), None
        key += (shape, T if shape not in ('history', 'varstruct', 'structptr', 'voidptr', 'primitive')
                else '', n if shape in ('array', 'array_fixed', 'array2d', 'varstruct') else 0)
        self.rep.stat('default_size_' + shape)
        try:
            b = F.buffer(x)
            got = len(b)
        except TypeError:
            got = None
        except Exception as e:
            got = type(e).__name__
        if got != exp:
            self.bad('buffer-default-size', 'len(ffi.buffer(<%s %s n=%d>)) -> %r, expected %r'
                     % (shape, T, n, got, exp))
        elif exp is not None and content is not None and bytes(b) != content:
            self.bad('buffer-default-size', 'ffi.buffer(<%s %s>) reads %s, expected %s' %
                     (shape, T, bytes(b).hex(), content.hex()))
        return key

    def op_slice_step(self, b, off, k, key):
        rnd, m = self.rnd, self.model
        i, j = self.rand_idx(k), self.rand_idx(k)
        s = rnd.choice([-3, -2, -1, -1, 2, 2, 3, 7, 0, 2 ** 63 - 1, -2 ** 63])
        assign = rnd.random() < 0.5
        key += (i, j, s, assign)
        win = bytes(m[off:off + k])
        if s == 0:
            try:
                if assign:
                    b[i:j:s] = b''
                else:
                    b[i:j:s]
                self.bad('slice-step', 'slice step 0 accepted')
            except Exception:
                pass
            return key
        ref = win[i:j:s]
        if not assign:
            self.rep.stat('slice_step_read')
            try:
                got = b[i:j:s]
            except TypeError:
                got = TypeError
            except Exception as e:
                got = type(e).__name__
            if got is not TypeError and got != ref:
                self.bad('slice-step', 'buffer[%r:%r:%r] (len %d) -> %r, model %r (TypeError is '
                         'also accepted)' % (i, j, s, k, got, ref))
            return key
        wrong = rnd.random() < 0.3
        data = rnd.randbytes(len(ref) + (rnd.choice([1, 2]) if wrong else 0))
        self.rep.stat('slice_step_assign_wrong_length' if wrong else 'slice_step_assign')
        try:
            b[i:j:s] = data
            res = 'ok'
        except (TypeError, ValueError) as e:
            res = type(e).__name__
        except Exception as e:
            res = type(e).__name__
            self.bad('slice-step', 'buffer[%r:%r:%r] = <%d bytes> raised %s' % (i, j, s, len(data), res))
        if res == 'ok':
            if wrong:
                self.bad('setslice-length-change-accepted', 'buffer[%r:%r:%r] = <%d bytes> accepted '
                         'for an extended slice of %d bytes' % (i, j, s, len(data), len(ref)))
            else:
                w = bytearray(win)
                w[i:j:s] = data
                m[off:off + k] = w          # check_mem compares
        return key

    def op_setitem_bad(self, b, off, k, key):
        rnd, m = self.rnd, self.model
        i = rnd.randint(-k, k - 1) if k else 0
        v = rnd.getrandbits(8)
        what = rnd.choice(['empty', 'two', 'many', 'int', 'bytearray1', 'memoryview1', 'str', 'none',
                           'delitem', 'delslice'])
        key += (i, what)
        self.rep.stat('setitem_bad_' + what)
        if what in ('delitem', 'delslice'):
            try:
                if what == 'delitem':
                    del b[i]
                else:
                    del b[i:self.rand_idx(k)]
                self.bad('delete-accepted', 'del buffer[...] (%s) did not raise' % what)
            except Exception:
                pass
            if len(b) != k:
                self.bad('delete-accepted', 'len(buffer) changed from %d to %d after del' % (k, len(b)))
            return key
        val = {'empty': b'', 'two': bytes([v, v ^ 1]), 'many': bytes([v]) * rnd.randint(3, 40),
               'int': v, 'bytearray1': bytearray([v]), 'memoryview1': memoryview(bytes([v])),
               'str': 'a', 'none': None}[what]
        try:
            b[i] = val
            res = 'ok'
        except Exception as e:
            res = type(e).__name__
        if res == 'ok':
            if what in ('int', 'bytearray1', 'memoryview1') and k:
                m[off + (i % k)] = v           # accepted as "that byte"; check_mem compares
            else:
                self.bad('setitem-bad-value-accepted', 'buffer[%d] = %r (len %d) was accepted' %
                         (i, val if what != 'many' else '<%d bytes>' % len(val), k))
        return key

    def op_views(self, b, off, k, key):
        """other read paths of the same view: iteration (sq_item), contains, memoryview export,
        index through __index__ objects, non-integer indices"""
        rnd, m = self.rnd, self.model
        win = bytes(m[off:off + k])
        what = rnd.choice(['iter', 'memoryview', 'memoryview_write', 'index_obj', 'slice_obj',
                           'bad_index', 'bytearray', 'reversed', 'keepalive'])
        key += (what,)
        self.rep.stat('view_' + what)
        if what == 'iter':
            got = list(b)
            if got != [bytes([x]) for x in win]:
                self.bad('iteration', 'list(buffer) -> %r, model %s' % (got[:70], win.hex()))
            if k:
                x = bytes([win[rnd.randrange(k)]])
                if x not in b:
                    self.bad('iteration', '%r in buffer is False' % x)
        elif what == 'keepalive':
            # the view is the only reference to its memory's owner
            data = rnd.randbytes(rnd.choice([1, 7, 64, 300]))
            how = rnd.choice(['buffer_of_new', 'from_buffer_of_temp', 'memoryview_of_buffer'])
            self.rep.stat('keepalive_' + how)
            if how == 'buffer_of_new':
                v = self.ffi.buffer(self.ffi.new('char[]', data), len(data))
            elif how == 'memoryview_of_buffer':
                v = memoryview(self.ffi.buffer(self.ffi.new('char[]', data), len(data)))
            else:
                v = self.ffi.buffer(self.ffi.from_buffer(bytearray(data)))
            junk = [bytearray(len(data)) for _ in range(4)]
            if bytes(v) != data:
                self.bad('view-does-not-keep-memory-alive', '%s of %d bytes reads other bytes after '
                         'the owner was dropped' % (how, len(data)))
            del junk
        elif what == 'reversed':
            got = [b[x] for x in range(-1, -k - 1, -1)]
            if got != [bytes([x]) for x in reversed(win)]:
                self.bad('index', 'negative indices -1..-%d -> %r, model %s' % (k, got[:70], win.hex()))
        elif what == 'bytearray':
            if bytearray(b) != win:
                self.bad('bytes', 'bytearray(buffer) differs from model')
        elif what == 'memoryview':
            mv = memoryview(b)
            if mv.nbytes != k or mv.readonly or mv.tobytes() != win or mv.itemsize != 1:
                self.bad('memoryview-export', 'memoryview(buffer): nbytes %d readonly %r bytes %s, '
                         'expected %d bytes %s' % (mv.nbytes, mv.readonly, mv.tobytes().hex(), k, win.hex()))
        elif what == 'memoryview_write':
            mv = memoryview(b)
            if k:
                i = rnd.randrange(k)
                j = rnd.randint(i, k)
                data = rnd.randbytes(j - i)
                mv[i:j] = data
                m[off + i:off + j] = data
        elif what == 'index_obj':
            i = self.rand_idx(k)
            if i is None:
                i = -1
            try:
                ref = bytes([win[i]])
            except (IndexError, OverflowError):
                ref = IndexError
            try:
                got = b[Idx(i)]
            except IndexError:
                got = IndexError
            if got != ref:
                self.bad('index', 'buffer[<__index__ %d>] (len %d) -> %r, model %r' % (i, k, got, ref))
        elif what == 'slice_obj':
            i, j = rnd.randint(-k - 3, k + 3), rnd.randint(-k - 3, k + 3)
            ref = win[i:j]
            got = b[Idx(i):Idx(j)]
            if got != ref:
                self.bad('slice', 'buffer[<__index__ %d>:<__index__ %d>] -> %r, model %r' % (i, j, got, ref))
        else:
            for bad in ('a', 1.0, None, (0,), b'\x00'):
                try:
                    got = b[bad]
                except TypeError:
                    continue
                except Exception as e:
                    got = type(e).__name__
                self.bad('index-non-integer', 'buffer[%r] -> %r instead of TypeError' % (bad, got))
        return key

    def op_from_buffer(self, F, key):
        rnd, m = self.rnd, self.model
        T = rnd.choice(TYPES if F is self.ffi else [t for t in TYPES if not t.startswith('struct')])
        sz = SIZES[T]
        wo, wk = self.window()
        shape = rnd.choice(['open', 'open', 'open', 'open2d', 'ptr'])
        inner = rnd.choice([1, 2, 3]) if shape == 'open2d' else 1
        decl = {'open': T + '[]', 'open2d': '%s[][%d]' % (T, inner), 'ptr': T + ' *'}[shape]
        writable = rnd.random() < 0.8
        src, srck = self.pywindow(F, wo, wk, writable=writable)
        rw = rnd.choice([None, False, True])
        key += (decl, wo, wk, srck, rw)
        self.rep.stat('from_buffer_' + shape)
        self.rep.stat('from_buffer_src_' + srck)
        self.rep.stat('from_buffer_entry_' + ('cffi.FFI' if F is self.ffi else '_cffi_backend.FFI'))
        how = rnd.choice(['positional', 'keyword'])
        try:
            if how == 'keyword':
                self.rep.stat('from_buffer_keyword_call')
                if rw is None:
                    c2 = F.from_buffer(cdecl=decl, python_buffer=src)
                else:
                    c2 = F.from_buffer(cdecl=decl, python_buffer=src, require_writable=rw)
            elif rw is None:
                if decl == 'char[]' and rnd.random() < 0.5:
                    c2 = F.from_buffer(src)
                else:
                    c2 = F.from_buffer(decl, src)
            else:
                c2 = F.from_buffer(decl, src, rw)
            res = 'ok'
        except Exception as e:
            res = '%s: %s' % (type(e).__name__, e)
        if rw and not writable:
            self.rep.stat('from_buffer_require_writable_on_readonly')
            if res == 'ok':
                self.bad('require_writable', "from_buffer('%s', <read-only %s>, require_writable=True) "
                         'accepted' % (decl, srck))
            return key
        if res != 'ok':
            self.bad('from_buffer-raised', "from_buffer('%s', <%s of %d bytes>, require_writable=%r) "
                     'raised %s' % (decl, srck, wk, rw, res))
            return key
        if rw:
            self.rep.stat('from_buffer_require_writable_on_writable')
        isz = sz * inner
        if shape != 'ptr':
            if len(c2) != wk // isz:
                self.bad('from_buffer-length', "len(from_buffer('%s', <%s of %d bytes>)) = %d" %
                         (decl, srck, wk, len(c2)))
                return key
            nitems = wk // isz
        else:
            nitems = wk // isz
            try:
                len(c2)
                self.bad('from_buffer-length', "from_buffer('%s') has a len()" % decl)
            except TypeError:
                pass
        if int(self.ffi.cast('uintptr_t', c2)) != int(self.ffi.cast('uintptr_t', self.cbase)) + wo \
                and wk:
            self.bad('from_buffer-alias', "from_buffer('%s', <%s window +%d>) does not alias the "
                     'object memory' % (decl, srck, wo))
            return key
        if nitems:
            idx = rnd.randrange(nitems)
            raw = bytes(self.ffi.buffer(self.ffi.cast('char *', c2) + idx * isz, isz))
            if raw != bytes(m[wo + idx * isz:wo + (idx + 1) * isz]):
                self.bad('from_buffer-alias', 'from_buffer item bytes differ from the object')
            if shape != 'ptr':
                whole = bytes(self.ffi.buffer(c2))
                if whole != bytes(m[wo:wo + nitems * isz]):
                    self.bad('from_buffer-alias', "ffi.buffer(from_buffer('%s', <%d bytes>)) is %d bytes "
                             '%s, expected %d bytes' % (decl, wk, len(whole), whole.hex()[:80], nitems * isz))
            if writable:
                nb = rnd.randbytes(isz)
                self.ffi.buffer(self.ffi.cast('char *', c2) + idx * isz, isz)[:] = nb
                m[wo + idx * isz:wo + (idx + 1) * isz] = nb
        return key

    def op_from_buffer_misc(self, F, key):
        rnd, m = self.rnd, self.model
        what = rnd.choice(['bytes', 'bytes_rw', 'str', 'non_array_ctype', 'non_buffer', 'noncontiguous'])
        key += (what,)
        self.rep.stat('from_buffer_misc_' + what)
        ro = bytes(m)
        if what == 'bytes':
            T = rnd.choice(['char', 'short', 'int', 'long long'])
            try:
                c3 = F.from_buffer(ro) if T == 'char' and rnd.random() < 0.5 else \
                    F.from_buffer(T + '[]', ro)
            except Exception as e:
                self.bad('from_buffer-raised', 'from_buffer(%s[], bytes) raised %s' % (T, type(e).__name__))
                return key
            n = len(ro) // SIZES[T]
            if len(c3) != n or bytes(self.ffi.buffer(c3)) != ro[:n * SIZES[T]]:
                self.bad('from_buffer-length', 'from_buffer(%s[], bytes) wrong' % T)
            return key
        try:
            if what == 'bytes_rw':
                if rnd.random() < 0.5:
                    F.from_buffer(ro, require_writable=True)
                else:
                    F.from_buffer('char[]', ro, True)
                self.bad('require_writable', 'from_buffer(bytes, require_writable=True) accepted')
            elif what == 'str':
                F.from_buffer('char[]', ro.decode('latin-1'))
                self.bad('from_buffer-invalid-accepted', 'from_buffer(str) accepted')
            elif what == 'non_array_ctype':
                F.from_buffer(rnd.choice(['int', 'char', 'double']), ro)
                self.bad('from_buffer-invalid-accepted', 'from_buffer(<primitive ctype>) accepted')
            elif what == 'non_buffer':
                F.from_buffer('char[]', rnd.choice([5, None, [1, 2], 1.5]))
                self.bad('from_buffer-invalid-accepted', 'from_buffer(<non-buffer>) accepted')
            elif self.N >= 4:
                F.from_buffer('char[]', memoryview(F.buffer(self.cbase, self.N))[::2])
                self.bad('from_buffer-invalid-accepted', 'from_buffer(<non-contiguous>) accepted')
        except Exception:
            pass
        return key

    def op_fixed_from_buffer(self, F, key):
        rnd, m = self.rnd, self.model
        T = rnd.choice([t for t in TYPES if F is self.ffi or not t.startswith('struct')])
        sz = SIZES[T]
        wo, wk = self.window()
        inner = rnd.choice([None, None, 1, 2, 3])
        isz = sz * (inner or 1)
        cnt = rnd.choice([wk // isz, wk // isz + 1, max(0, wk // isz - 1),
                          rnd.randint(0, 70)])
        decl = '%s[%d]' % (T, cnt) + ('[%d]' % inner if inner else '')
        src, srck = self.pywindow(F, wo, wk)
        key += (decl, wo, wk, srck)
        self.rep.stat('fixed_from_buffer_2d' if inner else 'fixed_from_buffer_1d')
        try:
            c2 = F.from_buffer(decl, src)
            res = 'ok'
        except ValueError:
            res = 'ValueError'
        except Exception as e:
            res = type(e).__name__
        if cnt * isz > wk:
            self.rep.stat('fixed_from_buffer_too_small')
            if res != 'ValueError':
                self.bad('fixed-from_buffer-too-small', "from_buffer('%s', <%d bytes>): %s"
                         % (decl, wk, res))
        elif res != 'ok':
            self.bad('fixed-from_buffer-rejected', "from_buffer('%s', <%d bytes>): %s" %
                     (decl, wk, res))
        elif len(c2) != cnt:
            self.bad('from_buffer-length', 'fixed from_buffer length %d != %d' % (len(c2), cnt))
        else:
            self.rep.stat('fixed_from_buffer_fits')
            whole = bytes(self.ffi.buffer(c2))
            if whole != bytes(m[wo:wo + cnt * isz]):
                self.bad('from_buffer-alias', "ffi.buffer(from_buffer('%s', <%d bytes>)) is %d bytes %s"
                         % (decl, wk, len(whole), whole.hex()[:80]))
            if cnt:
                nb = rnd.randbytes(isz)
                idx = rnd.randrange(cnt)
                self.ffi.buffer(c2)[idx * isz:(idx + 1) * isz] = nb
                m[wo + idx * isz:wo + (idx + 1) * isz] = nb
        return key

    def op_memmove(self, F, key):
        rnd, ffi, m = self.rnd, self.ffi, self.model
        n = rnd.randint(0, self.N)
        d = rnd.randint(0, self.N - n)
        s = rnd.randint(0, self.N - n)
        dk = rnd.choice(['cdata', 'cdata_typed', 'buffer', 'obj', 'memoryview', 'pywindow', 'frombuf'])
        sk = rnd.choice(['cdata', 'cdata_typed', 'buffer', 'obj', 'bytes', 'other', 'otherbuf',
                         'pywindow', 'ro_pywindow', 'frombuf', 'array_items'])
        base = self.cbase
        # destination
        if dk == 'cdata':
            dst = base + d
        elif dk == 'cdata_typed':
            dst = self.ptr(F, d)
        elif dk == 'buffer':
            dst = F.buffer(base + d, self.N - d)
        elif dk == 'obj' and self.obj is not None and d == 0:
            dst = self.obj
        elif dk == 'pywindow':
            dst, x = self.pywindow(F, d, self.N - d)
            dk = 'pywindow_' + x
        elif dk == 'frombuf':
            dst = F.from_buffer(rnd.choice(['char[]', 'short[]', 'int *']), F.buffer(base + d, self.N - d))
        else:
            dk = 'memoryview'
            dst = memoryview(ffi.buffer(base + d, self.N - d))
        if sk == 'cdata':
            src, data = base + s, bytes(m[s:s + n])
        elif sk == 'cdata_typed':
            src, data = self.ptr(F, s), bytes(m[s:s + n])
        elif sk == 'buffer':
            src, data = F.buffer(base + s, self.N - s), bytes(m[s:s + n])
        elif sk == 'obj' and self.obj is not None and s == 0:
            src, data = self.obj, bytes(m[0:n])
        elif sk in ('pywindow', 'ro_pywindow'):
            src, x = self.pywindow(F, s, self.N - s, writable=sk == 'pywindow')
            sk, data = 'pywindow_' + x, bytes(m[s:s + n])
        elif sk == 'frombuf':
            src = F.from_buffer(rnd.choice(['char[]', 'short[]', 'int *']), F.buffer(base + s, self.N - s))
            data = bytes(m[s:s + n])
        elif sk == 'bytes':
            data = rnd.randbytes(n)
            src = data + b'xyz'
        elif sk == 'array_items':
            a = array.array(rnd.choice('HIQ'))
            a.frombytes(rnd.randbytes((self.N + 15) // 8 * 8))
            src, data = a, a.tobytes()[:n]
        elif sk == 'otherbuf':
            src, data = F.buffer(self.other, self.OT), bytes(ffi.buffer(self.other, n))
        else:
            sk = 'other'
            so = rnd.randint(0, self.OT - n)
            src, data = self.other + so, bytes(ffi.buffer(self.other + so, n))
        key = ('memmove', d, s, n, dk, sk)
        self.rep.stat('memmove_entry_' + ('cffi.FFI' if F is ffi else '_cffi_backend.FFI'))
        try:
            if rnd.random() < 0.2:
                self.rep.stat('memmove_keyword_call')
                F.memmove(dest=dst, src=src, n=n)
            else:
                F.memmove(dst, src, n)
        except Exception as e:
            self.bad('memmove-raised', 'memmove(<%s>+%d, <%s>+%d, %d) raised %s: %s' %
                     (dk, d, sk, s, n, type(e).__name__, e))
        else:
            m[d:d + n] = data
        aliased = sk in ('cdata', 'cdata_typed', 'buffer', 'obj', 'frombuf') or sk.startswith('pywindow')
        self.rep.stat('memmove_overlapping' if aliased and n and abs(d - s) < n else 'memmove_disjoint')
        self.rep.stat('memmove_dst_' + dk)
        self.rep.stat('memmove_src_' + sk)
        return key

    def op_memmove_bad(self, F, key):
        """calls that must fail and leave every byte alone"""
        rnd, m = self.rnd, self.model
        what = rnd.choice(['negative_n', 'negative_n', 'readonly_bytes', 'readonly_view', 'readonly_view',
                           'primitive_dst', 'primitive_src', 'str_src', 'non_buffer_dst',
                           'noncontiguous'])
        key += (what,)
        self.rep.stat('memmove_bad_' + what)
        wo, wk = self.window()
        n = rnd.randint(0, wk)
        if wk and rnd.random() < 0.7:
            n = rnd.randint(1, wk)
        src = rnd.randbytes(max(n, 8))
        frozen = None
        try:
            if what == 'negative_n':
                dst, _ = self.pywindow(F, wo, wk)
                if rnd.random() < 0.5:
                    dst = self.cbase + wo
                F.memmove(dst, src, rnd.choice([-1, -1, -2, -wk - 1, -2 ** 63, -2 ** 31]))
            elif what == 'readonly_bytes':
                frozen = bytes(m[wo:wo + wk]) + b'?'
                keep = bytes(bytearray(frozen))
                F.memmove(frozen, src, n)
            elif what == 'readonly_view':
                dst, _ = self.pywindow(F, wo, wk, writable=False)
                F.memmove(dst, src, n)
            elif what == 'primitive_dst':
                F.memmove(F.cast('long long', 0), src, min(n, 8))
            elif what == 'primitive_src':
                F.memmove(self.cbase + wo, F.cast('long long', 0), min(n, 8))
            elif what == 'str_src':
                F.memmove(self.cbase + wo, 'x' * (n + 1), n)
            elif what == 'non_buffer_dst':
                F.memmove(rnd.choice([None, 5, [0] * 9]), src, n)
            else:
                if wk < 4:
                    return key
                n = min(n, wk // 2)
                F.memmove(memoryview(F.buffer(self.cbase + wo, wk))[::2], src, n)
            if what in ('primitive_dst', 'primitive_src'):
                n = min(n, 8)
            if n == 0 and what != 'negative_n':
                # copying nothing into / from anything is not required to fail
                self.rep.stat('memmove_bad_zero_bytes_not_judged')
                return key
            mech = 'memmove-negative-size-accepted' if what == 'negative_n' else \
                'memmove-readonly-dest-accepted' if what.startswith('readonly') else \
                'memmove-invalid-accepted'
            self.bad(mech, 'memmove (%s, window +%d len %d, n=%d) did not raise' % (what, wo, wk, n))
        except Exception as e:
            if what == 'negative_n' and not isinstance(e, (ValueError, OverflowError)):
                self.bad('memmove-negative-size-accepted', 'memmove with negative n raised %s: %s' %
                         (type(e).__name__, e))
        if frozen is not None and frozen != keep:
            self.bad('memmove-readonly-dest-accepted', 'memmove changed a bytes object')
        return key          # check_mem: nothing may have changed

    def op_compare_other(self, b, off, k, key):
        rnd, m = self.rnd, self.model
        w = bytes(m[off:off + k])
        o = bytearray(w)
        r = rnd.random()
        if r < 0.3 and k:
            o[rnd.randrange(k)] ^= 1 << rnd.randrange(8)
        elif r < 0.5:
            o = o[:rnd.randint(0, k)]
        elif r < 0.65:
            o += bytes([rnd.getrandbits(8)])
        ob = bytes(o)
        kind = rnd.choice(['bytearray', 'memoryview', 'arrayB', 'bytes', 'buffer', 'nonbuffer'])
        key += (kind,)
        self.rep.stat('compare_' + kind)
        ops = (('==', lambda a, c: a == c), ('!=', lambda a, c: a != c), ('<', lambda a, c: a < c),
               ('<=', lambda a, c: a <= c), ('>', lambda a, c: a > c), ('>=', lambda a, c: a >= c))
        if kind == 'nonbuffer':
            for other in ('abc', 5, None, [1]):
                if (b == other) is not False or (b != other) is not True:
                    self.bad('compare', 'buffer == %r is not False' % (other,))
                try:
                    b < other
                    self.bad('compare', 'buffer < %r did not raise' % (other,))
                except TypeError:
                    pass
            return key
        if kind == 'buffer':
            # another ffi.buffer over independent memory holding the bytes to compare with
            tmp = self.ffi.new('char[]', len(ob) + 1)
            self.ffi.buffer(tmp, len(ob))[:] = ob
            other = self.ffi.buffer(tmp, len(ob))
        else:
            other = {'bytearray': bytearray, 'memoryview': memoryview, 'bytes': bytes,
                     'arrayB': lambda x: array.array('B', x)}[kind](ob)
        for name, f in ops:
            if f(b, other) != f(w, ob):
                self.bad('compare', 'buffer %s %s %s %s -> %r' % (w.hex(), name, kind, ob.hex(), f(b, other)))
            if kind in ('bytes', 'bytearray', 'buffer'):
                # reflected operand order
                if f(other, b) != f(ob, w):
                    self.bad('compare', '%s %s %s buffer %s -> %r' % (kind, ob.hex(), name, w.hex(), f(other, b)))
        return key

    # ------------------------------------------------------------------
    def step(self):
        rnd, ffi = self.rnd, self.ffi
        op = rnd.choice(['len', 'index', 'slice', 'slice', 'setitem', 'setslice', 'setslice',
                         'setslice_wrong', 'compare', 'from_buffer', 'memmove', 'memmove',
                         'fixed_from_buffer', 'bytes',
                         'default_size', 'slice_step', 'setitem_bad', 'views', 'from_buffer_misc',
                         'memmove_bad', 'compare_other', 'setslice_items_wrong', 'from_buffer', 'memmove'])
        F = ffi if rnd.random() < 0.5 else self.ffi2
        off, k = self.window()
        base = self.c if self.kind == 'cdata' else self.cbase
        if rnd.random() < 0.5:
            b = ffi.buffer(base + off, k)
        else:
            b = self.mkbuffer(F, off, k)
        m = self.model
        win = lambda: bytes(m[off:off + k])
        key = (op, off, k)
        if op == 'len':
            if len(b) != k:
                self.bad('len', 'len(buffer(p+%d, %d)) = %d' % (off, k, len(b)))
            if off == 0:
                if len(F.buffer(self.c)) != self.N:
                    self.bad('len', 'len(buffer(array)) = %d' % len(F.buffer(self.c)))
        elif op == 'bytes':
            if bytes(b) != win() or b[:] != win():
                self.bad('bytes', 'bytes(buffer) = %s, expected %s' % (bytes(b).hex(), win().hex()))
        elif op == 'index':
            i = self.rand_idx(k)
            if i is None:
                i = 0
            key += (i,)
            try:
                ref = bytes([win()[i]])
            except (IndexError, OverflowError):
                ref = IndexError
            try:
                got = b[i]
            except IndexError:
                got = IndexError
            if got != ref:
                self.bad('index', 'buffer[%d] (len %d) -> %r, model %r' % (i, k, got, ref))
        elif op == 'slice':
            i, j = self.rand_idx(k), self.rand_idx(k)
            key += (i, j)
            ref = win()[i:j]
            try:
                got = b[i:j]
            except Exception as e:
                got = type(e).__name__
            if got != ref:
                self.bad('slice', 'buffer[%r:%r] (len %d) -> %r, model %r' % (i, j, k, got, ref))
            if rnd.random() < 0.2:
                if b[i:j:1] != ref:
                    self.bad('slice', 'buffer[%r:%r:1] differs' % (i, j))
        elif op == 'setitem':
            i = self.rand_idx(k)
            if i is None:
                i = 0
            v = rnd.getrandbits(8)
            key += (i,)
            inr = -k <= i < k
            try:
                b[i] = bytes([v])
                res = 'ok'
            except IndexError:
                res = 'IndexError'
            except Exception as e:
                res = type(e).__name__
            if inr:
                if res != 'ok':
                    self.bad('setitem', 'buffer[%d] = b (len %d) raised %s' % (i, k, res))
                else:
                    m[off + (i % k)] = v
            elif res != 'IndexError':
                self.bad('setitem-out-of-range', 'buffer[%d] = b (len %d): %s' % (i, k, res))
        elif op in ('setslice', 'setslice_wrong'):
            i, j = self.rand_idx(k), self.rand_idx(k)
            st, en, _ = slice(i, j).indices(k)
            en = max(st, en)
            want = en - st
            if op == 'setslice_wrong':
                want = max(0, want + rnd.choice([-2, -1, 1, 2, 5]))
                if want == en - st:
                    want += 1
            src, data, sk = self.source(want, off, k, st)
            want = len(data)
            key += (i, j, want, sk)
            try:
                if rnd.random() < 0.15 and i is not None and j is not None and abs(i) < 2 ** 62 \
                        and abs(j) < 2 ** 62:
                    b[Idx(i):Idx(j)] = src
                else:
                    b[i:j] = src
                res = 'ok'
            except ValueError:
                res = 'ValueError'
            except Exception as e:
                res = type(e).__name__ + ': ' + str(e)
            if want == en - st:
                if res != 'ok':
                    self.bad('setslice-rejected', 'buffer[%r:%r] = <%s of %d> (len %d) raised %s' %
                             (i, j, sk, want, k, res))
                else:
                    m[off + st:off + en] = data
                self.rep.stat('setslice_' + sk)
            else:
                if res == 'ok':
                    self.bad('setslice-length-change-accepted', 'buffer[%r:%r] = <%s of %d bytes> '
                             'accepted for a slice of %d bytes' % (i, j, sk, want, en - st))
                elif res != 'ValueError':
                    self.bad('setslice-wrong-exception', 'length-changing slice assignment raised '
                             + res)
                self.rep.stat('setslice_wrong_length')
        elif op == 'setslice_items_wrong':
            # sources whose ITEM count equals the slice length but whose byte length does not
            # (and the other way round), and sources that are no buffers at all
            i, j = self.rand_idx(k), self.rand_idx(k)
            st, en, _ = slice(i, j).indices(k)
            en = max(st, en)
            if en == st and k and rnd.random() < 0.8:
                i = st = rnd.randint(0, k - 1)
                j = en = rnd.randint(st + 1, k)
            cnt = en - st
            what = rnd.choice(['items_equal_slice', 'items_equal_slice', 'str', 'int', 'none'])
            key += (i, j, what)
            if what == 'items_equal_slice':
                code = rnd.choice('HIQ')
                a = array.array(code, list(rnd.randbytes(cnt)))
                src = a if rnd.random() < 0.5 else memoryview(a)
                if cnt == 0:
                    what = 'items_empty'
            else:
                src = {'str': 'x' * cnt, 'int': cnt, 'none': None}[what]
            self.rep.stat('setslice_' + what)
            try:
                b[i:j] = src
                res = 'ok'
            except (ValueError, TypeError) as e:
                res = type(e).__name__
            except Exception as e:
                res = type(e).__name__ + ': ' + str(e)
            if what == 'items_empty':
                if res != 'ok':
                    self.bad('setslice-rejected', 'empty slice = empty array raised ' + res)
            elif res == 'ok':
                self.bad('setslice-length-change-accepted' if what == 'items_equal_slice' else
                         'setslice-non-buffer-accepted', 'buffer[%r:%r] = <%s, %d items> accepted for a '
                         'slice of %d bytes' % (i, j, what, cnt, cnt))
            elif what == 'items_equal_slice' and res != 'ValueError':
                self.bad('setslice-wrong-exception', 'length-changing slice assignment raised ' + res)
        elif op == 'compare':
            other = win() if rnd.random() < 0.4 else rnd.randbytes(rnd.choice([k, k, max(0, k - 1), k + 1]))
            if rnd.random() < 0.3 and k:
                o = bytearray(win())
                o[rnd.randrange(k)] ^= 1 << rnd.randrange(8)
                other = bytes(o)
            w = win()
            for name, f in (('==', lambda a, c: a == c), ('!=', lambda a, c: a != c),
                            ('<', lambda a, c: a < c), ('<=', lambda a, c: a <= c),
                            ('>', lambda a, c: a > c), ('>=', lambda a, c: a >= c)):
                if f(b, other) != f(w, other):
                    self.bad('compare', 'buffer %s %s bytes %s -> %r' %
                             (w.hex(), name, other.hex(), f(b, other)))
            ob = ffi.buffer(self.other, k)
            if (b == ob) != (w == bytes(ob)):
                self.bad('compare', 'buffer == buffer wrong')
        elif op == 'compare_other':
            key = self.op_compare_other(b, off, k, key)
        elif op == 'from_buffer':
            key = self.op_from_buffer(F, key[:1])
        elif op == 'from_buffer_misc':
            key = self.op_from_buffer_misc(F, key[:1])
        elif op == 'fixed_from_buffer':
            key = self.op_fixed_from_buffer(F, key[:1])
        elif op == 'memmove':
            key = self.op_memmove(F, key)
        elif op == 'memmove_bad':
            key = self.op_memmove_bad(F, key[:1])
        elif op == 'default_size':
            key = self.op_default_size(F, key[:1])
        elif op == 'slice_step':
            key = self.op_slice_step(b, off, k, key)
        elif op == 'setitem_bad':
            key = self.op_setitem_bad(b, off, k, key)
        elif op == 'views':
            key = self.op_views(b, off, k, key)
        return key

    def finish(self):
        """the object stays pinned (cannot be resized) for as long as a from_buffer cdata
        aliases it; otherwise the alias would dangle"""
        if self.kind != 'bytearray' or self.c is None:
            return
        self.rep.stat('export_pinned_checked')
        try:
            self.obj.extend(b'\x00' * 4096)
        except BufferError:
            return
        except Exception as e:
            self.bad('from_buffer-export-not-held', 'resizing the exporter raised %s' % type(e).__name__)
            return
        self.bad('from_buffer-export-not-held', 'bytearray was resized while a from_buffer cdata '
                 'aliases it')


def child_case(st, case):
    import random
    ffi = st['ffi']
    rep = core.ChildRep()
    for seed in case['seeds']:
        rnd = random.Random(seed)
        h = H(ffi, rnd, rep, seed, st.get('ffi2'))
        rep.stat('histories')
        rep.stat('kind_' + h.kind)
        for _ in range(case['ops']):
            try:
                key = h.step()
            except Exception as e:
                import traceback
                h.bad('harness-exception', traceback.format_exc()[-900:])
                break
            h.oplog.append(key)
            h.check_mem(repr(key))
            rep.case((h.kind, h.N, key), nontrivial=key[0] != 'len',
                     sample={'memory': h.desc(), 'op': repr(key)})
        h.finish()
        # the export must end when the cdata goes away
        if h.kind == 'bytearray':
            h.c = None
            del h
    return rep.result()


def judge(ctx, setup, case, obs):
    core.absorb(ctx, case, obs, lambda seed: {'seeds': [seed], 'ops': case['ops']})
