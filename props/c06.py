"""C06 -- primitive type facts agree with the compiler and across all type tables.

Differential oracle: gcc decides, for every candidate name, whether it is a
type at all and prints sizeof / _Alignof / (T)-1<0 / class / canonical type /
integer limits / the value of a test double after conversion.  The cffi side
(ASan/UBSan backend) resolves the same name through every path that has its
own name table: in-line FFI (cparser.py + model/commontypes), the C parser of
_cffi_backend.FFI() (parse_c_type.c), `typedef <name> t_k;` in an out-of-line
ABI module and in a compiled API module (PRIMITIVE_TO_INDEX -> primitive_name[]),
and new_primitive_type() directly.  All must give the same ctype object and the
compiler's facts; the tables are also compared as data, index by index.

Beyond the name -> ctype matrix, the facts are observed through every consumer
that has its own copy of them: sizeof/alignof through each entry point (type
string on all four FFI objects, ctype object, cast cdata, array cdata), the
kind predicates of model.PrimitiveType (what the code generators branch on),
and the libffi type new_primitive_type() stores next to size/alignment/flags:
each table type is passed to and returned from gcc-compiled functions through
a libffi call (identity T f(T); and long long f(long long) called as
long long f(T), which shows how the argument is widened).  The index sweep
also feeds negative and far-out-of-range primitive indexes.
"""
import os, sys, json, itertools, subprocess, re
import concurrent.futures as cf
from vlib import core, build, cc, modbuild

RULE = ("the complete name set, no sampling: every key of ALL_PRIMITIVE_TYPES, PRIMITIVE_TO_INDEX and "
        "COMMON_TYPES (string entries), every index 0.._NUM_PRIM+3 of primitive_name[], every ordering of "
        "every ISO C specifier multiset (char .. unsigned long long int, float, double, long double, _Bool, "
        "float/double/long double _Complex: 99 spellings), plus the hostile neighbourhood: every sequence of "
        "<= 3 (thorough: 4) of the 10 specifier keywords, every sequence of <= 4 of the 6 integer "
        "keywords (thorough: <= 5, with double), and every one-character substitution/insertion (by 'x', '1'; thorough also '_', "
        "'t'), deletion, doubling and letter-case change in each table identifier and each specifier keyword; case = (name, resolution path); distinct = (name, path); non-trivial = the name is "
        "accepted by gcc or by at least one cffi path; the seed only permutes the order of names and paths; "
        "per table type additionally: libffi calls into a gcc-built library (identity and widening, boundary values "
        "and a distinct-bytes pattern), the model.PrimitiveType predicates, sizeof/alignof through 4 FFI objects x "
        "(string, ctype, cdata) and the backend functions; primitive indexes -0x800000, -4..-1, 0.._NUM_PRIM+3, "
        "_NUM_PRIM+256.., 0x7fffff")
ASSUMPTIONS = ["gcc -std=gnu11 with <stdint.h> <stddef.h> <sys/types.h> <wchar.h> <uchar.h> <stdbool.h> <complex.h> "
               "is the platform compiler (thorough: clang must agree, else the name is not judged); _cffi_{float,double}_complex_t are float/double _Complex as in _cffi_include.h",
               "plain 'char' is a character type in cffi: int() of it is the byte value 0..255 (documented character "
               "semantics), so its signedness is not compared with the compiler's; wchar_t's is",
               "a spelling that gcc rejects has no compiler facts: a cffi path accepting it is counted, not judged "
               "(parser strictness is another property); the paths that accept it must still agree on the ctype",
               "a valid C spelling that every cffi parser rejects (e.g. 'int long') is counted, not judged; one that "
               "the Python parser or the C parser accepts must be accepted by the other too",
               "libffi (x86-64, >= 3.2) widens an integer argument to the full register according to the ffi_type "
               "it is given (sign-extends sint8/16/32, zero-extends the others): a callee declared with a "
               "'long long' parameter therefore sees whether the ffi_type stored for an integer ctype has the "
               "compiler's size and signedness; only integer and _Bool types are judged that way, character types "
               "(byte / code point semantics in cffi) are not",
               "complex types cannot be passed through libffi by cffi (NotImplementedError): counted, not judged"]

KW = ['signed', 'unsigned', 'short', 'long', 'int', 'char', 'float', 'double', '_Bool', '_Complex']
INTKW = ['signed', 'unsigned', 'short', 'long', 'int', 'char']
ISO = ['char', 'signed char', 'unsigned char', 'short', 'signed short', 'short int', 'signed short int',
       'unsigned short', 'unsigned short int', 'int', 'signed', 'signed int', 'unsigned', 'unsigned int',
       'long', 'signed long', 'long int', 'signed long int', 'unsigned long', 'unsigned long int',
       'long long', 'signed long long', 'long long int', 'signed long long int', 'unsigned long long',
       'unsigned long long int', 'float', 'double', 'long double', '_Bool', 'float _Complex',
       'double _Complex', 'long double _Complex']
CANON = ['_Bool', 'char', 'signed char', 'unsigned char', 'short', 'unsigned short', 'int', 'unsigned int',
         'long', 'unsigned long', 'long long', 'unsigned long long', 'float', 'double', 'long double',
         'float _Complex', 'double _Complex', 'long double _Complex']
CANON_TO_CFFI = {'float _Complex': '_cffi_float_complex_t', 'double _Complex': '_cffi_double_complex_t'}
CHARKINDS = ('char', 'wchar_t', 'char16_t', 'char32_t')
V = 1.0000000001            # needs more than 24 mantissa bits
HEADERS = ''.join('#include <%s>\n' % h for h in
                  ['stdio.h', 'stddef.h', 'stdint.h', 'sys/types.h', 'wchar.h', 'uchar.h', 'stdbool.h',
                   'complex.h'])
CPLX = 'typedef float _Complex _cffi_float_complex_t;\ntypedef double _Complex _cffi_double_complex_t;\n'
TDGROUP = 12
PATHS = ['inline', 'inline_typedef', 'cparser', 'abi_typedef', 'abi_parse', 'api_typedef', 'api_parse']


# ---------------------------------------------------------------------------
# the name set

def spellings(thorough):
    out = []
    for s in ISO:
        out += [' '.join(p) for p in sorted(set(itertools.permutations(s.split())))]
    for words, n in ((KW, 4 if thorough else 3), (INTKW + ['double'] * thorough, 5 if thorough else 4)):
        for L in range(1, n + 1):
            out += [' '.join(p) for p in itertools.product(words, repeat=L)]
    return out


def near_misses(idents, chars):
    out = []
    for w in idents:
        for i in range(len(w) + 1):
            for c in chars:
                out.append(w[:i] + c + w[i:])
                if i < len(w):
                    out.append(w[:i] + c + w[i + 1:])
            if i < len(w):
                out.append(w[:i] + w[i + 1:])
                out.append(w[:i] + w[i] + w[i:])
                if w[i].swapcase() != w[i]:
                    out.append(w[:i] + w[i].swapcase() + w[i + 1:])
        out += [w.upper(), w.lower(), w.capitalize()]
    return [n for n in out if n not in idents]


def is_ident(name):
    return ' ' not in name and name not in KW


def name_set(tables, thorough):
    tnames = list(tables['all_prim']) + list(tables['prim_to_index']) + list(tables['common'])
    # the table identifiers and the specifier keywords themselves (a tokenizer that takes
    # 'longx' or 'Long' for 'long' accepts a name that is in no table)
    idents = sorted(set(n for n in tnames if is_ident(n)) | set(KW))
    seen, out = set(), []
    for n in tnames + spellings(thorough) + near_misses(idents, 'x_1t' if thorough else 'x1'):
        if n not in seen:
            seen.add(n)
            out.append(n)
    return out


def prep_main(thorough, outp):
    """Runs in a (plain) child: dump the real Python tables, build the name set
    and find the names the in-line FFI accepts (they become the modules' typedefs)."""
    from cffi import FFI, model, cffi_opcode, commontypes
    tables = {'all_prim': dict(model.PrimitiveType.ALL_PRIMITIVE_TYPES),
              'prim_to_index': dict(cffi_opcode.PRIMITIVE_TO_INDEX),
              'num_prim': cffi_opcode._NUM_PRIM,
              'common': {k: v for k, v in commontypes.COMMON_TYPES.items() if isinstance(v, str)}}
    names = name_set(tables, thorough)
    ffi = FFI()
    acc = []
    for n in names:
        try:
            ct = ffi.typeof(n)
        except Exception:
            continue
        if ct.kind == 'primitive':
            acc.append(n)
    with open(outp, 'w') as f:
        json.dump({'tables': tables, 'names': names, 'inline_accepts': acc}, f)


# ---------------------------------------------------------------------------
# the compiler oracle

def _chunks(seq, n):
    size = max(1, (len(seq) + n - 1) // n)
    return [seq[i:i + size] for i in range(0, len(seq), size)]


def _par(fn, tmp, names, n=4):
    with cf.ThreadPoolExecutor(max_workers=n) as ex:
        return list(ex.map(lambda a: fn(tmp, a[1], a[0]), enumerate(_chunks(names, n))))


def gcc_accepts(tmp, names, tag=0):
    """One gcc run: line k+BASE is `typedef <name> T_k;`; the lines with an
    error are the names gcc does not take for a type."""
    head = HEADERS + CPLX
    base = head.count('\n') + 1
    src = os.path.join(tmp, 'accept%d.c' % tag)
    with open(src, 'w') as f:
        f.write(head + ''.join('typedef %s T_%d;\n' % (n, k) for k, n in enumerate(names)))
    r = subprocess.run(['gcc', '-std=c11', '-pedantic-errors', '-fsyntax-only', '-fmax-errors=0', src],
                       stdout=subprocess.PIPE, stderr=subprocess.PIPE, timeout=600)
    err = r.stderr.decode(errors='replace')
    bad = set(int(m.group(1)) - base for m in
              re.finditer(r'accept\d+\.c:(\d+):\d+: (?:fatal )?error:', err))
    if r.returncode != 0 and not bad:
        raise core.Inconclusive('gcc acceptance pass failed: ' + err[-800:])
    if any(k < 0 or k >= len(names) for k in bad):
        raise core.Inconclusive('gcc reported an error outside the typedef lines: ' + err[:800])
    return [n for k, n in enumerate(names) if k not in bad]


def gcc_facts(tmp, names, tag=0, compiler='gcc'):
    gen = ', '.join('%s: %d' % (c, i) for i, c in enumerate(CANON))
    parts = [HEADERS, CPLX, '''
#define CANON(T) _Generic((T)0, %s, default: -1)
#define CLS(T) _Generic((T)0, _Bool: 'b', float: 'f', double: 'f', long double: 'f', \\
    float _Complex: 'j', double _Complex: 'j', long double _Complex: 'j', default: 'i')
#define PROBE(k, T) do { int cls = CLS(T); unsigned long long um = 0; long long smax = 0; \\
    if (cls == 'i' || cls == 'b') { um = (unsigned long long)(T)-1; \\
        smax = (long long)(T)((1ULL << (8 * sizeof(T) - 1)) - 1); } \\
    printf("F %%d %%zu %%zu %%d %%c %%d %%llu %%lld %%.17g\\n", k, sizeof(T), (size_t)_Alignof(T), \\
           (int)(creal((T)-1) < 0), cls, CANON(T), um, smax, (double)creal((T)%r)); } while (0)
''' % (gen, V)]
    for k, n in enumerate(names):
        parts.append('typedef %s T_%d;\n' % (n, k))
    parts.append('int main(void) {\n')
    for k in range(len(names)):
        parts.append('  PROBE(%d, T_%d);\n' % (k, k))
    parts.append('  return 0;\n}\n')
    exe = os.path.join(tmp, 'facts_%s%d' % (compiler, tag))
    rc, msg = cc.compile_c(tmp, ''.join(parts), exe, cc=compiler)
    if rc != 0:
        raise core.Inconclusive(compiler + ' fact probe does not compile: ' + msg[-1500:])
    rc, out, err = cc.run_exe(exe)
    if rc != 0:
        raise core.Inconclusive('%s fact probe exited %s: %s' % (compiler, rc, err[-500:]))
    facts = {}
    for line in out.splitlines():
        p = line.split()
        n = names[int(p[1])]
        facts[n] = {'size': int(p[2]), 'align': int(p[3]), 'neg': int(p[4]), 'cls': p[5],
                    'canon': CANON[int(p[6])] if int(p[6]) >= 0 else '?',
                    'umax': int(p[7]), 'smax': int(p[8]), 'fr': float(p[9])}
    if len(facts) != len(names):
        raise core.Inconclusive('%s fact probe printed %d of %d names' % (compiler, len(facts), len(names)))
    return facts


# ---------------------------------------------------------------------------
# parent: names -> oracle -> modules -> cases

def build_calls_so(ctx, d, so_names):
    """A gcc-built library with, per name, `T c06_id_k(T x) { return x; }`, and one
    `long long c06_wide(long long)`: the callees of the libffi observations."""
    os.makedirs(d, exist_ok=True)
    src = [HEADERS, CPLX, 'long long c06_wide(long long x) { return x; }\n']
    for k, n in enumerate(so_names):
        src.append('typedef %s S_%d;\nS_%d c06_id_%d(S_%d x) { return x; }\n' % (n, k, k, k, k))
    out = os.path.join(d, 'libc06calls.so')
    rc, msg = cc.compile_c(ctx.tmp, ''.join(src), out, shared=True)
    if rc != 0:
        raise core.Inconclusive('the call library does not compile: ' + msg[-1500:])
    return out


def build_setup(ctx, mod_names, gcc_ok, so_names=()):
    d = os.path.join(ctx.tmp, 'mods')
    so = build_calls_so(ctx, d, list(so_names))
    cdef = ''.join('typedef %s t_%d;\n' % (n, k) for k, n in enumerate(mod_names))
    # the C side declares the same typedefs where gcc knows the spelling
    csrc = HEADERS + ''.join('typedef %s t_%d;\n' % (n, k) for k, n in enumerate(mod_names)
                             if n in gcc_ok and not n.startswith('_cffi_'))
    specs = [{'name': '_c06abi', 'kind': 'abi', 'cdef': cdef, 'source': None, 'dir': d},
             {'name': '_c06api', 'kind': 'api', 'cdef': cdef, 'source': csrc, 'dir': d}]
    res = modbuild.build_modules(ctx, specs)
    for s in specs:
        r = res[s['name']]
        if not r['ok']:
            raise core.Inconclusive('module %s does not build: %s %s' %
                                    (s['name'], r['error'][-800:], r.get('log', '')[-800:]))
    return {'dir': d, 'mod_names': mod_names, 'so': so, 'so_names': list(so_names)}


def generate(ctx):
    ctx.exhaustive = True
    outp = os.path.join(ctx.tmp, 'prep.json')
    r = subprocess.run(build.python_cmd('plain') + ['-c', 'import sys; from props import c06; '
                       'c06.prep_main(sys.argv[1] == "1", sys.argv[2])', '1' if ctx.thorough else '0', outp],
                       env=build.child_env('plain'), cwd=ctx.tmp, stdout=subprocess.PIPE,
                       stderr=subprocess.PIPE, timeout=900)
    if r.returncode != 0 or not os.path.exists(outp):
        raise core.Inconclusive('table dump failed: ' + r.stderr.decode(errors='replace')[-1500:])
    with open(outp) as f:
        prep = json.load(f)
    names = prep['names']
    ok = sum(_par(gcc_accepts, ctx.tmp, names), [])
    with cf.ThreadPoolExecutor(max_workers=1) as ex:      # modules and fact probes side by side
        okset = set(ok)
        fut = ex.submit(build_setup, ctx, prep['inline_accepts'], okset,
                        [n for n in sorted(prep['tables']['all_prim']) if n in okset])
        facts = {}
        for d in _par(gcc_facts, ctx.tmp, ok):
            facts.update(d)
        if ctx.thorough:        # second opinion: a name on which clang disagrees is not judged
            try:
                second = _par(lambda t, n, k: gcc_facts(t, n, k, 'clang'), ctx.tmp, ok)
            except core.Inconclusive as e:
                ctx.note('no second opinion: ' + str(e)[:300])
                second = []
            for d in second:
                for n, g in d.items():
                    ctx.count('clang_agrees_with_gcc' if facts[n] == g else 'clang_disagrees_inconclusive')
                    if facts[n] != g:
                        ctx.note('gcc/clang disagree on %r: %s / %s' % (n, facts[n], g))
                        del facts[n]
        setup = fut.result()
    ctx.count('names', len(names))
    ctx.count('names_gcc_accepts', len(ok))
    ctx.count('names_iso_spelling_permutations', len(set(sum(
        [[' '.join(p) for p in itertools.permutations(s.split())] for s in ISO], []))))
    ctx.count('module_typedefs', len(setup['mod_names']))
    ctx.count('call_library_functions', len(setup['so_names']))
    acc = set(setup['mod_names'])
    ctx.extra['inline_accepts_gcc_rejects_examples'] = sorted(acc - set(ok))[:12]
    ctx.extra['gcc_accepts_inline_rejects_examples'] = sorted(set(ok) - acc)[:12]
    rng = ctx.rng('order')
    rng.shuffle(names)
    items = [[n, facts.get(n), rng.getrandbits(30)] for n in names]
    per = 400
    cases = [{'kind': 'tables'}] + [{'kind': 'names', 'items': items[i:i + per]}
                                    for i in range(0, len(items), per)]
    return setup, cases


def replay_setup(ctx, case):
    names = [it[0] for it in case.get('items', [])]
    ok = [it[0] for it in case.get('items', []) if it[1]]
    try:
        return build_setup(ctx, names, set(ok), ok)
    except core.Inconclusive:       # the in-line parser rejects the name: no typedef paths
        return build_setup(ctx, [], set(), ok)


# ---------------------------------------------------------------------------
# child

def child_setup(setup, wd):
    sys.path.insert(0, setup['dir'])
    import _cffi_backend, _c06abi, _c06api
    from cffi import FFI
    # in-line FFIs holding the typedefs, few per FFI: every typeof() re-parses all of them
    tds = []
    for i in range(0, len(setup['mod_names']), TDGROUP):
        td = FFI()
        try:
            td.cdef(''.join('typedef %s t_%d;\n' % (n, i + j)
                            for j, n in enumerate(setup['mod_names'][i:i + TDGROUP])))
        except Exception:
            td = None       # (replay of a name the in-line parser rejects)
        tds.append(td)
    return {'B': _cffi_backend, 'inline': FFI(), 'td': tds, 'cparser': _cffi_backend.FFI(),
            'abi': _c06abi.ffi, 'api': _c06api.ffi,
            'tk': {n: k for k, n in enumerate(setup['mod_names'])},
            'lib': _cffi_backend.load_library(setup['so'], 0),
            'so_k': {n: k for k, n in enumerate(setup.get('so_names', []))}, 'called': set()}


def kind_of(B, v):
    for t, k in ((bool, 'b'), (int, 'i'), (bytes, 'c'), (str, 'c'), (float, 'f'), (complex, 'j')):
        if type(v) is t:
            return k
    try:
        float(v)            # reading a long double gives a <cdata 'long double'>
        return 'f'
    except Exception:
        return '?' + type(v).__name__


def check_facts(B, rep, name, ct, g, path):
    """The compiler's facts g for `name` against the ctype object ct."""
    def bad(mech, msg):
        rep.bad(mech, "'%s' (ctype '%s' via %s): %s; gcc says %s" % (name, ct.cname, path, msg, g), name)
    if B.sizeof(ct) != g['size']:
        bad('sizeof', 'sizeof = %d' % B.sizeof(ct))
    if B.alignof(ct) != g['align']:
        bad('alignof', 'alignof = %d' % B.alignof(ct))
    ptr = B.new_pointer_type(ct)
    kind = kind_of(B, B.newp(ptr)[0])
    ischar = ct.cname in CHARKINDS
    want = 'c' if (ischar and g['cls'] == 'i') else g['cls']
    rep.stat('kind_' + kind)
    if kind != want:
        bad('kind', 'reads back as kind %r, expected %r' % (kind, want))
        return
    m1 = None
    if kind in 'ibc':
        m1 = int(B.cast(ct, -1))
        lo, hi = (-g['smax'] - 1, g['smax']) if g['neg'] else (0, g['umax'])
        if ct.cname == 'char':
            rep.stat('plain_char_signedness_not_compared')
            if m1 != 255:
                bad('signedness', "int(cast(-1)) = %d, cffi's character semantics say 255" % m1)
        elif m1 != (-1 if g['neg'] else g['umax']):
            bad('signedness', 'int(cast(T, -1)) = %d' % m1)
        else:
            rep.stat('signed' if g['neg'] else 'unsigned')
    if kind in 'ib':
        for v, inr in ((lo, True), (hi, True), (lo - 1, False), (hi + 1, False)):
            try:
                got = B.newp(ptr, v)[0]
            except OverflowError:
                got = OverflowError
            rep.stat('range_probes')
            if (got == v and got is not OverflowError) != inr:
                bad('range', 'storing %d gives %r; the range is [%d, %d]' % (v, got, lo, hi))
        if kind == 'b' and (B.newp(ptr, 1)[0] is not True or int(B.cast(ct, 2)) != 1):
            bad('kind', '_Bool does not normalise to True/1')
    elif kind == 'c' and ct.cname != 'char':
        # wide characters wrap like the compiler's integer type
        for v in (hi, hi + 1, lo):
            w = (v - lo) % (hi - lo + 1) + lo
            if int(B.cast(ct, v)) != w:
                bad('range', 'int(cast(T, %d)) = %d, expected %d' % (v, int(B.cast(ct, v)), w))
    elif kind == 'f':
        if float(B.cast(ct, V)) != g['fr'] or int(B.cast(ct, -1.5)) != -1:
            bad('float-precision', 'float(cast(T, %r)) = %r' % (V, float(B.cast(ct, V))))
    elif kind == 'j':
        c = complex(B.cast(ct, complex(V, -V)))
        if c != complex(g['fr'], -g['fr']):
            bad('float-precision', 'complex(cast(T, %r-%rj)) = %r' % (V, V, c))


def check_calls(st, rep, name, ct, g):
    """The libffi type stored with the ctype, observed from gcc-compiled callees."""
    B = st['B']
    k = st['so_k'].get(name)
    if k is None or name != ct.cname or name in st['called']:
        return
    st['called'].add(name)

    def bad(mech, msg):
        rep.bad(mech, "'%s' through a libffi call: %s; gcc says %s" % (name, msg, g), name)
    size = g['size']
    cls = 'c' if (name in CHARKINDS and g['cls'] == 'i') else g['cls']
    if cls in 'ib':
        lo, hi = (-g['smax'] - 1, g['smax']) if g['neg'] else (0, g['umax'])
        pat = int.from_bytes(bytes(0x11 * (j + 1) for j in range(size)), 'big')
        vals = [lo, hi, 0] + ([pat, hi - pat] if cls == 'i' else []) + ([-1, -pat] if g['neg'] else [])
        conv = lambda r: r
    elif cls == 'c':
        vals = [b'\x00', b'A', b'\xff'] if name == 'char' else \
            ['\x00', 'A', '\uffff'] + (['\U0010ffff'] if size == 4 else [])
        conv = lambda r: r
    elif cls == 'f':
        vals = [0.0, -1.5, V]
        conv = float
    else:
        vals = [complex(V, -V)]
        conv = complex
    want = {v: v for v in vals}
    if cls in 'fj':
        want[V] = g['fr']
        want[complex(V, -V)] = complex(g['fr'], -g['fr'])
    try:
        fid = st['lib'].load_function(B.new_function_type((ct,), ct, False), 'c06_id_%d' % k)
        got = [conv(fid(v)) for v in vals]
    except NotImplementedError as e:
        if cls == 'j':
            rep.stat('ffi_call_complex_not_supported')
        else:
            bad('ffi-call:raised', 'T f(T) raised NotImplementedError: %s' % e)
        return
    rep.stat('ffi_call_identity_types')
    rep.stat('ffi_call_identity_' + cls)
    for v, r in zip(vals, got):
        rep.stat('ffi_call_identity_values')
        if r != want[v] or type(r) is not type(want[v]) and cls != 'b':
            bad('ffi-call:identity', 'T f(T x) { return x; } called with %r returns %r' % (v, r))
    if cls in 'ib':
        LL = B.new_primitive_type('long long')
        fw = st['lib'].load_function(B.new_function_type((ct,), LL, False), 'c06_wide')
        rep.stat('ffi_call_widening_types')
        for v in vals:
            r = fw(v)
            rep.stat('ffi_call_widening_values')
            if r != (v if v < 2 ** 63 else v - 2 ** 64):
                bad('ffi-call:argument-widening', 'long long f(long long) called as long long f(T) with '
                    '%d sees %d' % (v, r))


def check_entry_points(st, rep, name, ct, g, got):
    """sizeof / alignof through every entry point that takes this type."""
    B = st['B']
    want = (g['size'], g['align'])
    ptr = B.new_pointer_type(ct)
    zero = B.cast(ct, 0)
    arr = B.newp(B.new_array_type(ptr, 3))
    obs = [('backend sizeof(cast cdata)', (B.sizeof(zero), g['align'])),
           ('backend sizeof(array cdata)/3', (B.sizeof(arr) / 3, g['align'])),
           ('backend sizeof(array ctype)/3', (B.sizeof(B.new_array_type(ptr, 3)) / 3,
                                              B.alignof(B.new_array_type(ptr, 3))))]
    for p, key in (('inline', 'inline'), ('cparser', 'cparser'), ('abi', 'abi_parse'), ('api', 'api_parse')):
        ffi = st[p]
        if key in got:
            obs.append(("%s.sizeof/alignof('%s')" % (p, name), (ffi.sizeof(name), ffi.alignof(name))))
            obs.append(("%s.sizeof/alignof('%s[3]')" % (p, name),
                        (ffi.sizeof(name + '[3]') / 3, ffi.alignof(name + '[3]'))))
        obs.append(('%s.sizeof/alignof(ctype)' % p, (ffi.sizeof(ct), ffi.alignof(ct))))
        obs.append(('%s.sizeof(cast cdata)' % p, (ffi.sizeof(zero), g['align'])))
        obs.append(('%s.sizeof(array cdata)/3' % p, (ffi.sizeof(arr) / 3, g['align'])))
    for what, val in obs:
        rep.stat('sizeof_alignof_entry_points')
        if val != want:
            rep.bad('sizeof:entry-point', "%s = %r for '%s' (ctype '%s'); gcc says %s" %
                    (what, val, name, ct.cname, g), name)


def check_model(st, rep, name, ct, g):
    """model.PrimitiveType's kind predicates (the code generators branch on
    them) against the compiler's class of the type."""
    from cffi import model
    try:
        tp, quals = st['inline']._parser.parse_type_and_quals(name)
    except Exception:
        rep.stat('model_type_not_available')
        return
    rep.stat('model_predicate_checks')
    if not isinstance(tp, model.PrimitiveType) or tp.name != ct.cname:
        rep.bad('model-kind', "the model type of '%s' is %r, the ctype is '%s'" % (name, tp, ct.cname), name)
        return
    cls = 'c' if (ct.cname in CHARKINDS and g['cls'] == 'i') else g['cls']
    want = (cls == 'c', cls in 'ib', cls == 'f', cls == 'j')
    have = (bool(tp.is_char_type()), bool(tp.is_integer_type()), bool(tp.is_float_type()),
            bool(tp.is_complex_type()))
    if have != want:
        rep.bad('model-kind', "model.PrimitiveType('%s'): (is_char_type, is_integer_type, is_float_type, "
                "is_complex_type) = %r; for gcc the class of '%s' is %r" % (tp.name, have, name, cls), name)


def resolve(st, path, name):
    if path == 'inline':
        return st['inline'].typeof(name)
    if path == 'cparser':
        return st['cparser'].typeof(name)
    k = st['tk'].get(name)
    where = path.split('_')[0]
    if path.endswith('_parse'):
        return st[where].typeof(name)
    if k is None:
        return None
    ffi = st['td'][k // TDGROUP] if where == 'inline' else st[where]
    if ffi is None:
        return None
    return ffi.typeof('t_%d' % k)


def names_case(st, case, rep):
    import random
    B = st['B']
    from cffi import model, commontypes
    ALL = model.PrimitiveType.ALL_PRIMITIVE_TYPES
    COMMON = commontypes.COMMON_TYPES
    for name, g, seed in case['items']:
        order = list(PATHS)
        random.Random(seed).shuffle(order)
        got = {}
        for path in order:
            try:
                ct = resolve(st, path, name)
            except Exception as e:
                rep.stat('rejected_%s' % path)
                rep.stat('exc_%s_%s' % (path, type(e).__name__))
                ct = None
            else:
                if ct is None:
                    continue        # no typedef of that name in the modules
            if ct is not None:
                got[path] = ct
                rep.stat('accepted_%s' % path)
            rep.case((name, path), nontrivial=bool(g) or ct is not None,
                     sample={'name': name, 'path': path, 'ctype': ct.cname, 'gcc': g} if g and ct else None)
        intable = name in ALL or isinstance(COMMON.get(name), str)
        if intable:
            rep.stat('table_names')
            for path in PATHS:
                if path not in got:
                    rep.bad('table-name-rejected:' + path, "'%s' is in the Python tables but %s does not "
                            'resolve it' % (name, path), name)
        elif is_ident(name):
            rep.stat('near_miss_identifiers')
            for path in got:
                rep.bad('identifier-outside-tables:' + path, "'%s' is in no Python table but %s resolves "
                        "it to '%s'" % (name, path, got[path].cname), name)
        if g:
            # a name that is a type for the compiler and that one of the two parsers takes is in the
            # property's domain: it must denote that ctype through the other parser too
            pp = ('inline', 'cparser', 'abi_parse', 'api_parse')
            rep.stat('valid_c_parser_agreement_checks')
            if any(p in got for p in pp):
                for p in pp:
                    if p not in got:
                        rep.bad('valid-name-rejected:' + p, "'%s' is a type for gcc and resolves to '%s' via %s, "
                                'but %s does not resolve it' % (name, got[[q for q in pp if q in got][0]].cname,
                                                                [q for q in pp if q in got][0], p), name)
        if g and not got:
            rep.stat('valid_c_rejected_by_every_path')
        if g and 'inline' not in got:
            rep.stat('valid_c_rejected_by_inline')
        if g and 'cparser' not in got:
            rep.stat('valid_c_rejected_by_cparser')
        if not got:
            continue
        if not g:
            rep.stat('accepted_but_not_c')
            for path in got:
                rep.stat('accepted_but_not_c_' + path)
        # one ctype object for the name, whatever the path
        ref = got[min(got, key=PATHS.index)]
        distinct = [ref]
        for path, ct in got.items():
            if ct is not ref:
                rep.bad('ctype-differs:' + path, "'%s' is '%s' via %s but '%s' via %s" %
                        (name, ref.cname, min(got, key=PATHS.index), ct.cname, path), name)
                if not any(ct is d for d in distinct):
                    distinct.append(ct)
            else:
                rep.stat('identity_checks')
        for ct in distinct:
            if ct.kind != 'primitive':
                rep.stat('not_primitive')
                continue
            try:
                if B.new_primitive_type(ct.cname) is not ct:
                    rep.bad('ctype-differs:new_primitive_type', "new_primitive_type('%s') is not the "
                            "object the name '%s' resolves to" % (ct.cname, name), name)
                rep.stat('identity_checks')
            except Exception as e:
                rep.bad('table-name-rejected:new_primitive_type', "new_primitive_type('%s') raised %s" %
                        (ct.cname, type(e).__name__), name)
            path = [p for p in got if got[p] is ct][0]
            if intable:
                want = COMMON.get(name, name) if name not in ALL else name
                if ct.cname != want:
                    rep.bad('canonical-type', "table name '%s' resolves to '%s' via %s, the tables say '%s'"
                            % (name, ct.cname, path, want), name)
            if g:
                rep.stat('compared_with_gcc')
                if not is_ident(name):
                    want = CANON_TO_CFFI.get(g['canon'], g['canon'])
                    rep.stat('canonical_type_checks')
                    if ct.cname != want:
                        rep.bad('canonical-type', "'%s' resolves to '%s' via %s; for gcc it is '%s'" %
                                (name, ct.cname, path, g['canon']), name)
                check_facts(B, rep, name, ct, g, path)
                for p in ('inline', 'cparser'):       # the string entry points of sizeof/alignof
                    if p in got and (st[p].sizeof(name), st[p].alignof(name)) != (g['size'], g['align']):
                        rep.bad('sizeof', "%s: ffi.sizeof/alignof('%s') = %r; gcc says %s" %
                                (p, name, (st[p].sizeof(name), st[p].alignof(name)), g), name)
                check_entry_points(st, rep, name, ct, g, got)
                if 'inline' in got and got['inline'] is ct:
                    check_model(st, rep, name, ct, g)
                check_calls(st, rep, name, ct, g)


def tables_case(st, rep):
    """The tables as data: key sets, index <-> name through a hand-made
    out-of-line module that holds one typedef per primitive index."""
    B = st['B']
    from cffi import model, cffi_opcode, commontypes
    ALL = model.PrimitiveType.ALL_PRIMITIVE_TYPES
    P2I = cffi_opcode.PRIMITIVE_TO_INDEX
    N = cffi_opcode._NUM_PRIM
    rep.case('tables', sample={'tables': 'ALL_PRIMITIVE_TYPES=%d PRIMITIVE_TO_INDEX=%d _NUM_PRIM=%d'
                               % (len(ALL), len(P2I), N)})
    if set(ALL) != set(P2I):
        rep.bad('tables:keyset', 'ALL_PRIMITIVE_TYPES and PRIMITIVE_TO_INDEX differ on %r' %
                sorted(set(ALL) ^ set(P2I)), 'tables')
    inv = {}
    for n, i in P2I.items():
        if i in inv or not 1 <= i < N:
            rep.bad('tables:index-bijection', "index %r of '%s' is out of 1..%d or also the index of %r" %
                    (i, n, N - 1, inv.get(i)), 'tables')
        inv[i] = n
    if sorted(inv) != list(range(1, N)):
        rep.bad('tables:index-bijection', 'indexes without a name: %r' %
                sorted(set(range(1, N)) - set(inv)), 'tables')
    for k, v in commontypes.COMMON_TYPES.items():
        if isinstance(v, str):
            rep.stat('common_types_entries')
            want = k if k.endswith('_t') else {'bool': '_Bool', 'float _Complex': '_cffi_float_complex_t',
                                               'double _Complex': '_cffi_double_complex_t'}.get(k)
            if v != want or v not in ALL:
                rep.bad('tables:common-types', 'COMMON_TYPES[%r] = %r' % (k, v), 'tables')
    for n in ALL:
        if n.endswith('_t') and commontypes.COMMON_TYPES.get(n) != n:
            rep.bad('tables:common-types', "'%s' is missing from COMMON_TYPES" % n, 'tables')
    # every index of the table, the first ones past its end, indexes that alias a valid one
    # when truncated to 8 or 16 bits, the largest/smallest 24-bit arguments, and the negative
    # ones (-1..-3 are the "unknown size" markers of compiled modules: errors, never a type)
    idxs = list(range(N + 4)) + [N + 256, 256 + 7, 65536 + 7, 0x7fffff, -1, -2, -3, -4, -0x800000]
    types = b''.join((((i << 8) | cffi_opcode.OP_PRIMITIVE) & 0xffffffff).to_bytes(4, 'big')
                     for i in idxs)
    sweep = B.FFI('_c06sweep', _version=0x2601, _types=types,
                  _typenames=tuple(pos.to_bytes(4, 'big') + b'p_%03d' % pos for pos in range(len(idxs))))
    inline = st['inline']
    for pos, i in enumerate(idxs):
        rep.case(('index', i), sample={'index': i, 'python_name': inv.get(i)})
        try:
            ct = sweep.typeof('p_%03d' % pos)
        except Exception as e:
            ct = None
            exc = type(e).__name__
        rep.stat('index_sweep')
        if i >= N or i < 0:
            rep.stat('index_sweep_out_of_range')
            if ct is not None:
                rep.bad('tables:out-of-range-index', "index %d outside 0.._NUM_PRIM-1 realizes to '%s'" %
                        (i, ct.cname), 'tables')
            continue
        want = 'void' if i == 0 else inv.get(i)
        if ct is None or ct.cname != want:
            rep.bad('tables:index-name', "primitive index %d is '%s' in PRIMITIVE_TO_INDEX but realizes to "
                    '%s in the C backend' % (i, want, "'%s'" % ct.cname if ct is not None else exc), 'tables')
        elif ct is not inline.typeof(want):
            rep.bad('ctype-differs:index', "index %d and the in-line FFI give two '%s' objects" % (i, want),
                    'tables')
        elif i:
            letter = ALL[want]
            k = kind_of(B, B.newp(B.new_pointer_type(ct))[0])
            rep.stat('letter_' + letter)
            if {'b': 'i'}.get(k, k) != letter:
                rep.bad('tables:kind-letter', "ALL_PRIMITIVE_TYPES['%s'] = %r but the ctype behaves as %r" %
                        (want, letter, k), 'tables')


def child_case(st, case):
    rep = core.ChildRep()
    if case['kind'] == 'tables':
        tables_case(st, rep)
    else:
        names_case(st, case, rep)
    return rep.result()


def judge(ctx, setup, case, obs):
    def rp(detail):
        if detail == 'tables' or case['kind'] == 'tables':
            return {'kind': 'tables'}
        return {'kind': 'names', 'items': [it for it in case['items'] if it[0] == detail]}
    core.absorb(ctx, case, obs, rp)
