"""C12 -- API-mode modules reflect the C source and detect mismatches.

Per generated C source three modules are compiled:
  A  cdef identical to the source: every declared item reachable; layouts and
     addresses are those reported by C helper functions compiled in the same
     source (sizeof/offsetof/&global); functions return what an independent
     Python model of their arithmetic body gives; globals read/written through
     lib are observed by C getters/setters and vice versa; no error anywhere.
  M  the same source with single-point mutations of the cdef (per item, p=1/2):
     struct field retyped / removed / swapped, constant value changed,
     enumerator changed.  Using a mutated item whose layout/value really
     differs must raise; its unmutated neighbours must not.
  D  the mutated structs / constants declared with '...': no error, the
     compiler's layout and values are used.
  PA the structs under '#pragma pack(1)' in the source and cdef(packed=True):
     agreement with the compiler's packed layout, no error.
  PM packed source, packed cdef with the mutated structs: a mutation that moves
     a field or changes the size must raise.
  PN cdef(packed=True) over a source that is *not* packed: must raise exactly
     for the structs whose natural layout has padding.
Constants are also used as array lengths inside type strings ('char[K3]'):
the agreeing module gives sizeof == value, the mutated one must raise.
"""
import os, sys, random, struct
from vlib import core, modbuild

RULE = ("case = one declared item of a generated (cdef, C source) pair in module A (agreement), M "
        "(mutated cdef) or D (mutated + '...'); items: structs of 1-6 fields over integer/float/"
        "pointer/array types, #define / static const / enumerator constants, arithmetic functions, "
        "globals; distinct = (module kind, item declaration); non-trivial = struct with >= 2 "
        "fields, or a constant/function/global")
ASSUMPTIONS = ["a mutation must be detected iff it changes a field offset, a field size or the total size (computed with a natural-alignment model, cross-checked against the compiler's own sizeof/offsetof in module A)",
               "the error class is ffi.error or VerificationError"]

FT = [('char', 1), ('short', 2), ('int', 4), ('long', 8), ('long long', 8), ('unsigned char', 1),
      ('unsigned int', 4), ('float', 4), ('double', 8), ('void *', 8), ('int8_t', 1),
      ('uint16_t', 2), ('int64_t', 8)]
ARITH = ['int', 'unsigned int', 'short', 'long', 'unsigned long long', 'signed char', 'double',
         'float', '_Bool', 'uint16_t']


def layout(fields):
    """natural-alignment layout: [(name, offset, size)], total size"""
    off, maxal, out = 0, 1, []
    for name, (T, sz), n in fields:
        al = sz
        size = sz * (n or 1)
        off = (off + al - 1) // al * al
        out.append((name, off, size))
        off += size
        maxal = max(maxal, al)
    total = (off + maxal - 1) // maxal * maxal
    return out, max(total, 1)


def packed_layout(fields):
    off, out = 0, []
    for name, (T, sz), n in fields:
        size = sz * (n or 1)
        out.append((name, off, size))
        off += size
    return out, max(off, 1)


def render_struct(name, fields, dots=False):
    fs = ' '.join('%s %s%s;' % (T, fn, '[%d]' % n if n else '') for fn, (T, sz), n in fields)
    return 'struct %s { %s%s };' % (name, fs, ' ...;' if dots else '')


def gen_source(seed):
    rnd = random.Random(seed)
    items = []
    for i in range(16):
        nf = rnd.choice([1, 2, 3, 3, 4, 6])
        fields = [('f%d' % j, rnd.choice(FT), rnd.choice([0, 0, 0, 3])) for j in range(nf)]
        items.append({'kind': 'struct', 'name': 's%d' % i, 'fields': fields})
    for i in range(8):
        v = rnd.choice([0, 1, 42, 255, 65536, 2 ** 31 - 1, rnd.randint(-10 ** 6, 10 ** 6)])
        form = rnd.choice(['define', 'static'])
        if form == 'define':
            v = abs(v)
        items.append({'kind': 'const', 'name': 'K%d' % i, 'value': v, 'form': form})
    for i in range(4):
        vals = []
        cur = rnd.randint(-5, 5)
        for j in range(rnd.choice([2, 3, 4])):
            vals.append(('E%d_%d' % (i, j), cur))
            cur += rnd.choice([1, 1, 2, 10])
        items.append({'kind': 'enum', 'name': 'e%d' % i, 'values': vals})
    for i in range(10):
        args = [rnd.choice(ARITH) for _ in range(rnd.randrange(0, 4))]
        items.append({'kind': 'func', 'name': 'fn%d' % i, 'args': args, 'ret': rnd.choice(ARITH),
                      'k': rnd.randint(1, 9)})
    for i in range(6):
        items.append({'kind': 'glob', 'name': 'g%d' % i, 'type': rnd.choice(ARITH[:6] + ['double']),
                      'init': rnd.randint(1, 100)})
    return items


def c_source(items, packed=False):
    out = ['#include <stdint.h>', '#include <stddef.h>']
    if packed:
        out.append('#pragma pack(1)')
    for it in items:
        k = it['kind']
        if k == 'struct':
            out.append(render_struct(it['name'], it['fields']))
            out.append('size_t sz_%s(void) { return sizeof(struct %s); }' % (it['name'], it['name']))
            for fn, _, _ in it['fields']:
                out.append('size_t of_%s_%s(void) { return offsetof(struct %s, %s); }' %
                           (it['name'], fn, it['name'], fn))
        elif k == 'const':
            if it['form'] == 'define':
                out.append('#define %s %d' % (it['name'], it['value']))
            else:
                out.append('static const int %s = %d;' % (it['name'], it['value']))
        elif k == 'enum':
            out.append('enum %s { %s };' % (it['name'], ', '.join('%s = %d' % v for v in it['values'])))
        elif k == 'func':
            params = ', '.join('%s a%d' % (a, i) for i, a in enumerate(it['args'])) or 'void'
            terms = ['%dLL' % it['k']] + ['(%d * (long long)a%d)' % (i + 2, i)
                                          for i in range(len(it['args']))]
            body = 'long long acc = %s;' % ' + '.join(terms)
            if it['ret'] == '_Bool':
                body += ' return (acc & 1) != 0;'
            else:
                body += ' return (%s)acc;' % it['ret']
            out.append('%s %s(%s) { %s }' % (it['ret'], it['name'], params, body))
        elif k == 'glob':
            T, n = it['type'], it['name']
            out.append('%s %s = %d;' % (T, n, it['init']))
            out.append('%s get_%s(void) { return %s; }' % (T, n, n))
            out.append('void set_%s(%s v) { %s = v; }' % (n, T, n))
            out.append('void *addr_%s(void) { return &%s; }' % (n, n))
    return '\n'.join(out) + '\n'


def cdef_text(items, mutated=None, dots=False):
    out = []
    for idx, it in enumerate(items):
        k = it['kind']
        m = (mutated or {}).get(idx)
        if k == 'struct':
            fields = m['fields'] if m else it['fields']
            out.append(render_struct(it['name'], fields, dots=dots and bool(m)))
            if not mutated:
                out.append('size_t sz_%s(void);' % it['name'])
                for fn, _, _ in it['fields']:
                    out.append('size_t of_%s_%s(void);' % (it['name'], fn))
        elif k == 'const':
            v = m['value'] if m else it['value']
            if dots and m:
                out.append('#define %s ...' % it['name'] if it['form'] == 'define' else
                           'static const int %s;' % it['name'])
            elif it['form'] == 'define':
                out.append('#define %s %d' % (it['name'], v))
            else:
                out.append('static const int %s = %d;' % (it['name'], v))
        elif k == 'enum':
            vals = m['values'] if m else it['values']
            if dots and m:
                out.append('enum %s { %s, ... };' % (it['name'], ', '.join(
                    '%s = ...' % n if (n, v) not in it['values'] else '%s = %d' % (n, v)
                    for n, v in vals)))
            else:
                out.append('enum %s { %s };' % (it['name'], ', '.join('%s = %d' % v for v in vals)))
        elif k == 'func' and not mutated:
            out.append('%s %s(%s);' % (it['ret'], it['name'], ', '.join(it['args']) or 'void'))
        elif k == 'glob' and not mutated:
            T, n = it['type'], it['name']
            out.append('%s %s; %s get_%s(void); void set_%s(%s v); void *addr_%s(void);' %
                       (T, n, T, n, n, T, n))
    return '\n'.join(out) + '\n'


def cdef_structs(items, mutated=None, helpers=False):
    out = []
    for idx, it in enumerate(items):
        if it['kind'] != 'struct':
            continue
        m = (mutated or {}).get(idx)
        out.append(render_struct(it['name'], m['fields'] if m else it['fields']))
    text = {'text': '\n'.join(out) + '\n', 'kwds': {'packed': True}}
    if not helpers:
        return [text]
    h = []
    for it in items:
        if it['kind'] == 'struct':
            h.append('size_t sz_%s(void);' % it['name'])
            for fn, _, _ in it['fields']:
                h.append('size_t of_%s_%s(void);' % (it['name'], fn))
    return [text, '\n'.join(h) + '\n']


def mutate(seed, items):
    rnd = random.Random(seed ^ 0xabcdef)
    mut = {}
    for idx, it in enumerate(items):
        if rnd.random() < 0.5:
            continue
        if it['kind'] == 'struct':
            f = [list(x) for x in it['fields']]
            op = rnd.choice(['retype', 'remove', 'swap', 'resize-array'])
            j = rnd.randrange(len(f))
            if op == 'retype':
                # same type class only: the generated compile-time checks reject a
                # cdef integer field that is a double or a pointer in the source
                cls = lambda t: 'f' if t[0] in ('float', 'double') else \
                    ('p' if t[0].endswith('*') else 'i')
                cand = [t for t in FT if t != tuple(f[j][1]) and cls(t) == cls(f[j][1])
                        and t[1] != f[j][1][1]]
                if cand:
                    f[j][1] = rnd.choice(cand)
                else:
                    f[j][2] = (f[j][2] or 1) + 1
            elif op == 'remove' and len(f) > 1:
                del f[j]
            elif op == 'swap' and len(f) > 1:
                j2 = (j + 1) % len(f)
                f[j], f[j2] = f[j2], f[j]
            else:
                op = 'resize-array'
                f[j][2] = (f[j][2] or 1) + rnd.choice([1, 2])
            mut[idx] = {'fields': [tuple(x) for x in f], 'op': op}
        elif it['kind'] == 'const':
            v = it['value']
            nv = rnd.choice([v + 1, v - 1, -v if v else 7, v * 2 + 1])
            if it['form'] == 'define' and nv < 0:
                nv = v + 3
            mut[idx] = {'value': nv, 'op': 'value'}
        elif it['kind'] == 'enum':
            vals = list(it['values'])
            j = rnd.randrange(len(vals))
            vals[j] = (vals[j][0], vals[j][1] + rnd.choice([1, -1, 100]))
            mut[idx] = {'values': vals, 'op': 'enumerator', 'which': j}
    return mut


def specs_for(d, seed, tag):
    items = gen_source(seed)
    src = c_source(items)
    mut = mutate(seed, items)
    return items, mut, [
        {'name': '_c12a_%s' % tag, 'kind': 'api', 'cdef': cdef_text(items), 'source': src, 'dir': d},
        {'name': '_c12m_%s' % tag, 'kind': 'api', 'cdef': cdef_text(items, mut), 'source': src,
         'dir': d},
        {'name': '_c12d_%s' % tag, 'kind': 'api', 'cdef': cdef_text(items, mut, dots=True),
         'source': src, 'dir': d},
        {'name': '_c12pa_%s' % tag, 'kind': 'api', 'cdef': cdef_structs(items, None, True),
         'source': c_source(items, packed=True), 'dir': d},
        {'name': '_c12pm_%s' % tag, 'kind': 'api', 'cdef': cdef_structs(items, mut),
         'source': c_source(items, packed=True), 'dir': d},
        {'name': '_c12pn_%s' % tag, 'kind': 'api', 'cdef': cdef_structs(items, None),
         'source': src, 'dir': d}]


def generate(ctx):
    rng = ctx.rng('gen')
    n = ctx.scale(6, 100)
    d = os.path.join(ctx.tmp, 'mods')
    cases, specs = [], []
    for i in range(n):
        seed = rng.getrandbits(40)
        items, mut, sp = specs_for(d, seed, str(i))
        specs += sp
        cases.append({'seed': seed, 'tag': str(i)})
    res = modbuild.build_modules(ctx, specs)
    for s in specs:
        if not res[s['name']]['ok']:
            raise core.Inconclusive('module %s failed to build: %s %s' % (
                s['name'], res[s['name']]['error'][-600:], res[s['name']].get('log', '')[-800:]))
    return {'dir': d}, cases


def child_setup(setup, wd):
    sys.path.insert(0, setup['dir'])
    return {'dir': setup['dir']}


def cconv(T, acc):
    """C conversion of a 64-bit wrapped accumulator to T"""
    acc = (acc + 2 ** 63) % 2 ** 64 - 2 ** 63
    if T == '_Bool':
        return bool(acc & 1)
    if T == 'double':
        return float(acc)
    if T == 'float':
        return struct.unpack('<f', struct.pack('<f', float(acc)))[0]
    size, signed = {'int': (4, 1), 'unsigned int': (4, 0), 'short': (2, 1), 'long': (8, 1),
                    'unsigned long long': (8, 0), 'signed char': (1, 1), 'uint16_t': (2, 0)}[T]
    v = acc & ((1 << (8 * size)) - 1)
    if signed and v >= 1 << (8 * size - 1):
        v -= 1 << (8 * size)
    return v


def argval(rnd, T):
    if T == '_Bool':
        return rnd.choice([True, False])
    if T in ('double', 'float'):
        return float(rnd.randint(-1000, 1000))
    size, signed = {'int': (4, 1), 'unsigned int': (4, 0), 'short': (2, 1), 'long': (8, 1),
                    'unsigned long long': (8, 0), 'signed char': (1, 1), 'uint16_t': (2, 0)}[T]
    lo, hi = (-(1 << (8 * size - 1)), (1 << (8 * size - 1)) - 1) if signed else (0, (1 << 8 * size) - 1)
    return rnd.choice([lo, hi, 0, 1, rnd.randint(lo, hi)])


def child_case(st, case):
    import importlib
    rep = core.ChildRep()
    items, mut, sp = specs_for(st['dir'], case['seed'], case['tag'])
    rnd = random.Random(case['seed'] + 1)
    A = importlib.import_module(sp[0]['name'])
    M = importlib.import_module(sp[1]['name'])
    D = importlib.import_module(sp[2]['name'])
    PA = importlib.import_module(sp[3]['name'])
    PM = importlib.import_module(sp[4]['name'])
    PN = importlib.import_module(sp[5]['name'])
    errs = (A.ffi.error,)
    try:
        from cffi import VerificationError
        errs = errs + (VerificationError,)
    except ImportError:
        pass

    def use_struct(mod, it, fields):
        tag = 'struct ' + it['name']
        size = mod.ffi.sizeof(tag)
        p = mod.ffi.new(tag + ' *')
        offs = [(fn, mod.ffi.offsetof(tag, fn)) for fn, _, _ in fields]
        return size, offs
    for idx, it in enumerate(items):
        k = it['kind']
        detail = [case['seed'], case['tag'], idx]
        # ---------------- module A: agreement ----------------
        try:
            if k == 'struct':
                lay, total = layout(it['fields'])
                size, offs = use_struct(A, it, it['fields'])
                csz = getattr(A.lib, 'sz_' + it['name'])()
                coffs = [(fn, getattr(A.lib, 'of_%s_%s' % (it['name'], fn))()) for fn, _, _ in it['fields']]
                rep.case(('A', render_struct(it['name'], it['fields'])),
                         nontrivial=len(it['fields']) >= 2,
                         sample={'module': 'A', 'decl': render_struct(it['name'], it['fields'])})
                if size != csz or offs != coffs:
                    rep.bad('layout-differs-from-compiler', '%s: ffi size %d offsets %r, compiler '
                            '%d %r' % (it['name'], size, offs, csz, coffs), detail)
                if total != csz or [(n, o) for n, o, s in lay] != coffs:
                    rep.bad('harness-layout-model', 'model layout differs from the compiler for %s'
                            % render_struct(it['name'], it['fields']), detail)
                rep.stat('A_structs')
            elif k == 'const':
                rep.case(('A', k, it['name'], it['value']))
                if getattr(A.lib, it['name']) != it['value'] or \
                        A.ffi.integer_const(it['name']) != it['value']:
                    rep.bad('constant-value', '%s = %r, source says %d' %
                            (it['name'], getattr(A.lib, it['name']), it['value']), detail)
                if it['value'] > 0:
                    sz = A.ffi.sizeof('char[%s]' % it['name'])
                    sz2 = A.ffi.sizeof(A.ffi.typeof('short(*)[%s]' % it['name']).item)
                    rep.stat('A_constants_as_array_length')
                    if sz != it['value'] or sz2 != 2 * it['value']:
                        rep.bad('constant-as-array-length', 'sizeof(char[%s]) = %r, sizeof(short'
                                '[%s]) = %r, source says %s = %d' % (it['name'], sz, it['name'],
                                                                     sz2, it['name'], it['value']),
                                detail)
                rep.stat('A_constants')
            elif k == 'enum':
                rep.case(('A', k, it['name'], tuple(it['values'])))
                for n, v in it['values']:
                    if getattr(A.lib, n) != v:
                        rep.bad('enumerator-value', '%s = %r, source says %d' %
                                (n, getattr(A.lib, n), v), detail)
                rep.stat('A_enums')
            elif k == 'func':
                f = getattr(A.lib, it['name'])
                for _ in range(6):
                    args = [argval(rnd, a) for a in it['args']]
                    acc = it['k'] + sum((i + 2) * int(a) for i, a in enumerate(args))
                    exp = cconv(it['ret'], acc)
                    got = f(*args)
                    rep.case(('A', k, it['name'], tuple(args)),
                             sample={'module': 'A', 'call': '%s%r' % (it['name'], tuple(args))})
                    if got != exp or type(got) is not type(exp):
                        rep.bad('function-result', '%s %s(%s)%r returned %r, the C body gives %r' %
                                (it['ret'], it['name'], ', '.join(it['args']), tuple(args), got, exp),
                                detail)
                rep.stat('A_function_calls', 6)
            elif k == 'glob':
                n, T = it['name'], it['type']
                rep.case(('A', k, n, T))
                if getattr(A.lib, n) != it['init'] and not rep.stats.get('seen_' + n):
                    pass
                v = argval(rnd, T)
                setattr(A.lib, n, v)
                cv = getattr(A.lib, 'get_' + n)()
                if cv != v:
                    rep.bad('global-write-not-seen-by-c', '%s %s = %r through lib, C reads %r' %
                            (T, n, v, cv), detail)
                v2 = argval(rnd, T)
                getattr(A.lib, 'set_' + n)(v2)
                if getattr(A.lib, n) != v2:
                    rep.bad('global-read-differs-from-c', '%s %s set to %r by C, lib reads %r' %
                            (T, n, v2, getattr(A.lib, n)), detail)
                a1 = int(A.ffi.cast('uintptr_t', A.ffi.addressof(A.lib, n)))
                a2 = int(A.ffi.cast('uintptr_t', getattr(A.lib, 'addr_' + n)()))
                if a1 != a2:
                    rep.bad('global-address', '&%s: ffi %#x, C %#x' % (n, a1, a2), detail)
                rep.stat('A_globals')
        except Exception as e:
            rep.bad('agreement-raised:%s:%s' % (k, type(e).__name__), '%s %s in the agreeing '
                    'module raised %s: %s' % (k, it['name'], type(e).__name__, str(e)[:200]), detail)
        # ---------------- packed modules ----------------
        if k == 'struct':
            pl0, pt0 = packed_layout(it['fields'])
            nl0, nt0 = layout(it['fields'])
            decl0 = render_struct(it['name'], it['fields'])
            try:
                size, offs = use_struct(PA, it, it['fields'])
                csz = getattr(PA.lib, 'sz_' + it['name'])()
                coffs = [(fn, getattr(PA.lib, 'of_%s_%s' % (it['name'], fn))())
                         for fn, _, _ in it['fields']]
                rep.case(('PA', decl0), nontrivial=len(it['fields']) >= 2,
                         sample={'module': 'PA (packed)', 'decl': decl0})
                rep.stat('PA_structs')
                if size != csz or offs != coffs:
                    rep.bad('packed-layout-differs-from-compiler', '%s: ffi size %d offsets %r, '
                            'compiler %d %r' % (it['name'], size, offs, csz, coffs), detail)
                if pt0 != csz or [(n, o) for n, o, s_ in pl0] != coffs:
                    rep.bad('harness-layout-model', 'packed model differs from the compiler for '
                            + decl0, detail)
            except Exception as e:
                rep.bad('agreement-raised:packed-struct:%s' % type(e).__name__, '%s in the '
                        'agreeing packed module raised %s: %s' % (decl0, type(e).__name__,
                                                                  str(e)[:200]), detail)

            def pattempt(mod, fields):
                try:
                    return ('ok', use_struct(mod, it, fields))
                except errs as e:
                    return ('err', type(e).__name__, str(e)[:160])
                except Exception as e:
                    return ('other', type(e).__name__, str(e)[:160])
            # cdef(packed=True) over an unpacked source
            rN = pattempt(PN, it['fields'])
            # cffi also compares the total alignment (1 when packed)
            ndiff = nt0 != pt0 or nl0 != pl0 or any(sz > 1 for _, (T, sz), n in it['fields'])
            rep.case(('PN', decl0), nontrivial=len(it['fields']) >= 2)
            rep.stat('PN_structs_with_padding' if ndiff else 'PN_structs_without_padding')
            if ndiff and rN[0] == 'ok':
                rep.bad('mismatch-not-detected:packed-cdef-unpacked-source', 'cdef(packed=True) %s '
                        'but the source is not packed (natural size %d, packed %d): using it gave '
                        '%r' % (decl0, nt0, pt0, rN[1]), detail)
            elif ndiff and rN[0] == 'other':
                rep.bad('mismatch-wrong-exception:packed-struct', '%s: %r' % (decl0, rN), detail)
            elif not ndiff and rN[0] != 'ok':
                rep.bad('harmless-packed-raised', '%s has no padding but cdef(packed=True) raised '
                        '%r' % (decl0, rN), detail)
            # packed source, packed mutated cdef
            pm = mut.get(idx)
            if pm is not None:
                pl1, pt1 = packed_layout(pm['fields'])
                orig = dict((n, (o, s_)) for n, o, s_ in pl0)
                pdiff = pt0 != pt1 or any(orig.get(n) != (o, s_) for n, o, s_ in pl1)
                decl1 = render_struct(it['name'], pm['fields'])
                rP = pattempt(PM, pm['fields'])
                rep.case(('PM', decl1), sample={'module': 'PM (packed)', 'mutation': pm['op'],
                                                'decl': decl1})
                rep.stat('PM_mutated_' + pm['op'])
                if pdiff and rP[0] == 'ok':
                    rep.bad('mismatch-not-detected:packed-struct:' + pm['op'], 'packed cdef %s '
                            'disagrees with the packed C source %s but using it gave %r' %
                            (decl1, decl0, rP[1]), detail)
                elif pdiff and rP[0] == 'other':
                    rep.bad('mismatch-wrong-exception:packed-struct', '%s: %r' % (decl1, rP), detail)
                elif not pdiff and rP[0] != 'ok':
                    rep.bad('harmless-mutation-raised:packed-struct', '%s has the same packed '
                            'layout but raised %r' % (decl1, rP), detail)
                elif pdiff:
                    rep.stat('PM_mismatches_detected')
            else:
                rP = pattempt(PM, it['fields'])
                rep.stat('PM_unmutated_neighbours')
                if rP[0] != 'ok':
                    rep.bad('unmutated-item-raised:packed-struct', '%s is not mutated but using it '
                            'in the mutated packed module raised %r' % (decl0, rP), detail)
        # ---------------- modules M and D ----------------
        if k not in ('struct', 'const', 'enum'):
            continue
        m = mut.get(idx)

        def attempt(mod):
            try:
                if k == 'struct':
                    return ('ok', use_struct(mod, it, m['fields'] if m else it['fields']))
                if k == 'const':
                    return ('ok', getattr(mod.lib, it['name']))
                vals = m['values'] if m else it['values']
                return ('ok', [getattr(mod.lib, n) for n, v in vals])
            except errs as e:
                return ('err', type(e).__name__, str(e)[:160])
            except Exception as e:
                return ('other', type(e).__name__, str(e)[:160])
        rM = attempt(M)
        if m is None:
            rep.case(('M-neighbour', k, it['name']))
            rep.stat('M_unmutated_neighbours')
            if rM[0] != 'ok':
                rep.bad('unmutated-item-raised:' + k, '%s %s is not mutated but using it in the '
                        'mutated module raised %r' % (k, it['name'], rM), detail)
            continue
        if k == 'struct':
            l0, t0 = layout(it['fields'])
            l1, t1 = layout(m['fields'])
            orig = dict((n, (o, s)) for n, o, s in l0)
            differs = t0 != t1 or any(orig.get(n) != (o, s) for n, o, s in l1)
            decl = render_struct(it['name'], m['fields'])
        elif k == 'const':
            differs = m['value'] != it['value']
            decl = '%s=%d (source %d)' % (it['name'], m['value'], it['value'])
        else:
            differs = True
            decl = '%s %r (source %r)' % (it['name'], m['values'], it['values'])
        rep.case(('M', k, decl), sample={'module': 'M', 'mutation': m['op'], 'decl': decl})
        rep.stat('M_mutated_' + m['op'])
        if differs and rM[0] == 'ok':
            rep.bad('mismatch-not-detected:%s:%s' % (k, m['op']), 'cdef %s disagrees with the C '
                    'source but using it gave %r' % (decl, rM[1]), detail)
        elif differs and rM[0] == 'other':
            rep.bad('mismatch-wrong-exception:' + k, '%s: %r' % (decl, rM), detail)
        elif not differs and rM[0] != 'ok':
            rep.bad('harmless-mutation-raised:' + k, '%s has the same layout but raised %r' %
                    (decl, rM), detail)
        elif differs:
            rep.stat('M_mismatches_detected')
        if k == 'const' and differs and m['value'] > 0 and it['value'] > 0:
            # the mismatching constant used as an array length inside a type string
            for ts in ('char[%s]', 'int(*)[%s]', 'void(*)(short[2][%s])'):
                ts = ts % it['name']
                rep.stat('M_constants_as_array_length')
                try:
                    r = ('ok', repr(M.ffi.typeof(ts)))
                except errs as e:
                    r = ('err',)
                except Exception as e:
                    r = ('other', type(e).__name__, str(e)[:160])
                if r[0] == 'ok':
                    rep.bad('mismatch-not-detected:const:as-array-length', 'cdef %s disagrees '
                            'with the C source but typeof(%r) gave %s' % (decl, ts, r[1]), detail)
                elif r[0] == 'other':
                    rep.bad('mismatch-wrong-exception:const', 'typeof(%r): %r' % (ts, r), detail)
        # with '...': silently the compiler's layout / value.  A field whose *own*
        # declared size is wrong (retyped / resized array) is still reported by cffi
        # in a partial struct ('...' only frees offsets and total size): not judged.
        if k == 'struct' and m['op'] in ('retype', 'resize-array'):
            rep.stat('D_skipped_field_size_mutations')
            continue
        rD = attempt(D)
        rep.case(('D', k, decl))
        rep.stat('D_dotdotdot_items')
        if rD[0] != 'ok':
            rep.bad('dotdotdot-raised:' + k, "%s declared with '...' raised %r" % (decl, rD), detail)
        elif k == 'struct':
            size, offs = rD[1]
            csz = getattr(A.lib, 'sz_' + it['name'])()
            real = dict((fn, getattr(A.lib, 'of_%s_%s' % (it['name'], fn))()) for fn, _, _ in it['fields'])
            bad = [(fn, o) for fn, o in offs if fn in real and real[fn] != o]
            if size != csz or bad:
                rep.bad('dotdotdot-layout-not-from-compiler', "%s with '...': size %d offsets %r, "
                        'compiler %d %r' % (decl, size, offs, csz, real), detail)
        elif k == 'const' and rD[1] != it['value']:
            rep.bad('dotdotdot-value-not-from-compiler', '%s: %r' % (decl, rD[1]), detail)
        elif k == 'enum' and rD[1] != [v for n, v in it['values']]:
            rep.bad('dotdotdot-value-not-from-compiler', '%s: %r' % (decl, rD[1]), detail)
    return rep.result()


def judge(ctx, setup, case, obs):
    core.absorb(ctx, case, obs, lambda d: case)


def replay_setup(ctx, case):
    d = os.path.join(ctx.tmp, 'mods')
    items, mut, sp = specs_for(d, case['seed'], case['tag'])
    res = modbuild.build_modules(ctx, sp)
    for s in sp:
        if not res[s['name']]['ok']:
            raise core.Inconclusive('module build failed')
    return {'dir': d}
