"""C12 -- API-mode modules reflect the C source and detect mismatches.

Per generated C source six modules are compiled:
  A  cdef identical to the source: every declared item reachable (dir(lib),
     ffi.list_types()); layouts and addresses are those reported by C helper
     functions compiled in the same source (sizeof/offsetof/&global);
     functions return what an independent Python model of their arithmetic
     body gives; globals (arithmetic, arrays with fixed / '[...]' / '[]'
     lengths, pointers, structs) read/written through lib are observed by C
     getters/setters and vice versa; typedefs of primitives (exact and
     'int...'/'float...') have the compiler's size and signedness; integer
     constants over the whole 64-bit range, non-integer constants; structs
     with bitfields are written/read field by field through cffi and through
     C accessors alternately; no error anywhere.
  M  the same source with single-point mutations of the cdef (per item, p=1/2):
     struct/union field retyped / removed / swapped / resized, directed
     'only the field size differs', 'only the offsets differ' and 'only the
     total size differs' mutations,
     constant value changed (by one, sign, high 32 bits only, same 64-bit
     pattern with the other sign), enumerator changed.  Using a mutated item
     whose layout/value really differs must raise -- through whichever entry
     point touches it first (new, item of a new array, offsetof, alignof, .fields,
     field read / addressof through a cast pointer, dereference, dir(), the
     enclosing struct) and again on every later use; its unmutated neighbours
     must not.
  D  the mutated structs / constants declared with '...': no error, the
     compiler's layout and values are used; unmutated structs with array
     fields are declared with '[...]' lengths (all dimensions).
  PA the structs under '#pragma pack(1)' in the source and cdef(packed=True):
     agreement with the compiler's packed layout, no error.
  PM packed source, packed cdef with the mutated structs: a mutation that moves
     a field or changes the size must raise.
  PN cdef(packed=True) over a source that is *not* packed: must raise exactly
     for the structs whose natural layout has padding.
Aggregates come as 'struct tag', 'union tag', 'typedef struct {..} name_t',
'typedef union {..} name_t', 'struct tag + typedef' and 'typedef struct {..}
*name_p' (only reachable through the pointer typedef); some structs nest an
earlier aggregate by value and by pointer.
Constants are also used as array lengths inside type strings ('char[K3]'):
the agreeing module gives sizeof == value, the mutated one must raise.
"""
import os, sys, random, struct
from vlib import core, modbuild

RULE = ("case = one declared item of a generated (cdef, C source) pair in module A (agreement), M "
        "(mutated cdef) or D (mutated + '...'); items: structs/unions (tagged, typedef'd anonymous, "
        "reachable only through a pointer typedef, nesting other aggregates) of 1-7 fields over "
        "integer/float/pointer/1-D and 2-D array types, #define / static const int / long long / "
        "unsigned long long / enumerator constants over the 64-bit range, double and string "
        "constants, primitive typedefs (exact and '...'), arithmetic and variadic functions, "
        "arithmetic / array / pointer / struct globals; distinct = (module kind, item declaration, "
        "first entry point); non-trivial = aggregate with >= 2 fields, or a constant/function/global")
ASSUMPTIONS = ["a mutation must be detected iff it changes a field offset, a field size or the total size (computed with a natural-alignment model, cross-checked against the compiler's own sizeof/offsetof in module A)",
               "the error class is ffi.error or VerificationError",
               "ffi.sizeof() of a mismatching struct may succeed (it does not need the fields) but must then give the compiler's size",
               "a struct that embeds a mismatching struct by value may raise as well; if it does not, its layout must be the compiler's"]

FT = [('char', 1), ('short', 2), ('int', 4), ('long', 8), ('long long', 8), ('unsigned char', 1),
      ('unsigned int', 4), ('float', 4), ('double', 8), ('void *', 8), ('int8_t', 1),
      ('uint16_t', 2), ('int64_t', 8)]
ARITH = ['int', 'unsigned int', 'short', 'long', 'unsigned long long', 'signed char', 'double',
         'float', '_Bool', 'uint16_t']
ARRN = [0, 0, 0, 0, 0, 1, 2, 3, 3, 5, [2, 3], [3, 2]]
FORMS = ['tag'] * 5 + ['union', 'union', 'anon', 'anon', 'anon-union', 'tdef', 'ptr', 'ptr']
NSTRUCT = 16
NNESTED = 3
CVALS = [0, 1, 42, 255, 65536, 2 ** 31 - 1, 2 ** 31, 2 ** 32 - 1, 2 ** 32, 2 ** 63 - 1, 2 ** 63,
         2 ** 64 - 1, -1, -2 ** 31, -2 ** 31 - 1, -2 ** 63]
TDT = [('signed char', 1, 1), ('unsigned char', 1, 0), ('short', 2, 1), ('unsigned short', 2, 0),
       ('int', 4, 1), ('unsigned int', 4, 0), ('long', 8, 1), ('unsigned long', 8, 0),
       ('long long', 8, 1), ('unsigned long long', 8, 0), ('int8_t', 1, 1), ('uint32_t', 4, 0),
       ('float', 4, None), ('double', 8, None)]
BFT = ['int', 'unsigned int', 'unsigned char', 'short', 'unsigned short', 'long long',
       'unsigned long long']
GAT = [('int', 4), ('short', 2), ('unsigned char', 1), ('long long', 8), ('unsigned int', 4)]
FIELD_SIZE_OPS = ('retype', 'resize-array', 'size-only')


def dims(n):
    if not n:
        return []
    return list(n) if isinstance(n, (list, tuple)) else [n]


def nelem(n):
    r = 1
    for d in dims(n):
        r *= d
    return r


def talign(T):
    return T[2] if len(T) > 2 else T[1]


def tclass(T):
    if len(T) > 2:
        return 's'
    if T[0] in ('float', 'double'):
        return 'f'
    return 'p' if T[0].endswith('*') else 'i'


def is_union(it):
    return it['form'] in ('union', 'anon-union')


def layout(fields, union=False, packed=False):
    """natural-alignment (or packed) layout: [(name, offset, size)], total size"""
    off, maxal, out, end = 0, 1, [], 0
    for name, T, n in fields:
        al = 1 if packed else talign(T)
        size = T[1] * nelem(n)
        if union:
            off = 0
        off = (off + al - 1) // al * al
        out.append((name, off, size))
        off += size
        end = max(end, off)
        maxal = max(maxal, al)
    total = (end + maxal - 1) // maxal * maxal
    return out, max(total, 1)


def packed_layout(fields, union=False):
    return layout(fields, union, True)


def c_tname(it):
    """the name of the aggregate type in the C source"""
    if it['form'] == 'tag':
        return 'struct ' + it['name']
    if it['form'] == 'union':
        return 'union ' + it['name']
    return it['name'] + '_t'


def arr_suffix(n, dotarr=False):
    return ''.join('[%s]' % ('...' if dotarr else d) for d in dims(n))


def render_struct(it, fields=None, dots=False, dotarr=False, for_c=False):
    if fields is None:
        fields = it['fields']
    fs = ' '.join('%s %s%s;' % (T[0], fn, arr_suffix(n, dotarr)) for fn, T, n in fields)
    body = '{ %s%s }' % (fs, ' ...;' if dots else '')
    f, name = it['form'], it['name']
    kw = 'union' if is_union(it) else 'struct'
    if f in ('tag', 'union'):
        return '%s %s %s;' % (kw, name, body)
    if f in ('anon', 'anon-union'):
        return 'typedef %s %s %s_t;' % (kw, body, name)
    if f == 'tdef':
        return 'struct %s %s; typedef struct %s %s_t;' % (name, body, name, name)
    if for_c:
        return 'typedef struct %s %s_t, *%s_p;' % (body, name, name)
    return 'typedef struct %s *%s_p;' % (body, name)


def clit(v):
    if v >= 2 ** 63:
        return '%dULL' % v
    if v == -2 ** 63:
        return '(-9223372036854775807LL-1)'
    if abs(v) >= 2 ** 31:
        return '(%dLL)' % v
    return '(%d)' % v


CFORM_T = {'static': 'int', 'static-ll': 'long long', 'static-ull': 'unsigned long long'}


def gen_source(seed):
    rnd = random.Random(seed)
    items = []
    for i in range(NSTRUCT):
        nf = rnd.choice([1, 2, 3, 3, 4, 6])
        fields = [('f%d' % j, rnd.choice(FT), rnd.choice(ARRN)) for j in range(nf)]
        it = {'kind': 'struct', 'name': 's%d' % i, 'fields': fields, 'form': rnd.choice(FORMS),
              'nested': None, 'dotarr': rnd.random() < 0.6}
        if i >= NSTRUCT - NNESTED:
            # nests an earlier aggregate by value (possibly in an array) and maybe by pointer
            it['form'] = rnd.choice(['tag', 'tag', 'anon'])
            cand = [x for x in range(NSTRUCT - NNESTED) if items[x]['form'] != 'ptr']
            ni = rnd.choice(cand)
            inner = items[ni]
            _, itot = layout(inner['fields'], is_union(inner))
            ial = max(talign(T) for _, T, _ in inner['fields'])
            fields.insert(rnd.randrange(len(fields) + 1),
                          ('n%d' % i, (c_tname(inner), itot, ial), rnd.choice([0, 0, 2])))
            if rnd.random() < 0.5:
                fields.insert(rnd.randrange(len(fields) + 1),
                              ('q%d' % i, (c_tname(inner) + ' *', 8), 0))
            it['nested'] = ni
        items.append(it)
    for i in range(10):
        v = rnd.choice(CVALS + [rnd.randint(-10 ** 6, 10 ** 6)] * 8 + [rnd.randint(1, 3000)] * 4 +
                       [rnd.randint(-2 ** 63, 2 ** 64 - 1)] * 4)
        forms = ['define', 'define']
        if -2 ** 31 <= v < 2 ** 31:
            forms += ['static', 'static']
        if -2 ** 63 <= v < 2 ** 63:
            forms.append('static-ll')
        if v >= 0:
            forms.append('static-ull')
        items.append({'kind': 'const', 'name': 'K%d' % i, 'value': v, 'form': rnd.choice(forms)})
    for i in range(4):
        vals = []
        cur = rnd.randint(-5, 5)
        for j in range(rnd.choice([2, 3, 4])):
            vals.append(('E%d_%d' % (i, j), cur))
            cur += rnd.choice([1, 1, 2, 10])
        items.append({'kind': 'enum', 'name': 'e%d' % i, 'values': vals})
    for i in range(10):
        args = [rnd.choice(ARITH) for _ in range(rnd.randrange(0, 4))]
        items.append({'kind': 'func', 'name': 'fn%d' % i, 'args': args, 'ret': rnd.choice(ARITH),
                      'k': rnd.randint(1, 9)})
    items.append({'kind': 'vfunc', 'name': 'vsum0', 'k': rnd.randint(1, 9)})
    for i in range(6):
        items.append({'kind': 'glob', 'name': 'g%d' % i, 'type': rnd.choice(ARITH[:6] + ['double']),
                      'init': rnd.randint(1, 100), 'extern': rnd.random() < 0.5})
    for i in range(4):
        form = rnd.choice(['fixed', 'dots', 'dots', 'open'])
        d = rnd.choice([[1], [2], [5], [7], [2, 3], [3, 2], [4, 1]])
        if form == 'open':
            d = d[:1]
        items.append({'kind': 'garr', 'name': 'ga%d' % i, 'type': rnd.choice(GAT), 'dims': d,
                      'form': form, 'extern': rnd.random() < 0.5})
    items.append({'kind': 'gptr', 'name': 'gp0', 'type': rnd.choice(GAT),
                  'extern': rnd.random() < 0.5})
    for i in range(2):
        si = rnd.choice([x for x in range(NSTRUCT) if items[x]['form'] != 'ptr'])
        # the first scalar integer field is written from Python and read back by C
        fld = [fn for fn, T, n in items[si]['fields'] if tclass(T) == 'i' and not n
               and T[0] != 'char']
        items.append({'kind': 'gstruct', 'name': 'gs%d' % i, 'struct': si,
                      'field': fld[0] if fld else None, 'extern': rnd.random() < 0.5})
    for i in range(2):
        # structs with bitfields: positions are computed by cffi, the total size is the compiler's
        fields = []
        for j in range(rnd.choice([2, 3, 4, 6])):
            T = rnd.choice(BFT)
            w = rnd.choice([None, rnd.randint(1, 8 * ISIZE[T][0] - 1), rnd.randint(1, 8)])
            fields.append(('b%d' % j, T, w))
        items.append({'kind': 'bstruct', 'name': 'bf%d' % i, 'fields': fields})
    for i in range(3):
        k = rnd.choice(['double', 'float', 'string'])
        items.append({'kind': 'nconst', 'name': 'KN%d' % i, 'ctype': k,
                      'value': rnd.randint(-1000, 1000) + 0.25 if k != 'string'
                      else 'str%d' % rnd.randint(0, 99999)})
    for i in range(4):
        items.append({'kind': 'tdef', 'name': 'td%d_t' % i, 'type': rnd.choice(TDT),
                      'dots': rnd.random() < 0.5})
    return items


def c_source(items, packed=False):
    out = ['#include <stdint.h>', '#include <stddef.h>', '#include <stdarg.h>']
    if packed:
        out.append('#pragma pack(1)')
    for it in items:
        k = it['kind']
        n = it['name']
        if k == 'struct':
            out.append(render_struct(it, for_c=True))
            ct = c_tname(it)
            out.append('size_t sz_%s(void) { return sizeof(%s); }' % (n, ct))
            for fn, _, _ in it['fields']:
                out.append('size_t of_%s_%s(void) { return offsetof(%s, %s); }' % (n, fn, ct, fn))
        elif k == 'const':
            if it['form'] == 'define':
                out.append('#define %s %s' % (n, clit(it['value'])))
            else:
                out.append('static const %s %s = %s;' % (CFORM_T[it['form']], n, clit(it['value'])))
        elif k == 'enum':
            out.append('enum %s { %s };' % (n, ', '.join('%s = %d' % v for v in it['values'])))
        elif k == 'func':
            params = ', '.join('%s a%d' % (a, i) for i, a in enumerate(it['args'])) or 'void'
            terms = ['%dLL' % it['k']] + ['(%d * (long long)a%d)' % (i + 2, i)
                                          for i in range(len(it['args']))]
            body = 'long long acc = %s;' % ' + '.join(terms)
            if it['ret'] == '_Bool':
                body += ' return (acc & 1) != 0;'
            else:
                body += ' return (%s)acc;' % it['ret']
            out.append('%s %s(%s) { %s }' % (it['ret'], n, params, body))
        elif k == 'vfunc':
            out.append('long long %s(int n, ...) { va_list ap; long long s = %d; va_start(ap, n); '
                       'while (n-- > 0) s += va_arg(ap, long long); va_end(ap); return s; }'
                       % (n, it['k']))
        elif k == 'glob':
            T = it['type']
            out.append('%s %s = %d;' % (T, n, it['init']))
            out.append('%s get_%s(void) { return %s; }' % (T, n, n))
            out.append('void set_%s(%s v) { %s = v; }' % (n, T, n))
            out.append('void *addr_%s(void) { return &%s; }' % (n, n))
        elif k == 'garr':
            T = it['type'][0]
            tot = nelem(it['dims'])
            out.append('%s %s%s = { %s };' % (T, n, arr_suffix(it['dims']),
                                              ', '.join(str(j + 1) for j in range(tot))
                                              if len(it['dims']) == 1 else
                                              ', '.join('{ %s }' % ', '.join(
                                                  str(a * it['dims'][1] + b + 1)
                                                  for b in range(it['dims'][1]))
                                                  for a in range(it['dims'][0]))))
            out.append('long long get_%s(int i) { return (long long)((%s *)%s)[i]; }' % (n, T, n))
            out.append('void *addr_%s(void) { return %s; }' % (n, n))
            out.append('size_t sz_%s(void) { return sizeof(%s); }' % (n, n))
        elif k == 'gptr':
            T = it['type'][0]
            out.append('static %s tgt_%s[2] = { 11, 22 }; %s *%s = tgt_%s;' % (T, n, T, n, n))
            out.append('long long get_%s(void) { return (long long)*%s; }' % (n, n))
            out.append('void *addr_%s(void) { return &%s; }' % (n, n))
        elif k == 'gstruct':
            st = items[it['struct']]
            out.append('%s %s;' % (c_tname(st), n))
            out.append('void *addr_%s(void) { return &%s; }' % (n, n))
            if it['field']:
                out.append('long long get_%s(void) { return (long long)%s.%s; }' % (n, n, it['field']))
        elif k == 'bstruct':
            out.append('struct %s { %s };' % (n, ' '.join(
                '%s %s%s;' % (T, fn, ':%d' % w if w else '') for fn, T, w in it['fields'])))
            out.append('size_t sz_%s(void) { return sizeof(struct %s); }' % (n, n))
            for fn, T, w in it['fields']:
                out.append('long long rd_%s_%s(struct %s *p) { return (long long)p->%s; }' %
                           (n, fn, n, fn))
                out.append('void wr_%s_%s(struct %s *p, long long v) { p->%s = (%s)v; }' %
                           (n, fn, n, fn, T))
        elif k == 'nconst':
            if it['ctype'] == 'string':
                out.append('static const char *const %s = "%s";' % (n, it['value']))
            else:
                out.append('static const %s %s = %r;' % (it['ctype'], n, it['value']))
        elif k == 'tdef':
            out.append('typedef %s %s;' % (it['type'][0], n))
            out.append('size_t sz_%s(void) { return sizeof(%s); }' % (n, n))
            out.append('int sg_%s(void) { return (%s)-1 < 0; }' % (n, n))
    return '\n'.join(out) + '\n'


def cdef_text(items, mutated=None, dots=False):
    out = []
    for idx, it in enumerate(items):
        k = it['kind']
        n = it['name']
        m = (mutated or {}).get(idx)
        ext = 'extern ' if it.get('extern') else ''
        if k == 'struct':
            fields = m['fields'] if m else it['fields']
            if dots and it['form'] == 'ptr':
                # '...' needs a C name for the struct itself: declared exactly
                out.append(render_struct(it))
            else:
                out.append(render_struct(it, fields, dots=dots and bool(m),
                                         dotarr=dots and not m and it['dotarr']))
            if not mutated:
                out.append('size_t sz_%s(void);' % n)
                for fn, _, _ in it['fields']:
                    out.append('size_t of_%s_%s(void);' % (n, fn))
        elif k == 'const':
            v = m['value'] if m else it['value']
            if dots and m:
                out.append('#define %s ...' % n if it['form'] == 'define' else
                           'static const %s %s;' % (CFORM_T[it['form']], n))
            elif it['form'] == 'define':
                out.append('#define %s %d' % (n, v))
            else:
                out.append('static const %s %s = %d;' % (CFORM_T[it['form']], n, v))
        elif k == 'enum':
            vals = m['values'] if m else it['values']
            if dots and m:
                out.append('enum %s { %s, ... };' % (n, ', '.join(
                    '%s = ...' % en if (en, v) not in it['values'] else '%s = %d' % (en, v)
                    for en, v in vals)))
            else:
                out.append('enum %s { %s };' % (n, ', '.join('%s = %d' % v for v in vals)))
        elif mutated:
            continue
        elif k == 'func':
            out.append('%s %s(%s);' % (it['ret'], n, ', '.join(it['args']) or 'void'))
        elif k == 'vfunc':
            out.append('long long %s(int n, ...);' % n)
        elif k == 'glob':
            T = it['type']
            out.append('%s%s %s; %s get_%s(void); void set_%s(%s v); void *addr_%s(void);' %
                       (ext, T, n, T, n, n, T, n))
        elif k == 'garr':
            suffix = {'fixed': arr_suffix(it['dims']), 'dots': arr_suffix(it['dims'], True),
                      'open': '[]'}[it['form']]
            out.append('%s%s %s%s; long long get_%s(int i); void *addr_%s(void); size_t sz_%s(void);'
                       % (ext, it['type'][0], n, suffix, n, n, n))
        elif k == 'gptr':
            out.append('%s%s *%s; long long get_%s(void); void *addr_%s(void);' %
                       (ext, it['type'][0], n, n, n))
        elif k == 'gstruct':
            out.append('%s%s %s; void *addr_%s(void);' % (ext, c_tname(items[it['struct']]), n, n))
            if it['field']:
                out.append('long long get_%s(void);' % n)
        elif k == 'bstruct':
            out.append('struct %s { %s };' % (n, ' '.join(
                '%s %s%s;' % (T, fn, ':%d' % w if w else '') for fn, T, w in it['fields'])))
            out.append('size_t sz_%s(void);' % n)
            for fn, T, w in it['fields']:
                out.append('long long rd_%s_%s(struct %s *p); void wr_%s_%s(struct %s *p, '
                           'long long v);' % (n, fn, n, n, fn, n))
        elif k == 'nconst':
            out.append('static const char *const %s;' % n if it['ctype'] == 'string' else
                       'static const %s %s;' % (it['ctype'], n))
        elif k == 'tdef':
            if it['dots']:
                out.append('typedef %s... %s;' % ('int' if it['type'][2] is not None else 'float', n))
            else:
                out.append('typedef %s %s;' % (it['type'][0], n))
            out.append('size_t sz_%s(void); int sg_%s(void);' % (n, n))
    return '\n'.join(out) + '\n'


def in_packed(it):
    return it['kind'] == 'struct' and it['nested'] is None


def cdef_structs(items, mutated=None, helpers=False):
    out = []
    for idx, it in enumerate(items):
        if not in_packed(it):
            continue
        m = (mutated or {}).get(idx)
        out.append(render_struct(it, m['fields'] if m else it['fields']))
    text = {'text': '\n'.join(out) + '\n', 'kwds': {'packed': True}}
    if not helpers:
        return [text]
    h = []
    for it in items:
        if in_packed(it):
            h.append('size_t sz_%s(void);' % it['name'])
            for fn, _, _ in it['fields']:
                h.append('size_t of_%s_%s(void);' % (it['name'], fn))
    return [text, '\n'.join(h) + '\n']


def resized(n, delta=1):
    """the array length n with its first dimension changed"""
    d = dims(n)
    if not d:
        return 1 + delta
    d = [d[0] + delta] + d[1:]
    return d if len(d) > 1 else d[0]


def size_only_variants(it):
    """cdef field lists that change one field's own size but no offset and not the total"""
    union = is_union(it)
    f0 = it['fields']
    l0, t0 = layout(f0, union)
    res = []
    for j, (fn, T, n) in enumerate(f0):
        alts = [(t, n) for t in FT if tclass(t) == tclass(T) and t[1] != T[1]]
        alts += [(T, resized(n, 1)), (T, resized(n, 2))]
        if dims(n) and dims(n)[0] >= 2:
            alts.append((T, resized(n, -1)))
        for t, n2 in alts:
            f1 = list(f0)
            f1[j] = (fn, t, n2)
            l1, t1 = layout(f1, union)
            if t1 == t0 and all(a == b for x, (a, b) in enumerate(zip(l0, l1)) if x != j) and \
                    l1[j][1] == l0[j][1] and l1[j][2] != l0[j][2]:
                res.append(f1)
    return res


def mutate(seed, items):
    rnd = random.Random(seed ^ 0xabcdef)
    mut = {}
    for idx, it in enumerate(items):
        if rnd.random() < 0.5:
            continue
        if it['kind'] == 'struct':
            f = [list(x) for x in it['fields']]
            op = rnd.choice(['retype', 'remove', 'swap', 'resize-array', 'size-only', 'size-only',
                             'offset-only', 'total-only'])
            j = rnd.randrange(len(f))
            if op == 'total-only':
                # drop a field so that only the total size changes (the tail of a struct,
                # the largest member of a union)
                un = is_union(it)
                l0, t0 = layout(it['fields'], un)
                cand = []
                for x in range(len(f)):
                    l1, t1 = layout(it['fields'][:x] + it['fields'][x + 1:], un)
                    if len(f) > 1 and t1 != t0 and l1 == l0[:x] + l0[x + 1:]:
                        cand.append(x)
                if cand:
                    del f[rnd.choice(cand)]
                else:
                    op = 'remove'
            if op == 'size-only':
                var = size_only_variants(it)
                if var:
                    f = [list(x) for x in rnd.choice(var)]
                else:
                    op = 'retype'
            if op == 'offset-only':
                pairs = [x for x in range(len(f) - 1)
                         if f[x][1][1] * nelem(f[x][2]) == f[x + 1][1][1] * nelem(f[x + 1][2])
                         and talign(f[x][1]) == talign(f[x + 1][1])]
                if pairs and not is_union(it):
                    x = rnd.choice(pairs)
                    f[x], f[x + 1] = f[x + 1], f[x]
                else:
                    op = 'swap'
            if op == 'retype':
                # same type class only: the generated compile-time checks reject a
                # cdef integer field that is a double or a pointer in the source
                cand = [t for t in FT if t != tuple(f[j][1]) and tclass(t) == tclass(f[j][1])
                        and t[1] != f[j][1][1]]
                if cand:
                    f[j][1] = rnd.choice(cand)
                else:
                    f[j][2] = resized(f[j][2], 1)
            elif op == 'remove' and len(f) > 1:
                del f[j]
            elif op == 'swap' and len(f) > 1:
                j2 = (j + 1) % len(f)
                f[j], f[j2] = f[j2], f[j]
            elif op in ('remove', 'swap', 'resize-array'):
                op = 'resize-array'
                f[j][2] = resized(f[j][2], rnd.choice([1, 2]))
            mut[idx] = {'fields': [tuple(x) for x in f], 'op': op}
        elif it['kind'] == 'const':
            v = it['value']
            cand = [(v + 1, 'value'), (v - 1, 'value'), (-v if v else 7, 'value'),
                    (v * 2 + 1, 'value'), (v + 2 ** 32, 'value-high-bits'),
                    (v - 2 ** 32, 'value-high-bits'), (v ^ (1 << 40), 'value-high-bits')]
            if v >= 2 ** 63:
                cand += [(v - 2 ** 64, 'value-sign-only')] * 3
            if v < 0:
                cand += [(v + 2 ** 64, 'value-sign-only')] * 3
            cand = [c for c in cand if -2 ** 63 <= c[0] <= 2 ** 64 - 1 and c[0] != v]
            nv, op = rnd.choice(cand)
            mut[idx] = {'value': nv, 'op': op}
        elif it['kind'] == 'enum':
            vals = list(it['values'])
            j = rnd.randrange(len(vals))
            vals[j] = (vals[j][0], vals[j][1] + rnd.choice([1, -1, 100]))
            mut[idx] = {'values': vals, 'op': 'enumerator', 'which': j}
    return mut


# a global array whose C lvalue has no fixed address (a macro selecting a row, and a
# thread-local array): every access must ask the C side again where it is
MOVING_CDEF = ('int c12_cur[4]; int c12_which; int c12_row_get(int r, int i); void *c12_row_addr(int r);'
               ' int c12_tl[2]; void *c12_tl_addr(void);\n')
MOVING_SRC = ('static int c12_rows[3][4]; int c12_which;\n#define c12_cur (c12_rows[c12_which])\n'
              'int c12_row_get(int r, int i) { return c12_rows[r][i]; }\n'
              'void *c12_row_addr(int r) { return c12_rows[r]; }\n'
              'static __thread int c12_tl_real[2];\n#define c12_tl c12_tl_real\n'
              'void *c12_tl_addr(void) { return c12_tl_real; }\n')


def moving_globals(A, rep, detail):
    import threading
    ffi, lib = A.ffi, A.lib
    addr = lambda p: int(ffi.cast('uintptr_t', p))
    for r in (0, 2, 1, 2, 0):
        lib.c12_which = r
        rep.stat('A_moving_global_accesses')
        lib.c12_cur[1] = 100 + r
        a = addr(lib.c12_cur)
        a2 = addr(ffi.addressof(lib, 'c12_cur'))
        want = addr(lib.c12_row_addr(r))
        if lib.c12_row_get(r, 1) != 100 + r or a != want or a2 != want:
            rep.bad('global-array-address-not-refetched', 'c12_cur is a macro for c12_rows[c12_which]; '
                    'with c12_which = %d: lib.c12_cur at %#x, addressof %#x, C says %#x, C reads '
                    'row[1] = %d after lib.c12_cur[1] = %d' % (r, a, a2, want, lib.c12_row_get(r, 1),
                                                                 100 + r), detail)
            break
    seen = {}

    def other():
        seen['lib'], seen['c'] = addr(lib.c12_tl), addr(lib.c12_tl_addr())
    mine = (addr(lib.c12_tl), addr(lib.c12_tl_addr()))
    t = threading.Thread(target=other)
    t.start()
    t.join()
    rep.stat('A_thread_local_global_array_checked')
    if mine[0] != mine[1] or seen.get('lib') != seen.get('c'):
        rep.bad('global-array-address-not-refetched:thread-local', 'a __thread array: main thread '
                'lib %#x C %#x, second thread lib %#x C %#x' % (mine[0], mine[1], seen.get('lib', 0),
                                                                 seen.get('c', 0)), detail)


def specs_for(d, seed, tag):
    items = gen_source(seed)
    src = c_source(items)
    mut = mutate(seed, items)
    return items, mut, [
        {'name': '_c12a_%s' % tag, 'kind': 'api', 'cdef': cdef_text(items) + MOVING_CDEF,
         'source': src + MOVING_SRC, 'dir': d},
        {'name': '_c12m_%s' % tag, 'kind': 'api', 'cdef': cdef_text(items, mut), 'source': src,
         'dir': d},
        {'name': '_c12d_%s' % tag, 'kind': 'api', 'cdef': cdef_text(items, mut, dots=True),
         'source': src, 'dir': d},
        {'name': '_c12pa_%s' % tag, 'kind': 'api', 'cdef': cdef_structs(items, None, True),
         'source': c_source(items, packed=True), 'dir': d},
        {'name': '_c12pm_%s' % tag, 'kind': 'api', 'cdef': cdef_structs(items, mut),
         'source': c_source(items, packed=True), 'dir': d},
        {'name': '_c12pn_%s' % tag, 'kind': 'api', 'cdef': cdef_structs(items, None),
         'source': src, 'dir': d}]


def generate(ctx):
    rng = ctx.rng('gen')
    n = ctx.scale(6, 100)
    d = os.path.join(ctx.tmp, 'mods')
    cases, specs = [], []
    for i in range(n):
        seed = rng.getrandbits(40)
        items, mut, sp = specs_for(d, seed, str(i))
        specs += sp
        cases.append({'seed': seed, 'tag': str(i)})
    res = modbuild.build_modules(ctx, specs)
    for s in specs:
        if not res[s['name']]['ok']:
            raise core.Inconclusive('module %s failed to build: %s %s' % (
                s['name'], res[s['name']]['error'][-600:], res[s['name']].get('log', '')[-800:]))
    return {'dir': d}, cases


def child_setup(setup, wd):
    sys.path.insert(0, setup['dir'])
    return {'dir': setup['dir']}


ISIZE = {'int': (4, 1), 'unsigned int': (4, 0), 'short': (2, 1), 'long': (8, 1),
         'unsigned long long': (8, 0), 'signed char': (1, 1), 'uint16_t': (2, 0),
         'unsigned char': (1, 0), 'long long': (8, 1), 'char': (1, 1), 'int8_t': (1, 1),
         'int64_t': (8, 1), 'unsigned short': (2, 0)}


def cconv(T, acc):
    """C conversion of a 64-bit wrapped accumulator to T"""
    acc = (acc + 2 ** 63) % 2 ** 64 - 2 ** 63
    if T == '_Bool':
        return bool(acc & 1)
    if T == 'double':
        return float(acc)
    if T == 'float':
        return struct.unpack('<f', struct.pack('<f', float(acc)))[0]
    size, signed = ISIZE[T]
    v = acc & ((1 << (8 * size)) - 1)
    if signed and v >= 1 << (8 * size - 1):
        v -= 1 << (8 * size)
    return v


def argval(rnd, T):
    if T == '_Bool':
        return rnd.choice([True, False])
    if T in ('double', 'float'):
        return float(rnd.randint(-1000, 1000))
    size, signed = ISIZE[T]
    lo, hi = (-(1 << (8 * size - 1)), (1 << (8 * size - 1)) - 1) if signed else (0, (1 << 8 * size) - 1)
    return rnd.choice([lo, hi, 0, 1, rnd.randint(lo, hi)])


ENTRIES = ['new', 'new-array', 'offsetof', 'alignof', 'fields', 'getattr', 'addressof-field',
           'deref', 'dir', 'new-init']
_FIRST_VISIT = set()


def child_case(st, case):
    import importlib
    rep = core.ChildRep()
    items, mut, sp = specs_for(st['dir'], case['seed'], case['tag'])
    rnd = random.Random(case['seed'] + 1)
    A = importlib.import_module(sp[0]['name'])
    M = importlib.import_module(sp[1]['name'])
    D = importlib.import_module(sp[2]['name'])
    PA = importlib.import_module(sp[3]['name'])
    PM = importlib.import_module(sp[4]['name'])
    PN = importlib.import_module(sp[5]['name'])
    first_visit = sp[0]['name'] not in _FIRST_VISIT
    _FIRST_VISIT.add(sp[0]['name'])
    try:
        moving_globals(A, rep, [case['seed'], case['tag'], 'moving-globals'])
    except Exception as e:
        rep.bad('agreement-raised:moving-global:%s' % type(e).__name__, str(e)[:200],
                [case['seed'], case['tag'], 'moving-globals'])
    errs = (A.ffi.error,)
    try:
        from cffi import VerificationError
        errs = errs + (VerificationError,)
    except ImportError:
        pass

    def ctype_of(mod, it):
        if it['form'] == 'ptr':
            return mod.ffi.typeof(it['name'] + '_p').item
        return mod.ffi.typeof(c_tname(it))

    def ptr_of(mod, it):
        if it['form'] == 'ptr':
            return mod.ffi.typeof(it['name'] + '_p')
        return mod.ffi.typeof(c_tname(it) + ' *')

    def use_struct(mod, it, fields):
        ct = ctype_of(mod, it)
        size = mod.ffi.sizeof(ct)
        p = mod.ffi.new(ptr_of(mod, it))
        offs = [(fn, mod.ffi.offsetof(ct, fn)) for fn, _, _ in fields]
        return size, offs

    def use_entry(mod, it, fields, e):
        """touch the aggregate through one API entry point that needs its fields"""
        ffi = mod.ffi
        ct, pt = ctype_of(mod, it), ptr_of(mod, it)
        if e == 'new-array' and it['form'] == 'ptr':
            e = 'new'
        if e == 'new':
            return repr(ffi.new(pt))
        if e == 'new-init':
            return repr(ffi.new(pt, {}))
        if e == 'new-array':
            # allocating the array only needs the size (the compiler's, like sizeof);
            # reading an item needs the fields
            arr = ffi.new(c_tname(it) + '[2]')
            if ffi.sizeof(arr) != 2 * compiler_layout(it)[0]:
                return 'array of %d bytes' % ffi.sizeof(arr)
            return repr(arr[1])
        if e == 'offsetof':
            return ffi.offsetof(ct, fields[-1][0])
        if e == 'alignof':
            return ffi.alignof(ct)
        if e == 'fields':
            return [(n, f.offset) for n, f in ct.fields]
        buf = ffi.new('char[]', 8192)
        p = ffi.cast(pt, buf)
        if e == 'getattr':
            return repr(getattr(p, fields[0][0]))
        if e == 'addressof-field':
            return repr(ffi.addressof(p, fields[-1][0]))
        if e == 'deref':
            return repr(p[0])
        if e == 'dir':
            return dir(p)
        raise ValueError(e)

    def attempt_entry(mod, it, fields, e):
        try:
            return ('ok', use_entry(mod, it, fields, e))
        except errs as ex:
            return ('err', type(ex).__name__, str(ex)[:160])
        except Exception as ex:
            return ('other', type(ex).__name__, str(ex)[:160])

    def compiler_layout(it):
        csz = getattr(A.lib, 'sz_' + it['name'])()
        real = dict((fn, getattr(A.lib, 'of_%s_%s' % (it['name'], fn))()) for fn, _, _ in it['fields'])
        return csz, real

    def struct_differs(it, fields):
        l0, t0 = layout(it['fields'], is_union(it))
        l1, t1 = layout(fields, is_union(it))
        orig = dict((n, (o, s)) for n, o, s in l0)
        if t0 != t1 or any(orig.get(n) != (o, s) for n, o, s in l1):
            return True
        if max(talign(T) for _, T, _ in it['fields']) != max(talign(T) for _, T, _ in fields):
            # only the total alignment differs: cffi reports that too, the property
            # neither demands nor forbids it
            return None
        return False

    def inner_state(it):
        """(mutation of the nested aggregate or None, does it really differ)"""
        if it['nested'] is None:
            return None, False
        im = mut.get(it['nested'])
        if im is None:
            return None, False
        return im, struct_differs(items[it['nested']], im['fields'])

    exposed = set()
    for idx, it in enumerate(items):
        k = it['kind']
        detail = [case['seed'], case['tag'], idx]
        # ---------------- module A: agreement ----------------
        try:
            if k == 'struct':
                decl0 = render_struct(it)
                lay, total = layout(it['fields'], is_union(it))
                size, offs = use_struct(A, it, it['fields'])
                csz = getattr(A.lib, 'sz_' + it['name'])()
                coffs = [(fn, getattr(A.lib, 'of_%s_%s' % (it['name'], fn))()) for fn, _, _ in it['fields']]
                rep.case(('A', decl0), nontrivial=len(it['fields']) >= 2,
                         sample={'module': 'A', 'decl': decl0})
                if size != csz or offs != coffs:
                    rep.bad('layout-differs-from-compiler', '%s: ffi size %d offsets %r, compiler '
                            '%d %r' % (it['name'], size, offs, csz, coffs), detail)
                if total != csz or [(n, o) for n, o, s in lay] != coffs:
                    rep.bad('harness-layout-model', 'model layout differs from the compiler for %s'
                            % decl0, detail)
                prim = set(fn for fn, T, n in it['fields'] if tuple(T) in FT)
                ftypes = [(n, f.type.cname) for n, f in ctype_of(A, it).fields if n in prim]
                exp = [(fn, T[0] + arr_suffix(n)) for fn, T, n in it['fields'] if fn in prim]
                norm = lambda l: [(a, b.replace(' ', '')) for a, b in l]
                if norm(ftypes) != norm(exp):
                    rep.bad('field-types-differ-from-declaration', '%s: field types %r' %
                            (decl0, ftypes), detail)
                rep.stat('A_structs')
                rep.stat('A_form_' + it['form'])
                if it['nested'] is not None:
                    rep.stat('A_structs_with_nested_aggregate')
                exposed.update(['sz_' + it['name']] + ['of_%s_%s' % (it['name'], fn)
                                                       for fn, _, _ in it['fields']])
            elif k == 'const':
                rep.case(('A', k, it['name'], it['value'], it['form']))
                if getattr(A.lib, it['name']) != it['value'] or \
                        A.ffi.integer_const(it['name']) != it['value']:
                    rep.bad('constant-value', '%s = %r, source says %d' %
                            (it['name'], getattr(A.lib, it['name']), it['value']), detail)
                if 0 < it['value'] < 2 ** 24:
                    sz = A.ffi.sizeof('char[%s]' % it['name'])
                    sz2 = A.ffi.sizeof(A.ffi.typeof('short(*)[%s]' % it['name']).item)
                    rep.stat('A_constants_as_array_length')
                    if sz != it['value'] or sz2 != 2 * it['value']:
                        rep.bad('constant-as-array-length', 'sizeof(char[%s]) = %r, sizeof(short'
                                '[%s]) = %r, source says %s = %d' % (it['name'], sz, it['name'],
                                                                     sz2, it['name'], it['value']),
                                detail)
                rep.stat('A_constants')
                rep.stat('A_constants_' + it['form'])
                if not -2 ** 31 <= it['value'] < 2 ** 31:
                    rep.stat('A_constants_beyond_int')
                if not -2 ** 63 <= it['value'] < 2 ** 63:
                    rep.stat('A_constants_beyond_long_long')
                exposed.add(it['name'])
            elif k == 'enum':
                rep.case(('A', k, it['name'], tuple(it['values'])))
                for n, v in it['values']:
                    if getattr(A.lib, n) != v:
                        rep.bad('enumerator-value', '%s = %r, source says %d' %
                                (n, getattr(A.lib, n), v), detail)
                    exposed.add(n)
                rep.stat('A_enums')
            elif k == 'func':
                f = getattr(A.lib, it['name'])
                for _ in range(6):
                    args = [argval(rnd, a) for a in it['args']]
                    acc = it['k'] + sum((i + 2) * int(a) for i, a in enumerate(args))
                    exp = cconv(it['ret'], acc)
                    got = f(*args)
                    rep.case(('A', k, it['name'], tuple(args)),
                             sample={'module': 'A', 'call': '%s%r' % (it['name'], tuple(args))})
                    if got != exp or type(got) is not type(exp):
                        rep.bad('function-result', '%s %s(%s)%r returned %r, the C body gives %r' %
                                (it['ret'], it['name'], ', '.join(it['args']), tuple(args), got, exp),
                                detail)
                rep.stat('A_function_calls', 6)
                exposed.add(it['name'])
            elif k == 'vfunc':
                f = getattr(A.lib, it['name'])
                for cnt in (0, 1, 3, 7):
                    vals = [rnd.choice([0, -1, 2 ** 40, rnd.randint(-2 ** 62, 2 ** 62)])
                            for _ in range(cnt)]
                    exp = cconv('long', it['k'] + sum(vals))
                    got = f(cnt, *[A.ffi.cast('long long', v) for v in vals])
                    rep.case(('A', k, it['name'], tuple(vals)))
                    if got != exp:
                        rep.bad('function-result', 'variadic %s(%d, %r) returned %r, the C body '
                                'gives %r' % (it['name'], cnt, vals, got, exp), detail)
                rep.stat('A_variadic_function_calls', 4)
                exposed.add(it['name'])
            elif k == 'glob':
                n, T = it['name'], it['type']
                rep.case(('A', k, n, T))
                if first_visit:
                    rep.stat('A_globals_initial_value')
                    v0 = getattr(A.lib, n)
                    if v0 != it['init'] or type(v0) is not type(cconv(T, it['init'])):
                        rep.bad('global-read-differs-from-c', '%s %s = %d in the source, first '
                                'read through lib gives %r' % (T, n, it['init'], v0), detail)
                v = argval(rnd, T)
                setattr(A.lib, n, v)
                cv = getattr(A.lib, 'get_' + n)()
                if cv != v:
                    rep.bad('global-write-not-seen-by-c', '%s %s = %r through lib, C reads %r' %
                            (T, n, v, cv), detail)
                v2 = argval(rnd, T)
                getattr(A.lib, 'set_' + n)(v2)
                if getattr(A.lib, n) != v2:
                    rep.bad('global-read-differs-from-c', '%s %s set to %r by C, lib reads %r' %
                            (T, n, v2, getattr(A.lib, n)), detail)
                a1 = int(A.ffi.cast('uintptr_t', A.ffi.addressof(A.lib, n)))
                a2 = int(A.ffi.cast('uintptr_t', getattr(A.lib, 'addr_' + n)()))
                if a1 != a2:
                    rep.bad('global-address', '&%s: ffi %#x, C %#x' % (n, a1, a2), detail)
                rep.stat('A_globals')
                exposed.update([n, 'get_' + n, 'set_' + n, 'addr_' + n])
            elif k == 'garr':
                n, (T, tsz), dd = it['name'], it['type'], it['dims']
                rep.case(('A', k, n, T, tuple(dd), it['form']))
                rep.stat('A_global_arrays_' + it['form'] + ('_2d' if len(dd) > 1 else ''))
                x = getattr(A.lib, n)
                tn = A.ffi.typeof(x).cname
                exp_tn = T + (' *' if it['form'] == 'open' else arr_suffix(dd))
                if tn.replace(' ', '') != exp_tn.replace(' ', ''):
                    rep.bad('global-array-type', 'lib.%s (%s, source %s%s) has type %s' %
                            (n, it['form'], T, arr_suffix(dd), tn), detail)
                a1 = int(A.ffi.cast('uintptr_t', x))
                a2 = int(A.ffi.cast('uintptr_t', getattr(A.lib, 'addr_' + n)()))
                if a1 != a2:
                    rep.bad('global-address', '%s: ffi %#x, C %#x' % (n, a1, a2), detail)
                if it['form'] != 'open':
                    a3 = int(A.ffi.cast('uintptr_t', A.ffi.addressof(A.lib, n)))
                    csz = getattr(A.lib, 'sz_' + n)()
                    if a3 != a2 or A.ffi.sizeof(x) != csz or len(x) != dd[0]:
                        rep.bad('global-array-size', '%s: addressof %#x (C %#x), sizeof %r (C %d), '
                                'len %r (C %d)' % (n, a3, a2, A.ffi.sizeof(x), csz, len(x), dd[0]),
                                detail)
                flat = A.ffi.cast(T + ' *', x)
                for i in range(nelem(dd)):
                    el = x[i // dd[1]][i % dd[1]] if len(dd) > 1 else x[i]
                    if first_visit and el != i + 1:
                        rep.bad('global-read-differs-from-c', '%s element %d is %d in the source, '
                                'lib reads %r' % (n, i, i + 1, el), detail)
                    v = argval(rnd, T)
                    if len(dd) > 1:
                        x[i // dd[1]][i % dd[1]] = v
                    else:
                        x[i] = v
                    cv = getattr(A.lib, 'get_' + n)(i)
                    if cv != v or flat[i] != v:
                        rep.bad('global-write-not-seen-by-c', '%s element %d = %r through lib, C '
                                'reads %r' % (n, i, v, cv), detail)
                exposed.update([n, 'get_' + n, 'addr_' + n, 'sz_' + n])
            elif k == 'gptr':
                n, (T, tsz) = it['name'], it['type']
                rep.case(('A', k, n, T))
                rep.stat('A_global_pointers')
                p = getattr(A.lib, n)
                if first_visit and (p[0] != 11 or getattr(A.lib, 'get_' + n)() != 11):
                    rep.bad('global-read-differs-from-c', '%s *%s points to 11, lib reads %r' %
                            (T, n, p[0]), detail)
                base = p if first_visit else p - 1
                setattr(A.lib, n, base + 1)
                cv = getattr(A.lib, 'get_' + n)()
                if cv != 22 or getattr(A.lib, n) != base + 1:
                    rep.bad('global-write-not-seen-by-c', '%s advanced through lib, C reads %r' %
                            (n, cv), detail)
                a1 = int(A.ffi.cast('uintptr_t', A.ffi.addressof(A.lib, n)))
                a2 = int(A.ffi.cast('uintptr_t', getattr(A.lib, 'addr_' + n)()))
                if a1 != a2:
                    rep.bad('global-address', '&%s: ffi %#x, C %#x' % (n, a1, a2), detail)
                exposed.update([n, 'get_' + n, 'addr_' + n])
            elif k == 'gstruct':
                n, sit = it['name'], items[it['struct']]
                rep.case(('A', k, n, render_struct(sit)))
                rep.stat('A_global_structs')
                x = getattr(A.lib, n)
                a1 = int(A.ffi.cast('uintptr_t', A.ffi.addressof(A.lib, n)))
                a0 = int(A.ffi.cast('uintptr_t', A.ffi.addressof(x)))
                a2 = int(A.ffi.cast('uintptr_t', getattr(A.lib, 'addr_' + n)()))
                if a1 != a2 or a0 != a2 or A.ffi.typeof(x) is not ctype_of(A, sit):
                    rep.bad('global-address', '&%s: ffi %#x / %#x, C %#x; type %s' %
                            (n, a1, a0, a2, A.ffi.typeof(x)), detail)
                if it['field']:
                    T = [t for fn, t, _ in sit['fields'] if fn == it['field']][0][0]
                    v = argval(rnd, T)
                    setattr(x, it['field'], v)
                    cv = getattr(A.lib, 'get_' + n)()
                    if cv != v:
                        rep.bad('global-write-not-seen-by-c', '%s.%s = %r through lib, C reads %r'
                                % (n, it['field'], v, cv), detail)
                    # whole-struct assignment through lib
                    v2 = argval(rnd, T)
                    tmp = A.ffi.new(ptr_of(A, sit))
                    setattr(tmp, it['field'], v2)
                    setattr(A.lib, n, tmp[0])
                    cv = getattr(A.lib, 'get_' + n)()
                    if cv != v2 or getattr(getattr(A.lib, n), it['field']) != v2:
                        rep.bad('global-write-not-seen-by-c', '%s = <struct with %s = %r> through '
                                'lib, C reads %r' % (n, it['field'], v2, cv), detail)
                    exposed.add('get_' + n)
                exposed.update([n, 'addr_' + n])
            elif k == 'bstruct':
                n = it['name']
                decl0 = 'struct %s { %s };' % (n, ' '.join(
                    '%s %s%s;' % (T, fn, ':%d' % w if w else '') for fn, T, w in it['fields']))
                rep.case(('A', decl0), sample={'module': 'A', 'decl': decl0})
                rep.stat('A_structs_with_bitfields')
                p = A.ffi.new('struct %s *' % n)
                csz = getattr(A.lib, 'sz_' + n)()
                if A.ffi.sizeof('struct ' + n) != csz or A.ffi.sizeof(p[0]) != csz:
                    rep.bad('layout-differs-from-compiler', '%s: ffi size %d, compiler %d' %
                            (decl0, A.ffi.sizeof('struct ' + n), csz), detail)
                last = {}

                def frange(T, w):
                    bits = w or 8 * ISIZE[T][0]
                    if ISIZE[T][1]:
                        return -(1 << (bits - 1)), (1 << (bits - 1)) - 1
                    return 0, min((1 << bits) - 1, 2 ** 63 - 1)
                for rnd_ in range(3):
                    for fn, T, w in it['fields']:
                        lo, hi = frange(T, w)
                        v = rnd.choice([lo, hi, rnd.randint(lo, hi)])
                        if rnd.random() < 0.5:
                            setattr(p, fn, v)
                        else:
                            getattr(A.lib, 'wr_%s_%s' % (n, fn))(p, v)
                        last[fn] = v
                        rep.stat('A_bitfield_accesses' if w else 'A_plain_field_accesses_next_to_bitfields')
                        # every field, through both sides, still holds its last value
                        for f2, v2 in last.items():
                            got_py = getattr(p, f2)
                            got_c = getattr(A.lib, 'rd_%s_%s' % (n, f2))(p)
                            if got_py != v2 or got_c != v2:
                                rep.bad('bitfield-struct-differs-from-compiler', '%s: after '
                                        'writing %s = %d: %s reads %r through cffi, %r through C, '
                                        'expected %d' % (decl0, fn, v, f2, got_py, got_c, v2),
                                        detail)
                exposed.add('sz_' + n)
                exposed.update('rd_%s_%s' % (n, fn) for fn, T, w in it['fields'])
                exposed.update('wr_%s_%s' % (n, fn) for fn, T, w in it['fields'])
            elif k == 'nconst':
                rep.case(('A', k, it['name'], it['ctype']))
                rep.stat('A_non_integer_constants')
                got = getattr(A.lib, it['name'])
                if it['ctype'] == 'string':
                    got = A.ffi.string(got).decode()
                if got != it['value']:
                    rep.bad('constant-value', '%s %s = %r, source says %r' %
                            (it['ctype'], it['name'], got, it['value']), detail)
                exposed.add(it['name'])
            elif k == 'tdef':
                n, (T, tsz, tsg) = it['name'], it['type']
                rep.case(('A', k, n, T, it['dots']))
                rep.stat('A_typedefs_dotdotdot' if it['dots'] else 'A_typedefs_exact')
                csz = getattr(A.lib, 'sz_' + n)()
                csg = getattr(A.lib, 'sg_' + n)()
                sz = A.ffi.sizeof(n)
                if tsg is None:
                    same = A.ffi.typeof(n) is A.ffi.typeof(T)
                    sg = csg
                else:
                    sg = int(int(A.ffi.cast(n, -1)) < 0)
                    same = A.ffi.typeof(n) is A.ffi.typeof(T) or \
                        (it['dots'] and A.ffi.typeof(n).kind == 'primitive')
                if sz != csz or sg != csg or not same or csz != tsz:
                    rep.bad('typedef-differs-from-compiler', 'typedef %s%s %s: ffi says %s, size '
                            '%d, signed %d; the compiler size %d, signed %d' %
                            (T, '...' if it['dots'] else '', n, A.ffi.typeof(n), sz, sg, csz, csg),
                            detail)
                exposed.update(['sz_' + n, 'sg_' + n])
        except Exception as e:
            rep.bad('agreement-raised:%s:%s' % (k, type(e).__name__), '%s %s in the agreeing '
                    'module raised %s: %s' % (k, it['name'], type(e).__name__, str(e)[:200]), detail)
        # ---------------- packed modules ----------------
        if k == 'struct' and in_packed(it):
            un = is_union(it)
            pl0, pt0 = packed_layout(it['fields'], un)
            nl0, nt0 = layout(it['fields'], un)
            decl0 = render_struct(it)
            try:
                size, offs = use_struct(PA, it, it['fields'])
                csz = getattr(PA.lib, 'sz_' + it['name'])()
                coffs = [(fn, getattr(PA.lib, 'of_%s_%s' % (it['name'], fn))())
                         for fn, _, _ in it['fields']]
                rep.case(('PA', decl0), nontrivial=len(it['fields']) >= 2,
                         sample={'module': 'PA (packed)', 'decl': decl0})
                rep.stat('PA_structs')
                if size != csz or offs != coffs:
                    rep.bad('packed-layout-differs-from-compiler', '%s: ffi size %d offsets %r, '
                            'compiler %d %r' % (it['name'], size, offs, csz, coffs), detail)
                if pt0 != csz or [(n, o) for n, o, s_ in pl0] != coffs:
                    rep.bad('harness-layout-model', 'packed model differs from the compiler for '
                            + decl0, detail)
            except Exception as e:
                rep.bad('agreement-raised:packed-struct:%s' % type(e).__name__, '%s in the '
                        'agreeing packed module raised %s: %s' % (decl0, type(e).__name__,
                                                                  str(e)[:200]), detail)

            def pattempt(mod, fields):
                try:
                    return ('ok', use_struct(mod, it, fields))
                except errs as e:
                    return ('err', type(e).__name__, str(e)[:160])
                except Exception as e:
                    return ('other', type(e).__name__, str(e)[:160])
            # cdef(packed=True) over an unpacked source
            rN = pattempt(PN, it['fields'])
            # cffi also compares the total alignment (1 when packed), except for a struct
            # only known through a pointer typedef (its alignment is not measured)
            ndiff = nt0 != pt0 or nl0 != pl0 or \
                (it['form'] != 'ptr' and any(talign(T) > 1 for _, T, n in it['fields']))
            rep.case(('PN', decl0), nontrivial=len(it['fields']) >= 2)
            rep.stat('PN_structs_with_padding' if ndiff else 'PN_structs_without_padding')
            if ndiff and rN[0] == 'ok':
                rep.bad('mismatch-not-detected:packed-cdef-unpacked-source', 'cdef(packed=True) %s '
                        'but the source is not packed (natural size %d, packed %d): using it gave '
                        '%r' % (decl0, nt0, pt0, rN[1]), detail)
            elif ndiff and rN[0] == 'other':
                rep.bad('mismatch-wrong-exception:packed-struct', '%s: %r' % (decl0, rN), detail)
            elif not ndiff and rN[0] != 'ok':
                rep.bad('harmless-packed-raised', '%s has no padding but cdef(packed=True) raised '
                        '%r' % (decl0, rN), detail)
            # packed source, packed mutated cdef
            pm = mut.get(idx)
            if pm is not None:
                pl1, pt1 = packed_layout(pm['fields'], un)
                orig = dict((n, (o, s_)) for n, o, s_ in pl0)
                pdiff = pt0 != pt1 or any(orig.get(n) != (o, s_) for n, o, s_ in pl1)
                decl1 = render_struct(it, pm['fields'])
                rP = pattempt(PM, pm['fields'])
                rep.case(('PM', decl1), sample={'module': 'PM (packed)', 'mutation': pm['op'],
                                                'decl': decl1})
                rep.stat('PM_mutated_' + pm['op'])
                if pdiff and rP[0] == 'ok':
                    rep.bad('mismatch-not-detected:packed-struct:' + pm['op'], 'packed cdef %s '
                            'disagrees with the packed C source %s but using it gave %r' %
                            (decl1, decl0, rP[1]), detail)
                elif pdiff and rP[0] == 'other':
                    rep.bad('mismatch-wrong-exception:packed-struct', '%s: %r' % (decl1, rP), detail)
                elif not pdiff and rP[0] != 'ok':
                    rep.bad('harmless-mutation-raised:packed-struct', '%s has the same packed '
                            'layout but raised %r' % (decl1, rP), detail)
                elif pdiff:
                    rep.stat('PM_mismatches_detected')
            else:
                rP = pattempt(PM, it['fields'])
                rep.stat('PM_unmutated_neighbours')
                if rP[0] != 'ok':
                    rep.bad('unmutated-item-raised:packed-struct', '%s is not mutated but using it '
                            'in the mutated packed module raised %r' % (decl0, rP), detail)
        # ---------------- modules M and D ----------------
        if k not in ('struct', 'const', 'enum'):
            continue
        m = mut.get(idx)
        im, idiff = inner_state(it) if k == 'struct' else (None, False)

        def attempt(mod):
            try:
                if k == 'struct':
                    return ('ok', use_struct(mod, it, m['fields'] if m else it['fields']))
                if k == 'const':
                    return ('ok', getattr(mod.lib, it['name']))
                vals = m['values'] if m else it['values']
                return ('ok', [getattr(mod.lib, n) for n, v in vals])
            except errs as e:
                return ('err', type(e).__name__, str(e)[:160])
            except Exception as e:
                return ('other', type(e).__name__, str(e)[:160])

        def from_compiler(r, fields):
            size, offs = r
            csz, real = compiler_layout(it)
            return size == csz and not [1 for fn, o in offs if fn in real and real[fn] != o]

        def judge_outer_of_mismatching(r, what):
            # embeds a really mismatching aggregate: an error is fine; success must
            # show the compiler's layout
            rep.stat(what + '_outer_of_mismatching_inner')
            if r[0] == 'other':
                rep.bad('mismatch-wrong-exception:struct', '%s: %r' % (render_struct(it), r), detail)
            elif r[0] == 'ok' and not from_compiler(r[1], it['fields']):
                rep.bad('layout-differs-from-compiler', '%s embeds the mismatching %s; using it '
                        'gave %r' % (render_struct(it), items[it['nested']]['name'], r[1]), detail)
            elif r[0] == 'err':
                rep.stat(what + '_outer_of_mismatching_inner_raised')
        if m is None:
            rM = attempt(M)
            rep.case(('M-neighbour', k, it['name']))
            rep.stat('M_unmutated_neighbours')
            if idiff:
                judge_outer_of_mismatching(rM, 'M')
            elif rM[0] != 'ok':
                rep.bad('unmutated-item-raised:' + k, '%s %s is not mutated but using it in the '
                        'mutated module raised %r' % (k, it['name'], rM), detail)
            # module D: the exact declaration next to '...' ones; arrays may be '[...]'
            if k == 'struct':
                dotarr = it['dotarr'] and it['form'] != 'ptr' and \
                    any(n for _, _, n in it['fields'])
                inner_unjudged = im is not None and im['op'] in FIELD_SIZE_OPS
                if inner_unjudged:
                    rep.stat('D_skipped_field_size_mutations')
                    continue
                rD = attempt(D)
                rep.case(('D-neighbour', render_struct(it, dotarr=dotarr)))
                rep.stat('D_structs_with_dotdotdot_array_lengths' if dotarr else
                         'D_unmutated_neighbours')
                if rD[0] != 'ok':
                    rep.bad("dotdotdot-raised:struct" if dotarr else 'unmutated-item-raised:struct',
                            "%s in the '...' module raised %r" % (render_struct(it, dotarr=dotarr),
                                                                  rD), detail)
                else:
                    prim = set(fn for fn, T, n in it['fields'] if tuple(T) in FT)
                    ftypes = [(n, f.type.cname.replace(' ', '')) for n, f in ctype_of(D, it).fields
                              if n in prim]
                    exp = [(fn, (T[0] + arr_suffix(n)).replace(' ', '')) for fn, T, n in it['fields']
                           if fn in prim]
                    if not from_compiler(rD[1], it['fields']) or ftypes != exp:
                        rep.bad('dotdotdot-layout-not-from-compiler', "%s: size/offsets %r, field "
                                'types %r, the source declares %r' %
                                (render_struct(it, dotarr=dotarr), rD[1], ftypes, exp), detail)
                    if dotarr and any(len(dims(n)) > 1 for _, _, n in it['fields']):
                        rep.stat('D_structs_with_2d_dotdotdot_array_lengths')
            continue
        if k == 'struct':
            differs = struct_differs(it, m['fields'])
            decl = render_struct(it, m['fields'])
        elif k == 'const':
            differs = m['value'] != it['value']
            decl = '%s=%d (source %d)' % (it['name'], m['value'], it['value'])
        else:
            differs = True
            decl = '%s %r (source %r)' % (it['name'], m['values'], it['values'])
        rep.stat('M_mutated_' + m['op'])
        if k == 'struct':
            rep.stat('M_mutated_form_' + it['form'])
        if k == 'struct' and differs:
            # first touch through a random entry point, then another one, then the usual
            e1, e2 = rnd.sample(ENTRIES, 2)
            rep.case(('M', k, decl, e1), sample={'module': 'M', 'mutation': m['op'], 'decl': decl,
                                                 'entry': e1})
            r1 = attempt_entry(M, it, m['fields'], e1)
            rep.stat('M_first_entry_' + e1)
            if r1[0] == 'ok':
                rep.bad('mismatch-not-detected:%s:%s' % (k, m['op']), 'cdef %s disagrees with the '
                        'C source %s but %s on it gave %r' % (decl, render_struct(it), e1, r1[1]),
                        detail)
            elif r1[0] == 'other':
                rep.bad('mismatch-wrong-exception:' + k, '%s: %s: %r' % (decl, e1, r1), detail)
            r2 = attempt_entry(M, it, m['fields'], e2)
            rM = attempt(M)
            rep.stat('M_reuse_after_error')
            if r1[0] == 'err' and (r2[0] == 'ok' or rM[0] == 'ok'):
                rep.bad('mismatch-not-detected-on-reuse:' + k, 'cdef %s disagrees with the C source'
                        ' %s; %s raised %r, but afterwards %s gave %r and new+offsetof %r' %
                        (decl, render_struct(it), e1, r1[1:], e2, r2, rM), detail)
            elif r2[0] == 'other' or rM[0] == 'other':
                rep.bad('mismatch-wrong-exception:' + k, '%s: %s: %r, then %r' % (decl, e2, r2, rM),
                        detail)
            try:
                sz = M.ffi.sizeof(ctype_of(M, it))
                if sz != compiler_layout(it)[0]:
                    rep.bad('mismatch-not-detected:%s:sizeof' % k, 'cdef %s disagrees with the C '
                            'source; sizeof gave %r, not the compiler\'s %d' %
                            (decl, sz, compiler_layout(it)[0]), detail)
            except errs:
                pass
            if r1[0] == 'err' and r2[0] == 'err' and rM[0] == 'err':
                rep.stat('M_mismatches_detected')
        else:
            rM = attempt(M)
            rep.case(('M', k, decl), sample={'module': 'M', 'mutation': m['op'], 'decl': decl})
            if k == 'struct' and idiff:
                judge_outer_of_mismatching(rM, 'M')
            elif differs is None:
                rep.stat('M_alignment_only_mutations_not_judged')
                if rM[0] == 'other':
                    rep.bad('mismatch-wrong-exception:' + k, '%s: %r' % (decl, rM), detail)
            elif differs and rM[0] == 'ok':
                rep.bad('mismatch-not-detected:%s:%s' % (k, m['op']), 'cdef %s disagrees with the C '
                        'source but using it gave %r' % (decl, rM[1]), detail)
            elif differs and rM[0] == 'other':
                rep.bad('mismatch-wrong-exception:' + k, '%s: %r' % (decl, rM), detail)
            elif not differs and rM[0] != 'ok':
                rep.bad('harmless-mutation-raised:' + k, '%s has the same layout but raised %r' %
                        (decl, rM), detail)
            elif differs:
                rep.stat('M_mismatches_detected')
            else:
                rep.stat('M_harmless_mutations')
        if k == 'const' and differs:
            # the other ways of reading the constant, and reading it again
            rs = []
            for how in ('integer_const', 'getattr', 'integer_const'):
                try:
                    rs.append(('ok', M.ffi.integer_const(it['name']) if how == 'integer_const'
                               else getattr(M.lib, it['name'])))
                except errs as e:
                    rs.append(('err',))
                except Exception as e:
                    rs.append(('other', type(e).__name__, str(e)[:160]))
            rep.stat('M_constants_reread')
            if any(r[0] == 'ok' for r in rs) and rM[0] == 'err':
                rep.bad('mismatch-not-detected-on-reuse:const', 'cdef %s disagrees with the C '
                        'source; lib.%s raised, then integer_const / lib.%s / integer_const gave %r'
                        % (decl, it['name'], it['name'], rs), detail)
            elif any(r[0] == 'other' for r in rs):
                rep.bad('mismatch-wrong-exception:const', '%s: %r' % (decl, rs), detail)
        if k == 'const' and differs and 0 < m['value'] < 2 ** 24 and 0 < it['value'] < 2 ** 24:
            # the mismatching constant used as an array length inside a type string
            for ts in ('char[%s]', 'int(*)[%s]', 'void(*)(short[2][%s])'):
                ts = ts % it['name']
                rep.stat('M_constants_as_array_length')
                try:
                    r = ('ok', repr(M.ffi.typeof(ts)))
                except errs as e:
                    r = ('err',)
                except Exception as e:
                    r = ('other', type(e).__name__, str(e)[:160])
                if r[0] == 'ok':
                    rep.bad('mismatch-not-detected:const:as-array-length', 'cdef %s disagrees '
                            'with the C source but typeof(%r) gave %s' % (decl, ts, r[1]), detail)
                elif r[0] == 'other':
                    rep.bad('mismatch-wrong-exception:const', 'typeof(%r): %r' % (ts, r), detail)
        # with '...': silently the compiler's layout / value.  A field whose *own*
        # declared size is wrong (retyped / resized array) is still reported by cffi
        # in a partial struct ('...' only frees offsets and total size): not judged.
        if k == 'struct' and (m['op'] in FIELD_SIZE_OPS or
                              (im is not None and im['op'] in FIELD_SIZE_OPS)):
            rep.stat('D_skipped_field_size_mutations')
            continue
        if k == 'struct' and it['form'] == 'ptr':
            rep.stat('D_skipped_pointer_typedef_only')
            continue
        rD = attempt(D)
        rep.case(('D', k, decl))
        rep.stat('D_dotdotdot_items')
        if rD[0] != 'ok':
            rep.bad('dotdotdot-raised:' + k, "%s declared with '...' raised %r" % (decl, rD), detail)
        elif k == 'struct':
            if not from_compiler(rD[1], it['fields']):
                rep.bad('dotdotdot-layout-not-from-compiler', "%s with '...': size %d offsets %r, "
                        'compiler %r' % ((decl,) + tuple(rD[1]) + (compiler_layout(it),)), detail)
        elif k == 'const' and rD[1] != it['value']:
            rep.bad('dotdotdot-value-not-from-compiler', '%s: %r' % (decl, rD[1]), detail)
        elif k == 'enum' and rD[1] != [v for n, v in it['values']]:
            rep.bad('dotdotdot-value-not-from-compiler', '%s: %r' % (decl, rD[1]), detail)
    # ---------------- module A: every declared name is exposed ----------------
    detail = [case['seed'], case['tag'], -1]
    try:
        MOVING = set(['c12_cur', 'c12_row_addr', 'c12_row_get', 'c12_tl', 'c12_tl_addr', 'c12_which'])
        names = set(dir(A.lib)) - MOVING          # (the fixed extra block of module A)
        if not MOVING <= set(dir(A.lib)):
            rep.bad('declared-name-not-exposed', 'dir(lib) lacks %r' %
                    sorted(MOVING - set(dir(A.lib))), detail)
        tds, sts, uns = A.ffi.list_types()
        rep.case(('A', 'exposure', case['seed']))
        rep.stat('A_exposed_names_compared', len(exposed))
        missing = sorted(exposed - names)
        extra = sorted(names - exposed)
        exp_t = set([it['name'] for it in items if it['kind'] == 'tdef'] +
                    [it['name'] + '_t' for it in items if it['kind'] == 'struct' and
                     it['form'] in ('anon', 'anon-union', 'tdef')] +
                    [it['name'] + '_p' for it in items if it['kind'] == 'struct' and
                     it['form'] == 'ptr'])
        exp_s = set(it['name'] for it in items if (it['kind'] == 'struct' and
                                                   it['form'] in ('tag', 'tdef')) or
                    it['kind'] == 'bstruct')
        exp_u = set(it['name'] for it in items if it['kind'] == 'struct' and it['form'] == 'union')
        mt = sorted((exp_t - set(tds)) | (exp_s - set(sts)) | (exp_u - set(uns)))
        rep.stat('A_exposed_types_compared', len(exp_t) + len(exp_s) + len(exp_u))
        if missing or extra or mt:
            rep.bad('declared-name-not-exposed', 'dir(lib) lacks %r, has undeclared %r; '
                    'list_types() lacks %r' % (missing, extra, mt), detail)
        d = set(A.lib.__dict__) - MOVING
        if set(d) != names - set(x['name'] for x in items
                                 if x['kind'] in ('glob', 'garr', 'gptr', 'gstruct')) and \
                set(d) != names:
            rep.bad('declared-name-not-exposed', 'lib.__dict__ has %r, dir(lib) %r' %
                    (sorted(set(d) ^ names), len(names)), detail)
    except Exception as e:
        rep.bad('agreement-raised:exposure:%s' % type(e).__name__, 'dir(lib) / list_types() / '
                'lib.__dict__ of the agreeing module raised %s: %s' %
                (type(e).__name__, str(e)[:200]), detail)
    return rep.result()


def judge(ctx, setup, case, obs):
    core.absorb(ctx, case, obs, lambda d: case)


def replay_setup(ctx, case):
    d = os.path.join(ctx.tmp, 'mods')
    items, mut, sp = specs_for(d, case['seed'], case['tag'])
    res = modbuild.build_modules(ctx, sp)
    for s in sp:
        if not res[s['name']]['ok']:
            raise core.Inconclusive('module build failed')
    return {'dir': d}
